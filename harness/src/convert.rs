//! C06 / C04 — converting reader and conversions. Cases come from TLC (mc/MC_C06, mc/MC_C04); the harness
//! builds the converter exactly the way `versatiles convert` does, observes it and logs; Trace_Convert judges.
use crate::container::*;
use crate::indep;
use crate::mem::*;
use crate::util::*;
use serde_json::{json, Value};
use std::collections::{BTreeMap, BTreeSet};
use std::path::Path;
use versatiles_container::*;
use versatiles_core::types::*;

/// half tiles of level L0 -> lon / lat (inverse Web Mercator)
fn lon_of_half(h: f64, l0: u8) -> f64 {
	((h / 2.0) / 2f64.powi(l0 as i32) - 0.5) * 360.0
}
fn lat_of_half(h: f64, l0: u8) -> f64 {
	let y = (h / 2.0) / 2f64.powi(l0 as i32);
	((std::f64::consts::PI * (1.0 - 2.0 * y)).exp().atan() / std::f64::consts::PI - 0.25) * 360.0
}
pub fn geo_of(g: &Value) -> GeoBBox {
	let l0 = g["L0"].as_u64().unwrap() as u8;
	GeoBBox(
		lon_of_half(g["w"].as_f64().unwrap(), l0),
		lat_of_half(g["s"].as_f64().unwrap(), l0),
		lon_of_half(g["e"].as_f64().unwrap(), l0),
		lat_of_half(g["n"].as_f64().unwrap(), l0),
	)
}

/// the pyramid the CLI builds from --min-zoom/--max-zoom/--bbox/--bbox-border (versatiles/src/tools/convert.rs)
pub fn pyramid_of(o: &Value) -> Option<TileBBoxPyramid> {
	let (zmin, zmax, hasgeo) = (o["zmin"].as_i64().unwrap(), o["zmax"].as_i64().unwrap(), o["hasgeo"].as_u64().unwrap() == 1);
	if zmin < 0 && zmax < 0 && !hasgeo {
		return None;
	}
	let mut p = TileBBoxPyramid::new_full(32);
	if zmin >= 0 {
		p.set_zoom_min(zmin as u8);
	}
	if zmax >= 0 {
		p.set_zoom_max(zmax as u8);
	}
	if hasgeo {
		p.intersect_geo_bbox(&geo_of(&o["geo"]));
		let b = o["border"].as_u64().unwrap() as u32;
		if b > 0 {
			p.add_border(b, b, b, b);
		}
	}
	Some(p)
}

/// Which variant of a case runs (source from a file, target format, option spelling) depends on the case's POSITION in the
/// enumeration; a case written into a replay file carries that position as `orig_n`, so that a replay runs the same variant.
fn variant_of(case: &Value, n: usize) -> usize {
	case.get("orig_n").and_then(|x| x.as_u64()).map(|x| x as usize).unwrap_or(n)
}

fn conv_case(rt: &tokio::runtime::Runtime, dir: &Path, case: &Value, n: usize) -> Value {
	let vn = variant_of(case, n);
	let mut c = case.clone();
	c["fmt"] = json!("mem");
	c["tf"] = json!("pbf");
	c["tc"] = json!("gzip");
	let src = source_of(&c);
	let o = &case["opts"];
	let mem = src.mem_reader();
	let srccov = pyramid_json(&mem.params.bbox_pyramid);
	let mk_cp = || TilesConverterParameters::new(None, pyramid_of(o), false, o["flip"].as_u64().unwrap() == 1, o["swap"].as_u64().unwrap() == 1);
	let mut ev = json!({"ev":"conv","id":n,"tiles":src.tiles_json(),"opts":o,"srccov":srccov,"maxlevel":4});
	// every 25th case reads its source from a REAL container file (written by the independent encoder of that format) through
	// the real reader: "all sources" of the property. What the output has to contain is stated over the source's TILES, so
	// `srccov` stays the hull of the tiles whatever the reader advertises.
	let src_file: Option<std::path::PathBuf> = if vn % 25 == 3 && !src.tiles.is_empty() {
		let f = ["mbtiles", "versatiles", "pmtiles", "tar"][(vn / 25) % 4];
		let p = file_path(dir, f, "convsrc");
		remove_path(&p);
		let fsrc = Source { fmt: f.to_string(), tf: src.tf.clone(), tc: src.tc.clone(), tiles: src.tiles.clone(), blobs: src.blobs.clone(), by_bytes: src.by_bytes.clone() };
		let (ok, err) = produce(rt, &json!({"origin":"indep","choices":{"partial_blocks":1,"dot_prefix":1}}), &fsrc, &p);
		if !ok {
			// the harness's own encoder could not write the source file (disk full, bad scratch path): not a verdict
			eprintln!("TOOL: cannot write the source file {}: {err}", p.display());
			std::process::exit(6);
		}
		Some(p)
	} else {
		None
	};
	ev["source_file"] = json!(src_file.as_ref().map(|p| p.extension().map(|e| e.to_string_lossy().to_string()).unwrap_or_default()).unwrap_or_default());
	let mk_src = || -> Box<dyn TilesReaderTrait> {
		match &src_file {
			Some(p) => match catch(|| retry_env(|| rt.block_on(get_reader(p.to_str().unwrap())))) {
				Ok(Ok(r)) => r,
				// (a real reader that cannot open a valid file is C16's matter, not C06's: this case then runs on the in-memory source)
				_ => Box::new(src.mem_reader()),
			},
			None => Box::new(src.mem_reader()),
		}
	};
	let reader = match catch(|| TilesConvertReader::new_from_reader(mk_src(), mk_cp())) {
		Ok(Ok(r)) => r,
		other => {
			ev["ok"] = json!(0);
			ev["err"] = json!(match other {
				Ok(Err(e)) => format!("{e:#}"),
				Err(p) => format!("panic: {p}"),
				_ => String::new(),
			});
			for k in ["cov", "walk", "lookups", "streams", "expect"] {
				ev[k] = json!([]);
			}
			ev["walk_ok"] = json!(0);
			ev["file"] = json!({"skip":1,"ok":0,"tiles":[]});
			return ev;
		}
	};
	ev["ok"] = json!(1);
	let cov = reader.get_parameters().bbox_pyramid.clone();
	ev["cov"] = pyramid_json(&cov);
	// lookups: every coordinate of levels 0..3
	let mut looked: BTreeMap<(u8, u32, u32), i64> = BTreeMap::new();
	let mut lookups = vec![];
	for z in 0..=3u8 {
		for y in 0..(1u32 << z) {
			for x in 0..(1u32 << z) {
				let r = lookup(rt, &reader, &src, z, x, y);
				looked.insert((z, y, x), r);
				lookups.push(json!([z, x, y, r]));
			}
		}
	}
	ev["lookups"] = json!(lookups);
	// conversion-style walk of the advertised coverage
	let mut walk: Vec<(u8, u32, u32, i64)> = vec![];
	let mut walk_ok = 1;
	for b in cov.iter_levels() {
		let s = stream(rt, &reader, &src, b);
		if s["status"] != "ok" {
			walk_ok = 0;
		}
		for it in s["res"].as_array().unwrap() {
			walk.push((it[0].as_u64().unwrap() as u8, it[2].as_u64().unwrap() as u32, it[1].as_u64().unwrap() as u32, it[3].as_i64().unwrap()));
		}
	}
	walk.sort();
	ev["walk_ok"] = json!(walk_ok);
	ev["walk"] = json!(walk.iter().map(|t| json!([t.0, t.2, t.1, t.3])).collect::<Vec<_>>());
	// arbitrary boxes: stream = lookups inside the box
	let mut streams = vec![];
	let rb = crate::c15::raw_box;
	for z in 0..=3u8 {
		let max = (1u32 << z) - 1;
		let mut boxes = vec![TileBBox::new_full(z).unwrap(), TileBBox::new_empty(z).unwrap(), rb(z, 1, 1, 0, 0)];
		if z >= 1 {
			boxes.push(rb(z, 0, 0, max / 2, max));
			boxes.push(rb(z, max / 2, 1, max, max));
			boxes.push(rb(z, 1, 0, 1, max));
			boxes.push(rb(z, 0, max, max, max));
		}
		for b in boxes {
			streams.push(stream(rt, &reader, &src, &b));
		}
	}
	ev["streams"] = json!(streams);
	ev["expect"] = json!(looked.iter().filter(|(_, r)| **r > 0 || **r == RES_UNKNOWN).map(|((z, y, x), r)| json!([z, x, y, r])).collect::<Vec<_>>());
	// every 8th case: real conversion into a file, decoded independently
	ev["file"] = json!({"skip":1,"ok":0,"tiles":[]});
	if vn % 8 == 0 && !cov.is_empty() {
		let fmt = ["versatiles", "pmtiles", "tar", "versatiles", "pmtiles", "tar", "versatiles", "mbtiles"][(vn / 8) % 8];
		let path = file_path(dir, fmt, "conv");
		remove_path(&path);
		let p = path.to_str().unwrap().to_string();
		let r = catch(|| retry_env(|| rt.block_on(convert_tiles_container(mk_src(), mk_cp(), &p))));
		if matches!(r, Ok(Ok(()))) {
			let mut fsrc = source_of(&c);
			fsrc.fmt = fmt.to_string();
			let d = decode_file(&fsrc, &path);
			ev["file"] = json!({"skip":0,"ok":d["ok"],"tiles":d["tiles"],"fmt":fmt});
		} else {
			ev["file"] = json!({"skip":0,"ok":0,"tiles":[],"fmt":fmt,"err":format!("{r:?}").chars().take(200).collect::<String>()});
		}
		remove_path(&path);
	}
	ev
}

/// the same tile set with every payload ~300 bytes LONGER (other content): what an EARLIER export into the same target looked
/// like. A conversion into a target that already holds such an export must give the same result as into a fresh one.
fn earlier_export_case(c: &Value) -> Value {
	let mut c2 = c.clone();
	let mut m = serde_json::Map::new();
	for t in c["tiles"].as_array().unwrap() {
		let p = t[3].as_u64().unwrap() as u32;
		let (size, code) = class_of(c, p);
		m.insert(p.to_string(), if code == 4 { json!([301, 1]) } else { json!([size + 301, code]) });
	}
	c2["classes"] = Value::Object(m);
	c2
}

fn recomp_case(rt: &tokio::runtime::Runtime, dir: &Path, case: &Value, n: usize) -> Value {
	// source: pbf tiles stored with src_tc; payload classes given per id
	let mut c = case.clone();
	c["fmt"] = json!("mem");
	c["tf"] = json!("pbf");
	c["tc"] = case["src_tc"].clone();
	let src = source_of(&c);
	let target = case["target"].as_str().unwrap();
	let force = case["force"].as_u64().unwrap() == 1;
	let fmt = case["fmt"].as_str().unwrap();
	let tcomp = if target == "keep" { None } else { Some(TileCompression::parse_str(target).unwrap()) };
	let meta_name = "c04 name \u{e9}";
	let mk_mem = || {
		let mut m = src.mem_reader();
		m.tilejson.set_string("name", meta_name).unwrap();
		m
	};
	let mk_cp = || TilesConverterParameters::new(tcomp, None, force, false, false);
	let mut ev = json!({"ev":"recomp","id":n,"tiles":src.tiles_json(),"src_tc":case["src_tc"],"target":target,"force":force as u8,"fmt":fmt,
		"may_refuse":case.get("may_refuse").and_then(|m| m.as_u64()).unwrap_or(0)});
	let reader = match catch(|| TilesConvertReader::new_from_reader(Box::new(mk_mem()), mk_cp())) {
		Ok(Ok(r)) => r,
		_ => {
			ev["ok"] = json!(0);
			ev["declared"] = json!("");
			ev["lookups"] = json!([]);
			ev["lookup_raw"] = json!([]);
			ev["walk_raw"] = json!([]);
			ev["walk"] = json!([]);
			ev["walk_ok"] = json!(0);
			ev["file"] = json!({"skip":1,"ok":0,"tiles":[],"tc":"","meta_name":""});
			return ev;
		}
	};
	ev["ok"] = json!(1);
	let declared = reader.get_parameters().tile_compression.as_str().to_string();
	ev["declared"] = json!(declared);
	// payload id of delivered bytes: decode with the DECLARED codec, compare with the raw source payload
	let raw: std::collections::HashMap<Vec<u8>, u32> = src.tiles.iter().map(|t| t.3).collect::<BTreeSet<_>>().into_iter().map(|p| {
		let (size, compr) = class_of(&c, p);
		(payload_c(p, size, compr), p)
	}).collect();
	let id_of = |bytes: &[u8], codec: &str| -> i64 {
		match indep::decode(codec, bytes) {
			Ok(b) => raw.get(&b).map(|p| *p as i64).unwrap_or(RES_UNKNOWN),
			Err(_) => RES_UNKNOWN,
		}
	};
	let mut lookups = vec![];
	let mut lookup_raw = vec![];
	for t in &src.tiles {
		let cc = TileCoord3::new(t.1, t.2, t.0).unwrap();
		let mut raw_hash: i64 = 0;
		let r = match catch(|| rt.block_on(reader.get_tile_data(&cc))) {
			Ok(Ok(Some(b))) => {
				raw_hash = h31(b.as_slice()) as i64;
				id_of(b.as_slice(), &declared)
			}
			Ok(Ok(None)) => RES_NONE,
			Ok(Err(_)) => RES_ERR,
			Err(_) => RES_PANIC,
		};
		lookups.push(json!([t.0, t.1, t.2, r]));
		lookup_raw.push(json!([t.0, t.1, t.2, raw_hash]));
	}
	ev["lookups"] = json!(lookups);
	// the delivered BYTES (hash) of the lookup path and, below, of the stream path: C02 asks for identical bytes
	ev["lookup_raw"] = json!(lookup_raw);
	let mut walk: Vec<(u8, u32, u32, i64)> = vec![];
	let mut walk_raw: Vec<(u8, u32, u32, i64)> = vec![];
	let mut walk_ok = 1;
	for b in reader.get_parameters().bbox_pyramid.clone().iter_levels() {
		let bb = b.clone();
		match catch(|| rt.block_on(async { reader.get_bbox_tile_stream(bb).await.collect().await })) {
			Ok(items) => {
				for (cc, blob) in items {
					walk.push((cc.z, cc.y, cc.x, id_of(blob.as_slice(), &declared)));
					walk_raw.push((cc.z, cc.y, cc.x, h31(blob.as_slice()) as i64));
				}
			}
			Err(_) => walk_ok = 0,
		}
	}
	walk.sort();
	ev["walk_ok"] = json!(walk_ok);
	ev["walk"] = json!(walk.iter().map(|t| json!([t.0, t.2, t.1, t.3])).collect::<Vec<_>>());
	walk_raw.sort();
	ev["walk_raw"] = json!(walk_raw.iter().map(|t| json!([t.0, t.2, t.1, t.3])).collect::<Vec<_>>());
	// real conversion into a container file
	let path = file_path(dir, fmt, "recomp");
	remove_path(&path);
	if fmt == "directory" {
		std::fs::create_dir_all(&path).unwrap();
	}
	let p = path.to_str().unwrap().to_string();
	// the target already holds an earlier export of the same coordinates with LONGER tiles and metadata (not for MBTiles:
	// a database is updated, not rewritten)
	if fmt != "mbtiles" {
		let earlier = source_of(&earlier_export_case(&c));
		let mut m = earlier.mem_reader();
		m.tilejson.set_string("name", &format!("{meta_name} (an earlier export with a much longer name: {})", "x".repeat(200))).unwrap();
		let _ = catch(|| rt.block_on(convert_tiles_container(Box::new(m), mk_cp(), &p)));
	}
	let r = catch(|| retry_env(|| rt.block_on(convert_tiles_container(Box::new(mk_mem()), mk_cp(), &p))));
	if matches!(r, Ok(Ok(()))) {
		ev["file"] = recomp_file(fmt, &path, &raw, meta_name);
	} else {
		ev["file"] = json!({"skip":0,"ok":0,"tc":"","tiles":[],"meta_name":"","err":format!("{r:?}").chars().take(200).collect::<String>(),
			"refused": matches!(r, Ok(Err(_))) as u8});
	}
	remove_path(&path);
	ev
}

/// a container written by a (re)compressing conversion, decoded independently; payload ids are obtained by decoding every
/// blob with the codec the FILE declares and comparing with the raw source payloads
fn recomp_file(fmt: &str, path: &Path, raw: &std::collections::HashMap<Vec<u8>, u32>, meta_name: &str) -> Value {
	let d = match fmt {
		"versatiles" => indep::decode_versatiles(&std::fs::read(path).unwrap_or_default()),
		"pmtiles" => indep::decode_pmtiles(&std::fs::read(path).unwrap_or_default()),
		"mbtiles" => indep::decode_mbtiles(path),
		"tar" => indep::decode_tar(&std::fs::read(path).unwrap_or_default()),
		_ => indep::decode_dir(path),
	};
	let id_of = |bytes: &[u8], codec: &str| -> i64 {
		match indep::decode(codec, bytes) {
			Ok(b) => raw.get(&b).map(|p| *p as i64).unwrap_or(RES_UNKNOWN),
			Err(_) => RES_UNKNOWN,
		}
	};
	let mut tiles: Vec<(u8, u32, u32, i64)> = d.tiles.iter().map(|t| (t.0, t.2, t.1, id_of(&t.3, &d.tc))).collect();
	tiles.sort();
	// observation only: the `name` the output's metadata carries
	let meta_name_out: String = match (&d.meta, fmt) {
		(_, "mbtiles") => d.layout["metadata"]["name"].as_str().unwrap_or("<absent>").to_string(),
		(Some(m), _) => serde_json::from_slice::<Value>(m).ok().and_then(|v| v["name"].as_str().map(|s| s.to_string())).unwrap_or("<absent>".into()),
		(None, _) => "<absent>".into(),
	};
	let _ = meta_name;
	json!({"skip":0,"ok":d.ok as u8,"tc":d.tc,"tiles":tiles.iter().map(|t| json!([t.0,t.2,t.1,t.3])).collect::<Vec<_>>(),"meta_name":meta_name_out,"err":d.err})
}

// ------------------------------------------------------------------------------------------ the real CLI
fn run_cli(bin: &str, args: &[String]) -> (i64, String) {
	match std::process::Command::new(bin).args(args).stdin(std::process::Stdio::null()).output() {
		Ok(o) => (o.status.code().map(|c| c as i64).unwrap_or(-1), String::from_utf8_lossy(&o.stderr).chars().rev().take(300).collect::<String>().chars().rev().collect()),
		Err(e) => (-2, format!("{e}")),
	}
}

/// `versatiles convert <options> src.versatiles out.<fmt>` for a conversion case: the options are rendered the way a user
/// types them; the source file comes from the independent encoder, the output is decoded independently
fn cli_conv_case(bin: &str, dir: &Path, case: &Value, n: usize) -> Value {
	let vn = variant_of(case, n);
	let mut c = case.clone();
	c["fmt"] = json!("mem");
	c["tf"] = json!("pbf");
	c["tc"] = json!("gzip");
	let src = source_of(&c);
	let o = &case["opts"];
	let fmt = ["versatiles", "tar", "pmtiles", "directory", "mbtiles", "versatiles"][(vn / 3) % 6];
	let sp = dir.join("cli_src.versatiles");
	std::fs::write(&sp, indep::encode_versatiles("pbf", "gzip", &src.raw_tiles(), None, &indep::VtChoices { partial_blocks: true, reverse_tiles: false, share_all: false, index_first: false, shuffle_blocks: false, gap: 0 })).unwrap();
	let path = file_path(dir, fmt, "cli");
	remove_path(&path);
	if fmt == "directory" {
		std::fs::create_dir_all(&path).unwrap(); // a directory target has to exist
	}
	let mut args: Vec<String> = vec!["convert".into()];
	if o["zmin"].as_i64().unwrap() >= 0 {
		args.push(format!("--min-zoom={}", o["zmin"]));
	}
	if o["zmax"].as_i64().unwrap() >= 0 {
		args.push("--max-zoom".into());
		args.push(format!("{}", o["zmax"]));
	}
	if o["hasgeo"].as_u64().unwrap() == 1 {
		let g = geo_of(&o["geo"]);
		// the three separators the option accepts
		match vn % 3 {
			0 => args.push(format!("--bbox={},{},{},{}", g.0, g.1, g.2, g.3)),
			1 => {
				args.push("-b".into());
				args.push(format!("{} {} {} {}", g.0, g.1, g.2, g.3));
			}
			_ => args.push(format!("--bbox={};{};{};{}", g.0, g.1, g.2, g.3)),
		}
		let b = o["border"].as_u64().unwrap();
		if b > 0 {
			args.push(format!("--bbox-border={b}"));
		}
	}
	if o["flip"].as_u64().unwrap() == 1 {
		args.push("--flip-y".into());
	}
	if o["swap"].as_u64().unwrap() == 1 {
		args.push("--swap-xy".into());
	}
	args.push(sp.to_str().unwrap().into());
	args.push(path.to_str().unwrap().into());
	let (exit, err) = run_cli(bin, &args);
	let mut ev = json!({"ev":"cli","id":n,"tiles":src.tiles_json(),"opts":o,"fmt":fmt,"exit":exit,"args":args[1..args.len()-2],"err":if exit == 0 { String::new() } else { err }});
	let mut fsrc = source_of(&c);
	fsrc.fmt = fmt.to_string();
	if path.exists() {
		let d = decode_file(&fsrc, &path);
		ev["file"] = json!({"exists":1,"ok":d["ok"],"tiles":d["tiles"]});
	} else {
		ev["file"] = json!({"exists":0,"ok":0,"tiles":[]});
	}
	remove_path(&path);
	ev
}

/// `versatiles convert [-c <codec>] [-f] src.versatiles out.<fmt>` for a recompression case
fn cli_recomp_case(bin: &str, dir: &Path, case: &Value, n: usize, override_input: bool) -> Value {
	let vn = variant_of(case, n);
	let mut c = case.clone();
	c["fmt"] = json!("mem");
	c["tf"] = json!("pbf");
	c["tc"] = case["src_tc"].clone();
	let src = source_of(&c);
	let src_tc = case["src_tc"].as_str().unwrap();
	let target = case["target"].as_str().unwrap();
	let force = case["force"].as_u64().unwrap() == 1;
	let fmt = case["fmt"].as_str().unwrap();
	let meta_name = "c04 name \u{e9}";
	let raw: std::collections::HashMap<Vec<u8>, u32> = src.tiles.iter().map(|t| t.3).collect::<BTreeSet<_>>().into_iter().map(|p| {
		let (size, compr) = class_of(&c, p);
		(payload_c(p, size, compr), p)
	}).collect();
	// (a versatiles file encodes "no tile" as length 0: a source that stores a zero-byte tile is given as a tar archive)
	let has_empty_blob = src.raw_tiles().iter().any(|t| t.3.is_empty());
	let sp = dir.join(if has_empty_blob { "cli_rsrc.tar" } else { "cli_rsrc.versatiles" });
	let meta = serde_json::to_vec(&json!({"name": meta_name, "tilejson": "3.0.0"})).unwrap();
	// override_input: the file DECLARES uncompressed tiles although they are stored with src_tc (the situation
	// `--override-input-compression` exists for); the option has to give the same result as an honest declaration
	let declared_in = if override_input { "none" } else { src_tc };
	if has_empty_blob {
		std::fs::write(&sp, indep::encode_tar("pbf", declared_in, &src.raw_tiles(), Some(&meta), &indep::TarChoices { dot_prefix: false, dir_members: false, ustar: false, reverse: false, meta_name: "tiles.json" })).unwrap();
	} else {
		std::fs::write(&sp, indep::encode_versatiles("pbf", declared_in, &src.raw_tiles(), Some(&meta), &indep::VtChoices { partial_blocks: true, reverse_tiles: false, share_all: false, index_first: false, shuffle_blocks: false, gap: 0 })).unwrap();
	}
	let path = file_path(dir, fmt, "clir");
	remove_path(&path);
	if fmt == "directory" {
		std::fs::create_dir_all(&path).unwrap();
	}
	let mut args: Vec<String> = vec!["convert".into()];
	if target != "keep" {
		let name = match target { "none" => "uncompressed", t => t };
		if vn % 2 == 0 {
			args.push(format!("--compress={name}"));
		} else {
			args.push("-c".into());
			args.push(name.into());
		}
	}
	if force {
		args.push(if vn % 2 == 0 { "-f".into() } else { "--force-recompress".into() });
	}
	if override_input {
		args.push(format!("--override-input-compression={}", match src_tc { "none" => "uncompressed", t => t }));
	}
	args.push(sp.to_str().unwrap().into());
	args.push(path.to_str().unwrap().into());
	// the target already holds an earlier export (same coordinates, longer tiles and metadata) made by the same command
	if fmt != "mbtiles" {
		let earlier = source_of(&earlier_export_case(&c));
		let ep = dir.join("cli_rsrc_earlier.versatiles");
		let emeta = serde_json::to_vec(&json!({"name": format!("{meta_name} (an earlier export with a much longer name: {})", "x".repeat(200)), "tilejson": "3.0.0"})).unwrap();
		std::fs::write(&ep, indep::encode_versatiles("pbf", declared_in, &earlier.raw_tiles(), Some(&emeta), &indep::VtChoices { partial_blocks: true, reverse_tiles: false, share_all: false, index_first: false, shuffle_blocks: false, gap: 0 })).unwrap();
		let mut a2 = args.clone();
		let k = a2.len() - 2;
		a2[k] = ep.to_str().unwrap().into();
		let _ = run_cli(bin, &a2);
		let _ = std::fs::remove_file(&ep);
	}
	let (exit, err) = run_cli(bin, &args);
	let mut ev = json!({"ev":"clirecomp","id":n,"tiles":src.tiles_json(),"src_tc":src_tc,"target":target,"force":force as u8,"fmt":fmt,"override":override_input as u8,"exit":exit,
		"may_refuse":case.get("may_refuse").and_then(|m| m.as_u64()).unwrap_or(0),
		"args":args[1..args.len()-2],"err":if exit == 0 { String::new() } else { err }});
	ev["file"] = if path.exists() { recomp_file(fmt, &path, &raw, meta_name) } else { json!({"skip":0,"ok":0,"tc":"","tiles":[],"meta_name":"","err":"no output"}) };
	remove_path(&path);
	ev
}

/// runs every `stride`-th case through the real binary
pub fn cli(input: &str, output: &str, dir: &str, bin: &str, stride: usize) -> Value {
	let all = read_ndjson(input);
	let cases: Vec<(usize, &Value)> = all.iter().enumerate().filter(|(i, _)| i % stride == 0).collect();
	let mut out = Out::create(output);
	let workers = 12usize.min(cases.len().max(1));
	let results: Vec<Vec<(usize, Value)>> = std::thread::scope(|sc| {
		let cases = &cases;
		let hs: Vec<_> = (0..workers)
			.map(|w| {
				sc.spawn(move || {
					let d = Path::new(dir).join(format!("cli{w}"));
					std::fs::create_dir_all(&d).unwrap();
					let mut v = vec![];
					let mut i = w;
					while i < cases.len() {
						let (n, c) = cases[i];
						let e = match c["k"].as_str().unwrap() {
							"conv" => cli_conv_case(bin, &d, c, n),
							"recomp" => {
								// sources stored compressed: once more with a file that declares them uncompressed + the override option
								if c["src_tc"] != "none" {
									v.push((usize::MAX, cli_recomp_case(bin, &d, c, n, true)));
								}
								cli_recomp_case(bin, &d, c, n, false)
							}
							k => panic!("kind {k}"),
						};
						v.push((i, e));
						i += workers;
					}
					v
				})
			})
			.collect();
		hs.into_iter().map(|h| h.join().unwrap()).collect()
	});
	let mut slots: Vec<Option<Value>> = vec![None; cases.len()];
	let mut extra: Vec<Value> = vec![];
	let mut nonzero = 0u64;
	for r in results {
		for (i, e) in r {
			nonzero += (e["exit"] != 0) as u64;
			if i == usize::MAX {
				extra.push(e);
			} else {
				slots[i] = Some(e);
			}
		}
	}
	for s in slots {
		out.emit(&s.unwrap());
	}
	for e in &extra {
		out.emit(e);
	}
	let lines = out.finish();
	json!({"cases": cases.len() + extra.len(), "events": lines, "nonzero_exit": nonzero, "override_runs": extra.len()})
}

pub fn replay(input: &str, output: &str, dir: &str) -> Value {
	let cases = read_ndjson(input);
	let mut out = Out::create(output);
	let workers = 10usize.min(cases.len().max(1));
	let results: Vec<Vec<(usize, Value)>> = std::thread::scope(|sc| {
		let cases = &cases;
		let hs: Vec<_> = (0..workers)
			.map(|w| {
				sc.spawn(move || {
					let rt = tokio::runtime::Builder::new_multi_thread().worker_threads(3).enable_all().build().unwrap();
					let d = Path::new(dir).join(format!("cw{w}"));
					std::fs::create_dir_all(&d).unwrap();
					let mut v = vec![];
					let mut i = w;
					while i < cases.len() {
						let e = match cases[i]["k"].as_str().unwrap() {
							"conv" => conv_case(&rt, &d, &cases[i], i),
							"recomp" => recomp_case(&rt, &d, &cases[i], i),
							k => panic!("kind {k}"),
						};
						v.push((i, e));
						i += workers;
					}
					v
				})
			})
			.collect();
		hs.into_iter().map(|h| h.join().unwrap()).collect()
	});
	let mut slots: Vec<Option<Value>> = vec![None; cases.len()];
	for r in results {
		for (i, e) in r {
			slots[i] = Some(e);
		}
	}
	for s in slots {
		out.emit(&s.unwrap());
	}
	let lines = out.finish();
	json!({"cases": cases.len(), "events": lines})
}
