//! C05 / C07 — the real `versatiles serve` binary over raw TCP. Requests are enumerated by TLC (mc/MC_Server);
//! every exchange is logged (status, headers, identity of the decoded body, or "dropped"); Trace_Server judges.
use crate::container::{file_path, remove_path};
use crate::indep;

use crate::util::*;
use serde_json::{json, Value};
use std::collections::{BTreeMap, HashMap};
use std::io::{Read, Write};
use std::net::TcpStream;
use std::path::{Path, PathBuf};
use std::process::{Child, Command, Stdio};
use std::time::{Duration, Instant};

pub struct Resp {
	pub status: i64,
	pub headers: HashMap<String, String>,
	pub body: Vec<u8>,
}

fn read_response(s: &mut TcpStream) -> Option<Resp> {
	let mut buf: Vec<u8> = vec![];
	let mut tmp = [0u8; 16384];
	let head_end;
	loop {
		if let Some(p) = buf.windows(4).position(|w| w == b"\r\n\r\n") {
			head_end = p + 4;
			break;
		}
		match s.read(&mut tmp) {
			Ok(0) | Err(_) => return None,
			Ok(n) => buf.extend_from_slice(&tmp[..n]),
		}
	}
	let head = String::from_utf8_lossy(&buf[..head_end]).to_string();
	let mut lines = head.split("\r\n");
	let status: i64 = lines.next()?.split(' ').nth(1)?.parse().ok()?;
	let mut headers = HashMap::new();
	for l in lines {
		if let Some((k, v)) = l.split_once(':') {
			// (content-coding names are case-insensitive: `Content-Encoding: GZIP` is gzip)
			let key = k.trim().to_lowercase();
			let val = if key == "content-encoding" { v.trim().to_lowercase() } else { v.trim().to_string() };
			headers.insert(key, val);
		}
	}
	let mut body = buf[head_end..].to_vec();
	if let Some(cl) = headers.get("content-length").and_then(|v| v.parse::<usize>().ok()) {
		while body.len() < cl {
			match s.read(&mut tmp) {
				Ok(0) | Err(_) => return None,
				Ok(n) => body.extend_from_slice(&tmp[..n]),
			}
		}
		body.truncate(cl);
	} else if headers.get("transfer-encoding").map(|v| v.contains("chunked")).unwrap_or(false) {
		let mut out = vec![];
		let mut rest = body;
		loop {
			let pos = loop {
				if let Some(p) = rest.windows(2).position(|w| w == b"\r\n") {
					break p;
				}
				match s.read(&mut tmp) {
					Ok(0) | Err(_) => return None,
					Ok(n) => rest.extend_from_slice(&tmp[..n]),
				}
			};
			let size = usize::from_str_radix(String::from_utf8_lossy(&rest[..pos]).trim(), 16).ok()?;
			rest.drain(..pos + 2);
			while rest.len() < size + 2 {
				match s.read(&mut tmp) {
					Ok(0) | Err(_) => return None,
					Ok(n) => rest.extend_from_slice(&tmp[..n]),
				}
			}
			if size == 0 {
				break;
			}
			out.extend_from_slice(&rest[..size]);
			rest.drain(..size + 2);
		}
		body = out;
	}
	Some(Resp { status, headers, body })
}

pub struct Client {
	addr: String,
	conn: Option<TcpStream>,
}
impl Client {
	pub fn new(port: u16) -> Self {
		Client { addr: format!("127.0.0.1:{port}"), conn: None }
	}
	fn connect(&mut self) -> Option<&mut TcpStream> {
		if self.conn.is_none() {
			let s = TcpStream::connect(&self.addr).ok()?;
			s.set_read_timeout(Some(Duration::from_secs(10))).ok();
			s.set_nodelay(true).ok();
			self.conn = Some(s);
		}
		self.conn.as_mut()
	}
	/// raw request target (no normalisation whatsoever); None = no complete response (connection dropped / hung)
	pub fn get(&mut self, target: &str, extra_headers: &[(&str, &str)]) -> Option<Resp> {
		let mut req = format!("GET {target} HTTP/1.1\r\nHost: localhost\r\n");
		for (k, v) in extra_headers {
			req += &format!("{k}: {v}\r\n");
		}
		req += "\r\n";
		for attempt in 0..2 {
			let fresh = self.conn.is_none();
			let Some(s) = self.connect() else { return None };
			if s.write_all(req.as_bytes()).is_err() {
				self.conn = None;
				continue;
			}
			match read_response(s) {
				Some(r) => {
					if r.headers.get("connection").map(|v| v.eq_ignore_ascii_case("close")).unwrap_or(false) {
						self.conn = None;
					}
					return Some(r);
				}
				None => {
					self.conn = None;
					// a kept-alive connection may have been closed by the server between requests: retry once on a fresh one
					if fresh || attempt == 1 {
						return None;
					}
				}
			}
		}
		None
	}
}

pub struct Server {
	child: Child,
	pub port: u16,
}
impl Server {
	/// Starts the server; a process that exits before it listens is started again on another port (up to 5 times: the port
	/// is picked by binding port 0 and releasing it, so another job on this machine can take it in between).
	pub fn start(bin: &str, args: &[String]) -> Option<Server> {
		for _ in 0..4 {
			if let Some(s) = Self::start_once(bin, args) {
				return Some(s);
			}
			std::thread::sleep(Duration::from_millis(300));
		}
		Self::start_once(bin, args)
	}
	fn start_once(bin: &str, args: &[String]) -> Option<Server> {
		let port = std::net::TcpListener::bind("127.0.0.1:0").ok()?.local_addr().ok()?.port();
		let mut a: Vec<String> = vec!["serve".into(), "-i".into(), "127.0.0.1".into(), "-p".into(), port.to_string()];
		a.extend_from_slice(args);
		let errlog = std::path::Path::new("/dev/shm").join(format!("vharness_server_{}.log", std::process::id()));
		let stderr = std::fs::File::create(&errlog).map(Stdio::from).unwrap_or(Stdio::null());
		let child = Command::new(bin).args(&a).stdout(Stdio::null()).stderr(stderr).spawn().ok()?;
		let mut s = Server { child, port };
		let t0 = Instant::now();
		while t0.elapsed() < Duration::from_secs(60) {
			if TcpStream::connect(format!("127.0.0.1:{port}")).is_ok() {
				let _ = std::fs::remove_file(&errlog);
				return Some(s);
			}
			if let Ok(Some(_)) = s.child.try_wait() {
				eprintln!("server exited early: {}", std::fs::read_to_string(&errlog).unwrap_or_default().chars().take(1500).collect::<String>());
				let _ = std::fs::remove_file(&errlog);
				return None;
			}
			std::thread::sleep(Duration::from_millis(50));
		}
		// still running but not listening after a minute: a matter of this machine's load, not of any property --
		// a tool error (exit code 5), never a verdict
		let _ = s.child.kill();
		eprintln!("the server process did not start listening within 60 s");
		std::process::exit(5);
	}
}
impl Drop for Server {
	fn drop(&mut self) {
		let _ = self.child.kill();
		let _ = self.child.wait();
	}
}

fn decode_body(r: &Resp) -> Option<Vec<u8>> {
	match r.headers.get("content-encoding").map(|s| s.as_str()) {
		None | Some("") | Some("identity") => Some(r.body.clone()),
		Some("gzip") => indep::gunzip(&r.body).ok(),
		Some("br") => indep::brotli_d(&r.body).ok(),
		Some("deflate") => {
			// RFC 9110 "deflate" = zlib stream (some servers send raw deflate)
			use std::io::Read;
			let mut out = vec![];
			if flate2::read::ZlibDecoder::new(&r.body[..]).read_to_end(&mut out).is_ok() {
				return Some(out);
			}
			let mut out = vec![];
			flate2::read::DeflateDecoder::new(&r.body[..]).read_to_end(&mut out).ok().map(|_| out)
		}
		_ => None,
	}
}
/// a coding this harness has no decoder for (zstd): the body of such a response cannot be identified here
fn undecodable(r: &Resp) -> bool {
	matches!(r.headers.get("content-encoding").map(|s| s.as_str()), Some("zstd"))
}

/// percent-encoding of a path segment as a standards-conforming client sends it
fn pct(seg: &str) -> String {
	seg.bytes().map(|b| if b.is_ascii_alphanumeric() || b"-._~".contains(&b) { (b as char).to_string() } else { format!("%{b:02X}") }).collect()
}
fn src_tiles(case: &Value) -> Vec<(u8, u32, u32, u32)> {
	case["tiles"].as_array().unwrap().iter().map(|t| (t[0].as_u64().unwrap() as u8, t[1].as_u64().unwrap() as u32, t[2].as_u64().unwrap() as u32, t[3].as_u64().unwrap() as u32)).collect()
}
fn raw_payload(p: u32) -> Vec<u8> {
	// payloads 3 and 4 are themselves gzip / brotli streams: content that looks like an encoding is still content
	// payload 7 is BIG: 17 MiB + 4 KiB of compressible content
	if p == 7 {
		return crate::mem::payload_c(p, (17 << 20) + 4096, 1);
	}
	crate::mem::payload_c(p, 200 + (p as usize % 5) * 37, match p { 3 => 2, 4 => 3, _ => 1 })
}

pub fn tiles(bin: &str, input: &str, output: &str, dir: &str) -> Value {
	let cases = read_ndjson(input);
	let mut out = Out::create(output);
	let d = Path::new(dir);
	std::fs::create_dir_all(d).unwrap();
	// materialise every source once (independent encoders)
	let mut paths: BTreeMap<String, PathBuf> = BTreeMap::new();
	for c in &cases {
		let id = c["src"]["id"].as_str().unwrap().to_string();
		if paths.contains_key(&id) {
			continue;
		}
		let (fmt, tf, tc) = (c["src"]["fmt"].as_str().unwrap(), c["src"]["tf"].as_str().unwrap(), c["src"]["tc"].as_str().unwrap());
		let raw: Vec<indep::Tile> = src_tiles(c).iter().map(|t| (t.0, t.1, t.2, indep::encode(tc, &raw_payload(t.3)))).collect();
		let p = file_path(d, fmt, &id);
		remove_path(&p);
		let meta: Option<&[u8]> = Some(br#"{"name":"srv","tilejson":"3.0.0","attribution":"\"a\" \\ b"}"#);
		match fmt {
			"versatiles" => std::fs::write(&p, indep::encode_versatiles(tf, tc, &raw, meta, &indep::VtChoices { partial_blocks: true, reverse_tiles: false, share_all: false, index_first: false, shuffle_blocks: false, gap: 0 })).unwrap(),
			"pmtiles" => std::fs::write(&p, indep::encode_pmtiles(tf, tc, &raw, meta, &indep::PmChoices { run_lengths: false, share: false, leaf_levels: 0, leaf_size: 4, mixed_root: false, internal: "gzip", unclustered: false, type_unknown: false })).unwrap(),
			"mbtiles" => indep::encode_mbtiles(&p, tf, &raw, &indep::MbChoices { as_view: false, extra_metadata: false, without_index: false }),
			"tar" => std::fs::write(&p, indep::encode_tar(tf, tc, &raw, meta, &indep::TarChoices { dot_prefix: true, dir_members: false, ustar: false, reverse: false, meta_name: "tiles.json" })).unwrap(),
			f => panic!("fmt {f}"),
		}
		paths.insert(id, p);
	}
	let by_payload: HashMap<Vec<u8>, u32> = (1..=20u32).map(|p| (raw_payload(p), p)).collect();
	let mut by_inst: BTreeMap<u64, Vec<usize>> = BTreeMap::new();
	for (i, c) in cases.iter().enumerate() {
		by_inst.entry(c["inst"].as_u64().unwrap()).or_default().push(i);
	}
	let mut events: Vec<Option<Value>> = vec![None; cases.len()];
	let (mut dropped, mut ok200) = (0u64, 0u64);
	let mut extra_events: Vec<Value> = vec![];
	for (_inst, idxs) in by_inst {
		let flags = &cases[idxs[0]]["flags"];
		let mut args: Vec<String> = vec![];
		for (k, f) in [("fast", "--fast"), ("flip", "--flip-y"), ("swap", "--swap-xy")] {
			if flags[k] == 1 {
				args.push(f.to_string());
			}
		}
		// every source is named on the command line in the syntax its case prescribes
		let mut arg_ids: Vec<String> = vec![];
		for (id, p) in &paths {
			let src = &cases.iter().find(|c| c["src"]["id"] == id.as_str()).unwrap()["src"];
			let ps = p.to_str().unwrap();
			args.push(match src["kind"].as_str().unwrap_or("prefix") {
				"prefix" => format!("[{id}]{ps}"),
				"suffix" => format!("{ps}[{id}]"),
				"hash" => format!("{ps}#{id}"),
				_ => ps.to_string(),
			});
			arg_ids.push(src["sid"].as_str().unwrap_or(id).to_string());
		}
		let Some(server) = Server::start(bin, &args) else {
			for i in idxs {
				events[i] = Some(json!({"ev":"tile","id":i,"q":cases[i],"resp":{"status":-1,"ctype":"","cenc":"","body":0},"note":"server did not start"}));
			}
			continue;
		};
		let mut client = Client::new(server.port);
		for &i in idxs.iter() {
			let c = &cases[i];
			let target = format!("/tiles/{}/{}/{}/{}", pct(c["src"]["sid"].as_str().unwrap_or(c["src"]["id"].as_str().unwrap())), c["z"]["txt"].as_str().unwrap(), c["x"]["txt"].as_str().unwrap(), c["y"]["txt"].as_str().unwrap());
			let header = c["header"].as_str().unwrap();
			let hs: Vec<(&str, &str)> = if header.is_empty() { vec![] } else { vec![("Accept-Encoding", header)] };
			let resp = match client.get(&target, &hs) {
				None => {
					dropped += 1;
					json!({"status":-1,"ctype":"","cenc":"","body":0})
				}
				Some(r) => {
					let body = if r.status == 200 {
						ok200 += 1;
						if undecodable(&r) { -9 } else { decode_body(&r).and_then(|b| by_payload.get(&b).map(|p| *p as i64)).unwrap_or(-2) }
					} else {
						0
					};
					// media type without parameters (";charset=..."), lower case
					json!({"status":r.status,"ctype":r.headers.get("content-type").map(|c| c.split(';').next().unwrap_or("").trim().to_ascii_lowercase()).unwrap_or_default(),
						"cenc":r.headers.get("content-encoding").cloned().unwrap_or_default(),"body":body})
				}
			};
			events[i] = Some(json!({"ev":"tile","id":i,"q":c,"resp":resp,"target":target}));
		}
		// served tiles.json of every source (C17 clause): valid JSON with tiles template, bounds/zoom consistent
		for (id, _) in &paths {
			let src = cases.iter().find(|c| c["src"]["id"] == id.as_str()).unwrap();
			let tl = src_tiles(src);
			let (zmin, zmax) = (tl.iter().map(|t| t.0).min().unwrap(), tl.iter().map(|t| t.0).max().unwrap());
			let target = format!("/tiles/{}/tiles.json", pct(src["src"]["sid"].as_str().unwrap_or(id)));
			let mut ev = json!({"ev":"tilesjson","id":0,"target":target,"q":{"src":src["src"],"flags":flags},"cov_minzoom":zmin,"cov_maxzoom":zmax,
				"resp":{"status":-1},"valid":0,"template":"","template_segs":[],"minzoom":-1,"maxzoom":-1,"bounds_e6":[],"attribution":"","format":"","ctype":""});
			if let Some(r) = client.get(&target, &[("Accept-Encoding", "gzip")]) {
				ev["resp"] = json!({"status": r.status});
				ev["ctype"] = json!(r.headers.get("content-type").cloned().unwrap_or_default());
				if let Some(Ok(Value::Object(o))) = decode_body(&r).map(|b| serde_json::from_slice::<Value>(&b)) {
					ev["valid"] = json!(1);
					let tpl = o.get("tiles").and_then(|t| t.as_array()).and_then(|a| a.first()).and_then(|t| t.as_str()).unwrap_or("").to_string();
					ev["template"] = json!(tpl);
					// the path segments of the template (scheme://host dropped, percent-decoded, "{y}.ext" read as "{y}")
					let path = match tpl.find("://") {
						Some(i) => tpl[i + 3..].find('/').map(|j| tpl[i + 3 + j..].to_string()).unwrap_or_default(),
						None => tpl.clone(),
					};
					let segs: Vec<String> = path.split('/').filter(|x| !x.is_empty()).map(|x| {
						let mut out = vec![];
						let b = x.as_bytes();
						let mut k = 0;
						while k < b.len() {
							if b[k] == b'%' && k + 2 < b.len() && x.is_char_boundary(k + 1) && x.is_char_boundary(k + 3) {
								if let Ok(v) = u8::from_str_radix(&x[k + 1..k + 3], 16) {
									out.push(v);
									k += 3;
									continue;
								}
							}
							out.push(b[k]);
							k += 1;
						}
						let d = String::from_utf8_lossy(&out).to_string();
						if d.starts_with("{y}") { "{y}".to_string() } else { d }
					}).collect();
					ev["template_segs"] = json!(segs);
					ev["minzoom"] = json!(o.get("minzoom").and_then(|v| v.as_i64()).unwrap_or(-1));
					ev["maxzoom"] = json!(o.get("maxzoom").and_then(|v| v.as_i64()).unwrap_or(-1));
					ev["format"] = json!(o.get("format").and_then(|v| v.as_str()).unwrap_or(""));
					let b: Vec<f64> = o.get("bounds").and_then(|b| b.as_array()).map(|a| a.iter().filter_map(|x| x.as_f64()).collect()).unwrap_or_default();
					// observations only: the bounds in millionths of a degree, the attribution text as served
					ev["bounds_e6"] = json!(b.iter().map(|v| (v * 1e6).round().clamp(-2e9, 2e9) as i64).collect::<Vec<_>>());
					// the attribution given to the container (formats that store arbitrary metadata)
					let want = "\"a\" \\ b";
					let _ = want;
					ev["attribution"] = json!(o.get("attribution").and_then(|v| v.as_str()).unwrap_or("<absent>"));
				}
			}
			extra_events.push(ev);
		}
		// API endpoints (system behaviour beyond the listed properties)
		let mut api = json!({"ev":"api","id":0,"target":"/tiles/index.json","q":{"src":{"id":"api","sid":"api"},"flags":flags},"ids":arg_ids,
			"status":{"code":-1,"body":""},"index":{"code":-1,"valid":0,"ids":[],"text":""},"unknown":-1,"resp":{"status":0}});
		if let Some(r) = client.get("/status", &[]) {
			api["status"] = json!({"code": r.status, "body": decode_body(&r).map(|b| String::from_utf8_lossy(&b).to_string()).unwrap_or_default()});
		}
		if let Some(r) = client.get("/tiles/index.json", &[("Accept-Encoding", "gzip")]) {
			let body = decode_body(&r).unwrap_or_default();
			let parsed = serde_json::from_slice::<Vec<String>>(&body).ok();
			api["index"] = json!({"code": r.status, "valid": parsed.is_some() as u8, "ids": parsed.unwrap_or_default(), "text": String::from_utf8_lossy(&body).chars().take(300).collect::<String>()});
		}
		if let Some(r) = client.get("/tiles/nosuch/0/0/0", &[]) {
			api["unknown"] = json!(r.status);
		}
		extra_events.push(api);
		drop(client);
		drop(server);
	}
	for e in events {
		out.emit(&e.unwrap());
	}
	for e in extra_events {
		out.emit(&e);
	}
	for p in paths.values() {
		remove_path(p);
	}
	let lines = out.finish();
	json!({"cases": cases.len(), "events": lines, "dropped": dropped, "status_200": ok200})
}

pub fn statics(bin: &str, input: &str, output: &str, dir: &str) -> Value {
	let cases = read_ndjson(input);
	let mut out = Out::create(output);
	// file system: <dir>/p2/canary2.txt, <dir>/p2/parent/canary.txt, <dir>/p2/parent/root/{index.html,a.txt,sub/{index.html,b.txt}}
	let base = Path::new(dir).join("p2");
	let _ = std::fs::remove_dir_all(&base);
	let root = base.join("parent").join("root");
	std::fs::create_dir_all(root.join("sub")).unwrap();
	std::fs::write(base.join("canary2.txt"), "OUT:canary2").unwrap();
	std::fs::write(base.join("parent").join("canary.txt"), "OUT:canary").unwrap();
	std::fs::write(base.join("parent").join("index.html"), "OUT:other").unwrap();
	// precompressed siblings outside the root: the name itself does not exist, only name.br / name.gz
	std::fs::write(base.join("parent").join("secret.txt.br"), indep::encode("brotli", b"OUT:secret")).unwrap();
	std::fs::write(base.join("secret.txt.gz"), indep::encode("gzip", b"OUT:secret2")).unwrap();
	std::fs::write(base.join("index.html.gz"), indep::encode("gzip", b"OUT:other2")).unwrap();
	let inside = [("index.html", "IN:index.html"), ("a.txt", "IN:a.txt"), ("sub/index.html", "IN:sub/index.html"), ("sub/b.txt", "IN:sub/b.txt")];
	for (f, c) in inside {
		std::fs::write(root.join(f), c).unwrap();
	}
	// ... and inside it (the legitimate use of the fallback)
	std::fs::write(root.join("c.txt.br"), indep::encode("brotli", b"IN:c.txt")).unwrap();
	std::fs::write(root.join("sub").join("d.txt.gz"), indep::encode("gzip", b"IN:sub/d.txt")).unwrap();
	// tar with the same tree (members with ./ prefix), next to the root
	let tiles: Vec<indep::Tile> = vec![];
	let _ = tiles;
	let tar_path = base.join("parent").join("site.tar");
	{
		let mut b = vec![];
		let mut members: Vec<(String, Vec<u8>)> = inside.iter().map(|(f, c)| (f.to_string(), c.as_bytes().to_vec())).collect();
		members.push(("c.txt.br".into(), indep::encode("brotli", b"IN:c.txt")));
		members.push(("sub/d.txt.gz".into(), indep::encode("gzip", b"IN:sub/d.txt")));
		// members whose recorded names POINT OUT of the archive (tar -P, or a writer that does not sanitise names): whatever key
		// the server files them under, the request paths /../zz_out.txt, /../../zz_out2.txt resolve outside the root -> 404
		members.push(("../zz_out.txt".into(), b"OUT:zz_out".to_vec()));
		members.push(("../../zz_out2.txt".into(), b"OUT:zz_out2".to_vec()));
		for (f, c) in members {
			let name = if f.starts_with("../") { f.clone() } else { format!("./{f}") };
			let mut h = vec![0u8; 512];
			h[..name.len()].copy_from_slice(name.as_bytes());
			h[100..107].copy_from_slice(b"0000644");
			h[108..115].copy_from_slice(b"0000000");
			h[116..123].copy_from_slice(b"0000000");
			h[124..135].copy_from_slice(format!("{:011o}", c.len()).as_bytes());
			h[136..147].copy_from_slice(b"00000000000");
			h[156] = b'0';
			h[257..265].copy_from_slice(b"ustar  \0");
			for x in h[148..156].iter_mut() {
				*x = b' ';
			}
			let sum: u32 = h.iter().map(|x| *x as u32).sum();
			h[148..155].copy_from_slice(format!("{:06o}\0", sum).as_bytes());
			b.extend_from_slice(&h);
			b.extend_from_slice(&c);
			b.extend(std::iter::repeat(0).take((512 - c.len() % 512) % 512));
		}
		b.extend(std::iter::repeat(0).take(1024));
		std::fs::write(&tar_path, b).unwrap();
	}
	// a dummy tile source is required by the CLI
	let dummy = base.join("parent").join("dummy.versatiles");
	std::fs::write(&dummy, indep::encode_versatiles("pbf", "none", &[(0, 0, 0, raw_payload(1))], None, &indep::VtChoices { partial_blocks: false, reverse_tiles: false, share_all: false, index_first: false, shuffle_blocks: false, gap: 0 })).unwrap();
	let args: Vec<String> = vec![
		format!("[dummy]{}", dummy.to_str().unwrap()),
		"-s".into(), root.to_str().unwrap().to_string(),
		"-s".into(), format!("[/pre]{}", root.to_str().unwrap()),
		"-s".into(), format!("[/tar]{}", tar_path.to_str().unwrap()),
	];
	let (mut dropped, mut served) = (0u64, 0u64);
	let server = Server::start(bin, &args);
	let mut client = server.as_ref().map(|s| Client::new(s.port));
	for (i, c) in cases.iter().enumerate() {
		// "ABS" stands for the absolute path of <dir>/p2 (without its leading slash: the slashes come from the empty segments)
		let abs = base.to_str().unwrap().trim_start_matches('/').to_string();
		let segs: Vec<&str> = c["segs"].as_array().unwrap().iter().map(|s| if s == "ABS" { abs.as_str() } else { s.as_str().unwrap() }).collect();
		let mount = c["mount"].as_str().unwrap();
		let target = format!("{}/{}", if mount.is_empty() { String::new() } else { format!("/{mount}") }, segs.join("/"));
		// content negotiation of static files (beyond C07): the client's Accept-Encoding varies with the case
		let (acc_name, acc_header, acc_list): (&str, &str, Vec<&str>) = match i % 4 {
			0 => ("all", "gzip, br", vec!["gzip", "br"]),
			1 => ("none", "", vec![]),
			2 => ("gzip", "gzip", vec!["gzip"]),
			_ => ("br", "br", vec!["br"]),
		};
		let hs: Vec<(&str, &str)> = if acc_header.is_empty() { vec![] } else { vec![("Accept-Encoding", acc_header)] };
		let mut cenc = String::new();
		let resp = match client.as_mut().and_then(|cl| cl.get(&target, &hs)) {
			None => {
				dropped += 1;
				json!({"status":-1,"file":"","outside":0})
			}
			Some(r) => {
				cenc = r.headers.get("content-encoding").cloned().unwrap_or_default();
				let file = if r.status == 200 {
					served += 1;
					let body = decode_body(&r).map(|b| String::from_utf8_lossy(&b).to_string()).unwrap_or_default();
					if let Some(f) = body.strip_prefix("IN:") {
						format!("in:{f}")
					} else if let Some(f) = body.strip_prefix("OUT:") {
						format!("out:{f}")
					} else {
						"unknown".to_string()
					}
				} else {
					String::new()
				};
				let outside = file.starts_with("out:") as u8;
				json!({"status":r.status,"file":file,"outside":outside})
			}
		};
		let mut q = c.clone();
		q["acc"] = json!(acc_name);
		q["accept"] = json!(acc_list);
		let mut resp = resp;
		resp["cenc"] = json!(cenc);
		out.emit(&json!({"ev":"static","id":i,"q":q,"resp":resp,"target":target}));
	}
	drop(client);
	drop(server);
	let _ = std::fs::remove_dir_all(&base);
	let lines = out.finish();
	json!({"cases": cases.len(), "events": lines, "dropped": dropped, "served": served})
}
