//! Shared helpers: deterministic PRNG, ndjson I/O, panic capture.
use serde_json::Value;
use std::fs::File;
use std::io::{BufRead, BufReader, BufWriter, Write};

/// splitmix64 — small, deterministic, seedable; no dependency on `rand` versions.
pub struct Rng(pub u64);
impl Rng {
	pub fn new(seed: u64) -> Self {
		Rng(seed.wrapping_mul(0x9E3779B97F4A7C15).wrapping_add(0xD1B54A32D192ED03))
	}
	pub fn next(&mut self) -> u64 {
		self.0 = self.0.wrapping_add(0x9E3779B97F4A7C15);
		let mut z = self.0;
		z = (z ^ (z >> 30)).wrapping_mul(0xBF58476D1CE4E5B9);
		z = (z ^ (z >> 27)).wrapping_mul(0x94D049BB133111EB);
		z ^ (z >> 31)
	}
	/// uniform in 0..n (n > 0)
	pub fn below(&mut self, n: u64) -> u64 {
		self.next() % n
	}
	pub fn range(&mut self, lo: u64, hi_incl: u64) -> u64 {
		lo + self.below(hi_incl - lo + 1)
	}
	pub fn chance(&mut self, num: u64, den: u64) -> bool {
		self.below(den) < num
	}
	pub fn pick<'a, T>(&mut self, v: &'a [T]) -> &'a T {
		&v[self.below(v.len() as u64) as usize]
	}
	pub fn bytes(&mut self, n: usize) -> Vec<u8> {
		let mut v = Vec::with_capacity(n);
		while v.len() < n {
			let x = self.next().to_le_bytes();
			let take = (n - v.len()).min(8);
			v.extend_from_slice(&x[..take]);
		}
		v
	}
}

pub fn read_ndjson(path: &str) -> Vec<Value> {
	let f = File::open(path).unwrap_or_else(|e| panic!("open {path}: {e}"));
	BufReader::new(f)
		.lines()
		.map(|l| l.unwrap())
		.filter(|l| !l.trim().is_empty())
		.map(|l| serde_json::from_str(&l).unwrap_or_else(|e| panic!("bad json line {l}: {e}")))
		.collect()
}

pub struct Out {
	w: BufWriter<File>,
	pub lines: u64,
}
impl Out {
	pub fn create(path: &str) -> Self {
		if let Some(p) = std::path::Path::new(path).parent() {
			std::fs::create_dir_all(p).ok();
		}
		Out { w: BufWriter::new(File::create(path).unwrap_or_else(|e| panic!("create {path}: {e}"))), lines: 0 }
	}
	pub fn emit(&mut self, v: &Value) {
		// TLC's JSON module cannot represent null: log it as the string "null"
		fn has_null(v: &Value) -> bool {
			match v {
				Value::Null => true,
				Value::Array(a) => a.iter().any(has_null),
				Value::Object(o) => o.values().any(has_null),
				_ => false,
			}
		}
		fn scrub(v: &mut Value) {
			match v {
				Value::Null => *v = Value::String("null".into()),
				Value::Array(a) => a.iter_mut().for_each(scrub),
				Value::Object(o) => o.values_mut().for_each(scrub),
				_ => {}
			}
		}
		if has_null(v) {
			let mut c = v.clone();
			scrub(&mut c);
			serde_json::to_writer(&mut self.w, &c).unwrap();
			self.w.write_all(b"\n").unwrap();
			self.lines += 1;
			return;
		}
		serde_json::to_writer(&mut self.w, v).unwrap();
		self.w.write_all(b"\n").unwrap();
		self.lines += 1;
	}
	pub fn finish(mut self) -> u64 {
		self.w.flush().unwrap();
		self.lines
	}
}

/// Run `f`, turning a panic into Err(message). The default panic hook is silenced by main().
pub fn catch<T>(f: impl FnOnce() -> T) -> Result<T, String> {
	match std::panic::catch_unwind(std::panic::AssertUnwindSafe(f)) {
		Ok(v) => Ok(v),
		Err(e) => Err(if let Some(s) = e.downcast_ref::<&str>() {
			s.to_string()
		} else if let Some(s) = e.downcast_ref::<String>() {
			s.clone()
		} else {
			"panic".to_string()
		}),
	}
}

pub fn tier_is_thorough() -> bool {
	std::env::var("VERIF_TIER").map(|t| t == "thorough").unwrap_or(false)
}
pub fn seed() -> u64 {
	std::env::var("VERIF_SEED").ok().and_then(|s| s.parse::<i64>().ok()).map(|v| v as u64).unwrap_or(1)
}

/// r2d2 (the SQLite pool of the MBTiles reader / writer) gives up after 30 s of waiting for a connection; on an overloaded
/// machine that is the machine's doing: such an attempt is repeated a few times before its error is taken at face value.
pub fn retry_env<T>(mut f: impl FnMut() -> anyhow::Result<T>) -> anyhow::Result<T> {
	for _ in 0..4 {
		match f() {
			Err(e) if format!("{e:#}").contains("timed out waiting for connection") => std::thread::sleep(std::time::Duration::from_secs(3)),
			r => return r,
		}
	}
	f()
}
