//! C08 / C09 (and the pipeline part of C02/C03): operation trees enumerated by TLC are rendered to VPL text,
//! built by the REAL PipelineFactory (in-memory sources injected through its reader callback, or real container
//! files), observed through the real PipelineReader and logged; Trace_Pipeline judges with Pipeline.tla.
use crate::container::*;
use crate::convert::geo_of;
use crate::indep;
use crate::mem::*;
use crate::util::*;
use futures::future::BoxFuture;
use serde_json::{json, Value};
use std::collections::{BTreeMap, HashMap};
use std::path::Path;
use std::sync::{Arc, Mutex};
use versatiles_container::*;
use versatiles_core::types::*;
use versatiles_pipeline::PipelineFactory;

pub fn render(t: &Value) -> String {
	match t["op"].as_str().unwrap() {
		"leaf" => format!("from_container filename=\"src{}\"", t["i"]),
		"debug" => format!("from_debug format={}{}", t["format"].as_str().unwrap(), if t["format"] == "png" { " fast=true" } else { "" }),
		"overlay" => format!("from_overlayed [ {} ]", t["srcs"].as_array().unwrap().iter().map(render).collect::<Vec<_>>().join(", ")),
		"merge" => format!("from_vectortiles_merged [ {} ]", t["srcs"].as_array().unwrap().iter().map(render).collect::<Vec<_>>().join(", ")),
		"zoom" => {
			let mut s = format!("{} | filter_zoom", render(&t["src"]));
			if t["min"].as_i64().unwrap() >= 0 {
				s += &format!(" min={}", t["min"]);
			}
			if t["max"].as_i64().unwrap() >= 0 {
				s += &format!(" max={}", t["max"]);
			}
			s
		}
		"bbox" => {
			let b = if let Some(raw) = t.get("raw") { raw.as_str().unwrap().to_string() } else {
				let g = geo_of(&t["geo"]);
				format!("[{},{},{},{}]", g.0, g.1, g.2, g.3)
			};
			format!("{} | filter_bbox bbox={}", render(&t["src"]), b)
		}
		o => panic!("op {o}"),
	}
}

pub struct PSource {
	pub mem: MemReader,
	pub tc: String,
	pub raw: HashMap<Vec<u8>, u32>, // raw payload -> id
	pub tiles: Vec<(u8, u32, u32, u32)>,
	pub src: Source,
}

pub fn psource_of(s: &Value, k: usize, allow_empty: bool) -> PSource {
	let tc = s["tc"].as_str().unwrap().to_string();
	// small payloads unless the case says otherwise (size 30..69 bytes, distinct content per id)
	let mut classes = s.get("classes").cloned().unwrap_or(json!({}));
	if classes.as_object().map(|o| o.is_empty()).unwrap_or(true) {
		let mut m = serde_json::Map::new();
		for t in s["tiles"].as_array().unwrap() {
			let p = t[3].as_u64().unwrap();
			// payload 103 (the third tile of the FIRST source) is the EMPTY payload: a tile of zero bytes is a tile
			if p == 103 && allow_empty {
				m.insert(p.to_string(), json!([0, 4]));
			} else {
				m.insert(p.to_string(), json!([30 + p % 40, 1]));
			}
		}
		classes = Value::Object(m);
	}
	let case = json!({"fmt":"mem","tf":"pbf","tc":tc,"tiles":s["tiles"],"classes": classes});
	let src = source_of(&case);
	let mut raw = HashMap::new();
	for t in &src.tiles {
		let (size, compr) = class_of(&case, t.3);
		raw.insert(payload_c(t.3, size, compr), t.3);
	}
	let mut mem = src.mem_reader();
	mem.name = format!("src{k}");
	// every source has its own TileJSON document (name, bounds, zoom range, a vector layer: one shared, one of its own)
	let doc = json!({"name": format!("source {k}"), "bounds": [-10.0 * k as f64, -5.0 * k as f64, 20.0 + k as f64, 30.0 + 2.0 * k as f64],
		"minzoom": k, "maxzoom": 10 - k, "attribution": if k % 2 == 1 { json!("odd") } else { json!(["a", "b"]) },
		"vector_layers": [{"id": "shared", "fields": {format!("f{k}"): "String", "common": "Number"}, "minzoom": k, "maxzoom": 9},
			{"id": format!("only{k}"), "fields": {}, "description": format!("layer of source {k}")}]});
	if let Ok(t) = versatiles_core::tilejson::TileJSON::try_from(doc.to_string().as_str()) {
		mem.tilejson = t;
	}
	PSource { mem, tc, raw, tiles: src.tiles.clone(), src }
}

fn pipe_case(rt: &tokio::runtime::Runtime, dir: &Path, case: &Value, n: usize) -> Value {
	// (real container files as sources: versatiles / PMTiles cannot hold a zero-byte tile, so no empty payload there)
	let allow_empty = case.get("files").and_then(|f| f.as_str()).is_none();
	let sources: Vec<PSource> = case["sources"].as_array().unwrap().iter().enumerate().map(|(k, s)| psource_of(s, k + 1, allow_empty)).collect();
	let tree = &case["tree"];
	let vpl = render(tree);
	let use_files = case.get("files").and_then(|f| f.as_str()).map(|s| s.to_string());
	// registry for the factory callback
	let reg: Arc<Mutex<HashMap<String, MemReader>>> = Arc::new(Mutex::new(HashMap::new()));
	let mut file_paths = vec![];
	for (k, s) in sources.iter().enumerate() {
		reg.lock().unwrap().insert(format!("src{}", k + 1), s.mem.clone());
		if let Some(fmt) = &use_files {
			// real container file as source (only where the format can hold pbf with this codec)
			let f = if fmt == "mbtiles" && s.tc != "gzip" { "versatiles" } else { fmt.as_str() };
			let p = file_path(dir, f, &format!("psrc{}", k + 1));
			remove_path(&p);
			// written by the independent encoder of that format (the real writers are the subject of C01, not of this check)
			let fsrc = Source { fmt: f.to_string(), tf: s.src.tf.clone(), tc: s.src.tc.clone(), tiles: s.src.tiles.clone(), blobs: s.src.blobs.clone(), by_bytes: s.src.by_bytes.clone() };
			let (ok, err) = produce(rt, &json!({"origin":"indep","choices":{"partial_blocks":1,"dot_prefix":1}}), &fsrc, &p);
			if !ok {
				// the harness's own encoder could not write the source file (disk full, bad scratch path): not a verdict
				eprintln!("TOOL: cannot write the source file {}: {err}", p.display());
				std::process::exit(6);
			}
			file_paths.push(p);
		}
	}
	let reg2 = reg.clone();
	let fp: Vec<String> = file_paths.iter().map(|p| p.to_str().unwrap().to_string()).collect();
	let callback = Box::new(move |filename: String| -> BoxFuture<'static, anyhow::Result<Box<dyn TilesReaderTrait>>> {
		let reg = reg2.clone();
		let fp = fp.clone();
		Box::pin(async move {
			let key = Path::new(&filename).file_name().unwrap().to_string_lossy().to_string();
			// sources do not open instantly in real life (files, HTTP): earlier-listed sources suspend LONGER here,
			// so any dependence on completion order of the opening futures shows
			let idx: usize = key.trim_start_matches("src").parse().unwrap_or(1);
			for _ in 0..(4usize.saturating_sub(idx)) {
				tokio::task::yield_now().await;
			}
			if !fp.is_empty() {
				let idx: usize = key.trim_start_matches("src").parse().unwrap_or(1);
				// (an SQLite pool timeout of an overloaded machine is retried: util::retry_env)
				for _ in 0..4 {
					match get_reader(&fp[idx - 1]).await {
						Err(e) if format!("{e:#}").contains("timed out waiting for connection") => tokio::time::sleep(std::time::Duration::from_secs(3)).await,
						r => return r,
					}
				}
				return get_reader(&fp[idx - 1]).await;
			}
			match reg.lock().unwrap().get(&key) {
				// lookups of earlier-listed sources also take longer to answer
				Some(m) => Ok(Box::new(crate::mem::SlowMemReader { inner: m.clone(), yields: 4usize.saturating_sub(idx) }) as Box<dyn TilesReaderTrait>),
				None => Err(anyhow::anyhow!("unknown source {key}")),
			}
		})
	});
	let src_json: Vec<Value> = sources
		.iter()
		.map(|s| json!({"tiles": s.tiles.iter().map(|t| json!([t.0,t.1,t.2,t.3])).collect::<Vec<_>>(), "tc": s.tc, "cov": pyramid_json(&s.mem.params.bbox_pyramid)}))
		.collect();
	let maxlevel = sources.iter().flat_map(|s| s.tiles.iter().map(|t| t.0)).max().unwrap_or(0).max(7);
	let is_debug = case.get("debug").and_then(|d| d.as_u64()) == Some(1);
	let mut ev = json!({"ev":"pipe","id":n,"tree":tree,"vpl":vpl,"invalid":case["invalid"],"sources":src_json,"maxlevel":maxlevel,
		"files": use_files.clone().unwrap_or_default(), "debug": is_debug as u8});
	let factory = PipelineFactory::default(dir, callback);
	let built = catch(|| rt.block_on(factory.operation_from_vpl(&vpl)));
	let empty = |ev: &mut Value| {
		ev["declared"] = json!({"tf":"","tc":""});
		for k in ["cov", "lookups", "streams", "expect", "child_cov", "kids"] {
			ev[k] = json!([]);
		}
	};
	// a root that cannot be built although every direct child can (each on its own) is the ROOT's failure (clause rel_build)
	let kids_built = |ev: &mut Value| {
		if tree["op"] == "leaf" || tree["op"] == "debug" || case["invalid"] == 1 {
			return;
		}
		let subtrees: Vec<&Value> = if tree["op"] == "overlay" { tree["srcs"].as_array().unwrap().iter().collect() } else { vec![&tree["src"]] };
		let v: Vec<u8> = subtrees.iter().map(|c| matches!(catch(|| rt.block_on(factory.operation_from_vpl(&render(c)))), Ok(Ok(_))) as u8).collect();
		ev["kids_built"] = json!(v);
	};
	let op = match built {
		Ok(Ok(op)) => op,
		Ok(Err(e)) => {
			ev["built"] = json!(0);
			ev["panic"] = json!(0);
			ev["err"] = json!(format!("{e:#}").chars().take(200).collect::<String>());
			empty(&mut ev);
			kids_built(&mut ev);
			return ev;
		}
		Err(p) => {
			ev["built"] = json!(0);
			ev["panic"] = json!(1);
			ev["err"] = json!(p.chars().take(200).collect::<String>());
			empty(&mut ev);
			kids_built(&mut ev);
			return ev;
		}
	};
	ev["built"] = json!(1);
	ev["panic"] = json!(0);
	// an overlay's coverage is stated relative to what its SOURCES advertise: build every listed source on its own and log
	// the coverage it advertises (observations)
	let mut child_cov: Vec<Value> = vec![];
	if tree["op"] == "overlay" {
		for child in tree["srcs"].as_array().unwrap() {
			let cv = render(child);
			match catch(|| rt.block_on(factory.operation_from_vpl(&cv))) {
				Ok(Ok(cop)) => child_cov.push(pyramid_json(&cop.get_parameters().bbox_pyramid)),
				_ => child_cov.push(json!("unbuildable")),
			}
		}
	}
	ev["child_cov"] = json!(child_cov);
	// the TileJSON document an operation hands on is a function of its direct children's documents and of its own coverage
	// (TileJson.tla via Pipeline.tla TjOk; beyond the listed properties): log the root's document, every direct child's
	// document (each child built on its own) and the three values update_from_pyramid takes from the root's coverage
	if !is_debug && tree["op"] != "leaf" {
		let subtrees: Vec<&Value> = if tree["op"] == "overlay" { tree["srcs"].as_array().unwrap().iter().collect() } else { vec![&tree["src"]] };
		let mut docs = vec![];
		for child in subtrees {
			let cv = render(child);
			match catch(|| rt.block_on(factory.operation_from_vpl(&cv))) {
				Ok(Ok(cop)) => docs.push(catch(|| crate::tj::project(cop.get_tilejson())).unwrap_or(json!({"bounds":[],"center":[],"vals":[],"layers":[],"unbuildable":1}))),
				_ => docs.push(json!({"bounds":[],"center":[],"vals":[],"layers":[],"unbuildable":1})),
			}
		}
		let p = &op.get_parameters().bbox_pyramid;
		let micro = |v: f64| (v * 1e6).round() as i64;
		ev["tj"] = json!({"root": catch(|| crate::tj::project(op.get_tilejson())).unwrap_or(json!({"bounds":[],"center":[],"vals":[],"layers":[]})), "kids": docs,
			"geo": p.get_geo_bbox().map(|b| vec![micro(b.0), micro(b.1), micro(b.2), micro(b.3)]).unwrap_or_default(),
			"zmin": p.get_zoom_min().map(|z| z as i64).unwrap_or(-1), "zmax": p.get_zoom_max().map(|z| z as i64).unwrap_or(-1)});
	}
	let parameters = op.get_parameters().clone();
	let declared = parameters.tile_compression.as_str().to_string();
	ev["declared"] = json!({"tf": parameters.tile_format.as_str(), "tc": declared});
	ev["cov"] = pyramid_json(&parameters.bbox_pyramid);
	let reader = PipelineReader { name: "pipe".into(), operation: op, parameters };
	// identity of delivered bytes: decode with the DECLARED codec, look the raw payload up in all sources
	let id_with = |declared: &str, bytes: &[u8]| -> i64 {
		match indep::decode(declared, bytes) {
			// generated tiles (from_debug) are identified by a hash of their bytes
			Ok(b) if is_debug => (crate::mem::h31(&b) | 0x4000_0000) as i64,
			Ok(b) => sources.iter().find_map(|s| s.raw.get(&b)).map(|p| *p as i64).unwrap_or(RES_UNKNOWN),
			Err(_) => RES_UNKNOWN,
		}
	};
	let id_of = |bytes: &[u8]| -> i64 { id_with(&declared, bytes) };
	let look_in = |reader: &PipelineReader, declared: &str, z: u8, x: u32, y: u32| -> i64 {
		let c = TileCoord3::new(x, y, z).unwrap();
		match catch(|| rt.block_on(reader.get_tile_data(&c))) {
			Ok(Ok(Some(b))) => id_with(declared, b.as_slice()),
			Ok(Ok(None)) => RES_NONE,
			Ok(Err(_)) => RES_ERR,
			Err(_) => RES_PANIC,
		}
	};
	let look = |z: u8, x: u32, y: u32| -> i64 { look_in(&reader, &declared, z, x, y) };
	// a tree that MIXES overlays and filters is additionally judged RELATIVE to what its direct children deliver (so that a
	// failure is attributed to the root operation only if the root itself is wrong): every direct child is built on its own
	// and asked the same lookups and streams
	let mixed = !is_debug && vpl.contains("from_overlayed") && (vpl.contains("filter_zoom") || vpl.contains("filter_bbox"));
	let mut kids: Vec<Option<(PipelineReader, String)>> = vec![];
	if mixed {
		let subtrees: Vec<&Value> = if tree["op"] == "overlay" { tree["srcs"].as_array().unwrap().iter().collect() } else { vec![&tree["src"]] };
		for child in subtrees {
			let cv = render(child);
			kids.push(match catch(|| rt.block_on(factory.operation_from_vpl(&cv))) {
				Ok(Ok(cop)) => {
					let cp = cop.get_parameters().clone();
					let d = cp.tile_compression.as_str().to_string();
					Some((PipelineReader { name: "kid".into(), operation: cop, parameters: cp }, d))
				}
				_ => None,
			});
		}
	}
	let mut kid_lookups: Vec<Vec<i64>> = kids.iter().map(|_| vec![]).collect();
	let mut kid_streams: Vec<Vec<Value>> = kids.iter().map(|_| vec![]).collect();
	// lookups: every coordinate any source has, its neighbours, and all coordinates of levels 0..2
	let mut coords: std::collections::BTreeSet<(u8, u32, u32)> = Default::default();
	for s in &sources {
		for t in &s.tiles {
			let max = ((1u64 << t.0) - 1) as u32;
			coords.insert((t.0, t.1, t.2));
			coords.insert((t.0, (t.1 as u64 + 1).min(max as u64) as u32, t.2));
			coords.insert((t.0, t.1, t.2.saturating_sub(1)));
		}
	}
	for z in 0..=(if is_debug { 3u8 } else { 2u8 }) {
		for y in 0..(1u32 << z) {
			for x in 0..(1u32 << z) {
				coords.insert((z, x, y));
			}
		}
	}
	if is_debug {
		coords.insert((12u8, 5u32, 7u32));
		// (level 31 only for zoom-only chains: the half-tile arithmetic of the geographic clause does not fit TLC's integers there)
		if !vpl.contains("filter_bbox") {
			coords.extend([(31u8, 0u32, 0u32), (31, u32::MAX >> 1, u32::MAX >> 1), (31, 1, 1)]);
		}
	}
	let mut looked: BTreeMap<(u8, u32, u32), i64> = BTreeMap::new();
	let mut lookups = vec![];
	for (z, x, y) in &coords {
		let r = look(*z, *x, *y);
		looked.insert((*z, *y, *x), r);
		lookups.push(json!([z, x, y, r]));
		for (k, kid) in kids.iter().enumerate() {
			kid_lookups[k].push(match kid {
				Some((kr, kd)) => look_in(kr, kd, *z, *x, *y),
				None => RES_ERR,
			});
		}
	}
	ev["lookups"] = json!(lookups);
	// streams: per level with tiles: full level (<= level 6), hull of all sources' tiles, half boxes, single tiles,
	// boxes beyond everything, empties
	let rb = crate::c15::raw_box;
	let mut levels: std::collections::BTreeSet<u8> = sources.iter().flat_map(|s| s.tiles.iter().map(|t| t.0)).collect();
	levels.insert(1);
	if is_debug {
		levels.extend([0u8, 2, 3]);
	}
	let mut streams = vec![];
	for z in levels {
		let max = ((1u64 << z) - 1) as u32;
		let mut boxes = vec![TileBBox::new_empty(z).unwrap(), rb(z, 1, 1, 0, 0)];
		if z <= 6 {
			boxes.push(TileBBox::new_full(z).unwrap());
		}
		if is_debug && z >= 2 {
			boxes.extend([rb(z, 1, 0, 2, 1), rb(z, 0, 1, 0, 3), rb(z, 3, 3, 3, 3), rb(z, 1, 1, 3, 2)]);
		}
		let all: Vec<&(u8, u32, u32, u32)> = sources.iter().flat_map(|s| s.tiles.iter()).filter(|t| t.0 == z).collect();
		if !all.is_empty() {
			let (x0, x1) = (all.iter().map(|t| t.1).min().unwrap(), all.iter().map(|t| t.1).max().unwrap());
			let (y0, y1) = (all.iter().map(|t| t.2).min().unwrap(), all.iter().map(|t| t.2).max().unwrap());
			// (boxes spanning a sizeable part of a deep level are not streamed: 2^60 coordinates)
			if (x1 - x0) as u64 * (y1 - y0) as u64 <= 1 << 16 {
				let mid = ((x0 as u64 + x1 as u64) / 2) as u32;
				boxes.push(rb(z, x0, y0, x1, y1));
				boxes.push(rb(z, x0.saturating_sub(1), y0.saturating_sub(1), (x1 as u64 + 1).min(max as u64) as u32, (y1 as u64 + 1).min(max as u64) as u32));
				boxes.push(rb(z, x0, y0, mid, y1));
				boxes.push(rb(z, (mid as u64 + 1).min(max as u64) as u32, y0, x1.max((mid as u64 + 1).min(max as u64) as u32), y1));
			}
			for t in all.iter().take(3) {
				boxes.push(rb(z, t.1, t.2, t.1, t.2));
				// a TALL thin box and a WIDE flat one (557 rows / columns) with the tile 256 rows / columns below the upper / left edge:
				// an operation that cuts large boxes into stripes or tiles of 256 meets its seam exactly on the tile
				if z >= 9 {
					boxes.push(rb(z, t.1, t.2.saturating_sub(256), t.1, (t.2 as u64 + 300).min(max as u64) as u32));
					boxes.push(rb(z, t.1.saturating_sub(256), t.2, (t.1 as u64 + 300).min(max as u64) as u32, t.2));
				}
			}
			if x1 < max {
				boxes.push(rb(z, max, max, max, max));
			}
		}
		for b in boxes {
			let sres = {
				let bb = b.clone();
				let r = catch(|| rt.block_on(async { tokio::time::timeout(std::time::Duration::from_secs(30), async { reader.get_bbox_tile_stream(bb).await.collect().await }).await }));
				match r {
					Ok(Ok(items)) => {
						let mut v: Vec<(u8, u32, u32, i64)> = items.iter().map(|(c, blob)| (c.z, c.y, c.x, id_of(blob.as_slice()))).collect();
						v.sort();
						json!({"box": crate::c15::box_json(&b), "status":"ok", "res": v.iter().map(|t| json!([t.0, t.2, t.1, t.3])).collect::<Vec<_>>()})
					}
					Ok(Err(_)) => json!({"box": crate::c15::box_json(&b), "status":"hang", "res": []}),
					Err(p) => json!({"box": crate::c15::box_json(&b), "status":"panic", "res": [], "panic": p.chars().take(160).collect::<String>()}),
				}
			};
			for (k, kid) in kids.iter().enumerate() {
				kid_streams[k].push(match kid {
					Some((kr, kd)) => {
						let bb = b.clone();
						match catch(|| rt.block_on(async { tokio::time::timeout(std::time::Duration::from_secs(30), async { kr.get_bbox_tile_stream(bb).await.collect().await }).await })) {
							Ok(Ok(items)) => {
								let mut v: Vec<(u8, u32, u32, i64)> = items.iter().map(|(c, blob)| (c.z, c.y, c.x, id_with(kd, blob.as_slice()))).collect();
								v.sort();
								json!({"status":"ok", "res": v.iter().map(|t| json!([t.0, t.2, t.1, t.3])).collect::<Vec<_>>()})
							}
							_ => json!({"status":"bad", "res": []}),
						}
					}
					None => json!({"status":"bad", "res": []}),
				});
			}
			if !b.is_empty() && b.count_tiles() <= 256 {
				for c in b.iter_coords() {
					looked.entry((c.z, c.y, c.x)).or_insert_with(|| look(c.z, c.x, c.y));
				}
			}
			// every coordinate the stream DELIVERED is looked up as well
			for it in sres["res"].as_array().unwrap() {
				let (z, x, y) = (it[0].as_u64().unwrap() as u8, it[1].as_u64().unwrap() as u32, it[2].as_u64().unwrap() as u32);
				looked.entry((z, y, x)).or_insert_with(|| look(z, x, y));
			}
			streams.push(sres);
		}
	}
	ev["streams"] = json!(streams);
	ev["kids"] = json!(kids.iter().enumerate().map(|(k, kid)| json!({"built": kid.is_some() as u8, "lookups": kid_lookups[k], "streams": kid_streams[k]})).collect::<Vec<_>>());
	ev["expect"] = json!(looked.iter().filter(|(_, r)| **r > 0 || **r == RES_UNKNOWN).map(|((z, y, x), r)| json!([z, x, y, r])).collect::<Vec<_>>());
	for p in file_paths {
		remove_path(&p);
	}
	ev
}

pub fn replay(input: &str, output: &str, dir: &str) -> Value {
	let cases = read_ndjson(input);
	let mut out = Out::create(output);
	let workers = 10usize.min(cases.len().max(1));
	let results: Vec<Vec<(usize, Value)>> = std::thread::scope(|sc| {
		let cases = &cases;
		let hs: Vec<_> = (0..workers)
			.map(|w| {
				sc.spawn(move || {
					let rt = tokio::runtime::Builder::new_multi_thread().worker_threads(3).enable_all().build().unwrap();
					let d = Path::new(dir).join(format!("pw{w}"));
					std::fs::create_dir_all(&d).unwrap();
					let mut v = vec![];
					let mut i = w;
					while i < cases.len() {
						v.push((i, pipe_case(&rt, &d, &cases[i], i)));
						i += workers;
					}
					v
				})
			})
			.collect();
		hs.into_iter().map(|h| h.join().unwrap()).collect()
	});
	let mut slots: Vec<Option<Value>> = vec![None; cases.len()];
	for r in results {
		for (i, e) in r {
			slots[i] = Some(e);
		}
	}
	for s in slots {
		out.emit(&s.unwrap());
	}
	let lines = out.finish();
	json!({"cases": cases.len(), "events": lines})
}
