//! C17 — JSON stringify/parse round trips (values enumerated by TLC, spec/Json17.tla) and TileJSON documents
//! written into containers and read back. The harness projects values/texts to tagged trees; Trace_C17 judges.
use crate::container::{file_path, remove_path};
use crate::mem::*;
use crate::util::*;
use serde_json::{json, Value};
use std::path::Path;
use versatiles_container::*;
use versatiles_core::json::*;
use versatiles_core::tilejson::TileJSON;
use versatiles_core::types::*;

fn cps_to_string(v: &Value) -> String {
	v.as_array().unwrap().iter().map(|c| char::from_u32(c.as_u64().unwrap() as u32).unwrap()).collect()
}
fn string_to_cps(s: &str) -> Value {
	json!(s.chars().map(|c| c as u32).collect::<Vec<_>>())
}
fn canon_num(f: f64) -> String {
	// (-0 and 0 are the same number)
	format!("{:e}", if f == 0.0 { 0.0 } else { f })
}

fn build(v: &Value) -> JsonValue {
	match v["t"].as_str().unwrap() {
		"s" => JsonValue::String(cps_to_string(&v["v"])),
		"n" => JsonValue::Number(v["v"].as_str().unwrap().parse::<f64>().unwrap()),
		"b" => JsonValue::Boolean(v["v"] == 1),
		"z" => JsonValue::Null,
		"a" => JsonValue::Array(JsonArray(v["v"].as_array().unwrap().iter().map(build).collect())),
		"o" => JsonValue::Object(JsonObject(v["v"].as_array().unwrap().iter().map(|e| (cps_to_string(&e[0]), build(&e[1]))).collect())),
		t => panic!("tag {t}"),
	}
}
/// canonical form of the case's own value (numbers canonicalised the same way as observed ones)
fn canon_case(v: &Value) -> Value {
	match v["t"].as_str().unwrap() {
		"n" => json!({"t":"n","v":canon_num(v["v"].as_str().unwrap().parse::<f64>().unwrap())}),
		"a" => json!({"t":"a","v":v["v"].as_array().unwrap().iter().map(canon_case).collect::<Vec<_>>()}),
		"o" => {
			let mut es: Vec<(String, Value)> = v["v"].as_array().unwrap().iter().map(|e| (cps_to_string(&e[0]), canon_case(&e[1]))).collect();
			es.sort_by(|a, b| a.0.cmp(&b.0));
			json!({"t":"o","v":es.iter().map(|(k, x)| json!([string_to_cps(k), x])).collect::<Vec<_>>()})
		}
		_ => v.clone(),
	}
}
fn tree_real(v: &JsonValue) -> Value {
	match v {
		JsonValue::String(s) => json!({"t":"s","v":string_to_cps(s)}),
		JsonValue::Number(n) => json!({"t":"n","v":canon_num(*n)}),
		JsonValue::Boolean(b) => json!({"t":"b","v":*b as u8}),
		JsonValue::Null => json!({"t":"z","v":0}),
		JsonValue::Array(a) => json!({"t":"a","v":a.0.iter().map(tree_real).collect::<Vec<_>>()}),
		JsonValue::Object(o) => json!({"t":"o","v":o.0.iter().map(|(k, x)| json!([string_to_cps(k), tree_real(x)])).collect::<Vec<_>>()}),
	}
}
fn tree_serde(v: &Value) -> Value {
	match v {
		Value::String(s) => json!({"t":"s","v":string_to_cps(s)}),
		Value::Number(n) => json!({"t":"n","v":canon_num(n.as_f64().unwrap())}),
		Value::Bool(b) => json!({"t":"b","v":*b as u8}),
		Value::Null => json!({"t":"z","v":0}),
		Value::Array(a) => json!({"t":"a","v":a.iter().map(tree_serde).collect::<Vec<_>>()}),
		Value::Object(o) => {
			let mut es: Vec<(&String, &Value)> = o.iter().collect();
			es.sort_by(|a, b| a.0.cmp(b.0));
			json!({"t":"o","v":es.iter().map(|(k, x)| json!([string_to_cps(k), tree_serde(x)])).collect::<Vec<_>>()})
		}
	}
}

fn json_case(case: &Value, n: usize) -> Value {
	let value = canon_case(&case["value"]);
	let jv = build(&case["value"]);
	let mut ev = json!({"ev":"json","id":n,"value":value});
	let text = match catch(|| jv.stringify()) {
		Ok(t) => t,
		Err(_) => {
			ev["text_ok"] = json!(0);
			ev["text"] = json!([]);
			ev["parsed"] = json!({"ok":0,"tree":{"t":"z","v":0}});
			ev["serde"] = json!({"ok":0,"tree":{"t":"z","v":0}});
			return ev;
		}
	};
	ev["text_ok"] = json!(1);
	ev["text"] = string_to_cps(&text);
	ev["parsed"] = match catch(|| parse_json_str(&text)) {
		Ok(Ok(v)) => json!({"ok":1,"tree":tree_real(&v)}),
		_ => json!({"ok":0,"tree":{"t":"z","v":0}}),
	};
	ev["serde"] = match serde_json::from_str::<Value>(&text) {
		Ok(v) => json!({"ok":1,"tree":tree_serde(&v)}),
		Err(e) => json!({"ok":0,"tree":{"t":"z","v":0},"err":e.to_string()}),
	};
	ev
}

fn tilejson_case(rt: &tokio::runtime::Runtime, dir: &Path, case: &Value, n: usize) -> Value {
	tilejson_case_with(rt, dir, case, n, None)
}

/// `tiles`: the tile set to store next to the document (default: one small tile per level of the case's coverage)
fn tilejson_case_with(rt: &tokio::runtime::Runtime, dir: &Path, case: &Value, n: usize, tiles_override: Option<MemReader>) -> Value {
	let d = &case["doc"];
	let fmt = case["fmt"].as_str().unwrap();
	let (cmin, cmax) = (case["cov"][0].as_u64().unwrap() as u8, case["cov"][1].as_u64().unwrap() as u8);
	let name = cps_to_string(&d["name"]);
	// the document, built key by key (expected tree built independently of the code under test)
	let mut tj = TileJSON::default();
	let mut rest: Vec<(String, Value)> = vec![("tilejson".into(), json!({"t":"s","v":string_to_cps("3.0.0")}))];
	tj.set_string("name", &name).unwrap();
	rest.push(("name".into(), json!({"t":"s","v":string_to_cps(&name)})));
	tj.set_string("attribution", "\u{a9} \"OSM\" \\ contributors\n").unwrap();
	rest.push(("attribution".into(), json!({"t":"s","v":string_to_cps("\u{a9} \"OSM\" \\ contributors\n")})));
	let byte = d.get("byte").and_then(|b| b.as_u64()).unwrap_or(7) as u8;
	// (a setter that refuses a legal byte leaves the key out: the read-back then misses it)
	let _ = tj.set_byte("fillzoom", byte);
	rest.push(("fillzoom".into(), json!({"t":"n","v":canon_num(byte as f64)})));
	let (dmin, dmax) = (d["minzoom"].as_i64().unwrap(), d["maxzoom"].as_i64().unwrap());
	if dmin >= 0 {
		tj.set_byte("minzoom", dmin as u8).unwrap();
	}
	if dmax >= 0 {
		tj.set_byte("maxzoom", dmax as u8).unwrap();
	}
	if d["list"] == 1 {
		tj.set_list("data", vec!["x".into(), "y\"z".into()]).unwrap();
		rest.push(("data".into(), json!({"t":"a","v":[{"t":"s","v":string_to_cps("x")},{"t":"s","v":string_to_cps("y\"z")}]})));
	}
	// 1: contains the stored tiles (south-west corner tiles); 2 / 3: a point / a meridian line INSIDE the south-west corner tile
	// of every stored level (levels <= 9): boxes of zero area are boxes
	let doc_bounds = match d["bounds"].as_u64().unwrap_or(0) {
		2 => [-179.99, -85.04, -179.99, -85.04],
		3 => [-179.99, -85.045, -179.99, -85.04],
		_ => [-180.0, -85.5, 170.0, 80.0],
	};
	if d["bounds"].as_u64().unwrap_or(0) >= 1 {
		tj.bounds = Some(GeoBBox(doc_bounds[0], doc_bounds[1], doc_bounds[2], doc_bounds[3]));
	}
	if d["center"] == 1 {
		tj.center = Some(GeoCenter(1.0, 2.0, 3));
		rest.push(("center".into(), json!({"t":"a","v":[{"t":"n","v":canon_num(1.0)},{"t":"n","v":canon_num(2.0)},{"t":"n","v":canon_num(3.0)}]})));
	}
	if d["vl"] == 1 {
		let vl: Value = json!([{"id":"roads","fields":{"kind":"String","ref":"Number"},"minzoom":0,"maxzoom":9,"description":"r\u{e9}seau"}]);
		tj.set_vector_layers(&parse_json_str(&vl.to_string()).unwrap()).unwrap();
		rest.push(("vector_layers".into(), tree_serde(&vl)));
	}
	rest.sort_by(|a, b| a.0.cmp(&b.0));
	let doc_rest = json!({"t":"o","v":rest.iter().map(|(k, v)| json!([string_to_cps(k), v])).collect::<Vec<_>>()});
	let tiles: Vec<(TileCoord3, Blob)> = (cmin..=cmax).map(|z| (TileCoord3::new(0, (1u32 << z) - 1, z).unwrap(), Blob::from(crate::indep::gzip(&payload(z as u32 + 1, 40, true))))).collect();
	let mut mem = match tiles_override {
		Some(m) => m,
		None => MemReader::new("tj", TileFormat::PBF, TileCompression::Gzip, tiles),
	};
	mem.tilejson = tj;
	let path = file_path(dir, fmt, "tj");
	remove_path(&path);
	if fmt == "directory" {
		std::fs::create_dir_all(&path).unwrap();
	}
	let p = path.to_str().unwrap().to_string();
	let mut ev = json!({"ev":"tilejson","id":n,"fmt":fmt,"doc":d,"cov_minzoom":cmin,"cov_maxzoom":cmax,"doc_rest":doc_rest,
		"doc_minzoom":dmin,"doc_maxzoom":dmax,"ok":0,"out_rest":{"t":"z","v":0},"out_minzoom":-1,"out_maxzoom":-1,"doc_bounds_e6":[],"out_bounds_e6":[],"out_has_bounds":0});
	let w = catch(|| rt.block_on(write_to_filename(&mut mem, &p)));
	if matches!(w, Ok(Ok(()))) {
		if let Ok(Ok(reader)) = catch(|| rt.block_on(get_reader(&p))) {
			let text = reader.get_tilejson().as_string();
			if let Ok(Value::Object(o)) = serde_json::from_str::<Value>(&text) {
				ev["ok"] = json!(1);
				ev["out_minzoom"] = json!(o.get("minzoom").and_then(|v| v.as_i64()).unwrap_or(-1));
				ev["out_maxzoom"] = json!(o.get("maxzoom").and_then(|v| v.as_i64()).unwrap_or(-1));
				let ob: Option<Vec<f64>> = o.get("bounds").and_then(|b| b.as_array()).map(|a| a.iter().map(|x| x.as_f64().unwrap_or(f64::NAN)).collect());
				// observations: the document's bounds (if it had any) and the bounds read back, in millionths of a degree
				let e6 = |b: &[f64]| b.iter().map(|v| (v * 1e6).round().clamp(-2e9, 2e9) as i64).collect::<Vec<_>>();
				ev["doc_bounds_e6"] = if d["bounds"].as_u64().unwrap_or(0) >= 1 { json!(e6(&doc_bounds)) } else { json!([]) };
				ev["out_bounds_e6"] = match &ob { Some(b) => json!(e6(b)), None => json!([]) };
				ev["out_has_bounds"] = json!(ob.is_some() as u8);
				let mut rest_out = o.clone();
				for k in ["minzoom", "maxzoom", "bounds"] {
					rest_out.remove(k);
				}
				ev["out_rest"] = tree_serde(&Value::Object(rest_out));
				ev["out_text"] = json!(text);
			}
		}
	}
	remove_path(&path);
	ev
}

pub fn replay(input: &str, output: &str, dir: &str) -> Value {
	let cases = read_ndjson(input);
	let mut out = Out::create(output);
	let rt = tokio::runtime::Builder::new_multi_thread().worker_threads(3).enable_all().build().unwrap();
	let d = Path::new(dir);
	std::fs::create_dir_all(d).unwrap();
	for (n, case) in cases.iter().enumerate() {
		let e = if case["k"] == "json" {
			json_case(case, n)
		} else if let Some(k) = case.get("root_limit_tiles").and_then(|k| k.as_u64()) {
			// (a replayed root-limit case: the document next to the first k tiles of the boundary family)
			let src = crate::container::source_of(&crate::container::pmtiles_boundary_case(seed(), k as usize));
			let mut e = tilejson_case_with(&rt, d, case, n, Some(src.mem_reader()));
			e["tiles_stored"] = json!(src.tiles.len());
			e
		} else {
			tilejson_case(&rt, d, case, n)
		};
		out.emit(&e);
	}
	// directed: the document next to tile sets that take the PMTiles writer to its root-directory limit (the metadata block
	// directly follows the root directory in the file): the window of tile counts around the root / leaf switch, found by probing
	// the real writer (container::pmtiles_boundary_cases), each with the first PMTiles document of the enumerated cases
	let mut boundary = 0u64;
	if let Some(tmpl) = cases.iter().find(|c| c["k"] == "tilejson" && c["fmt"] == "pmtiles" && c["doc"]["vl"] == 1) {
		for (i, bc) in crate::container::pmtiles_boundary_cases(seed(), tier_is_thorough()).iter().enumerate() {
			let src = crate::container::source_of(bc);
			let mut c = tmpl.clone();
			c["cov"] = json!([8, 8]);
			let mut e = tilejson_case_with(&rt, d, &c, cases.len() + i, Some(src.mem_reader()));
			e["tiles_stored"] = json!(src.tiles.len());
			out.emit(&e);
			boundary += 1;
		}
	}
	let lines = out.finish();
	json!({"cases": cases.len(), "events": lines, "pmtiles_root_limit_cases": boundary})
}
