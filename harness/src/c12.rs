//! C12 — interrupted writes. The real writers run against a recording DataWriter; every prefix of the
//! recorded operation sequence and byte cuts inside operations are materialised and opened with the real
//! readers. Trace_C12 (spec/Crash.tla) judges every cut and evaluates the abstract crash model on the
//! recorded sequence.
use crate::container::*;
use crate::indep;
use crate::util::*;
use anyhow::Result;
use serde_json::{json, Value};
use versatiles_container::*;
use versatiles_core::io::*;
use versatiles_core::types::*;

#[derive(Clone)]
struct Op {
	kind: &'static str, // append | write_start | set_position
	pos: u64,
	data: Vec<u8>,
}
struct RecWriter {
	buf: Vec<u8>,
	pos: u64,
	ops: Vec<Op>,
}
impl RecWriter {
	fn put(&mut self, at: u64, d: &[u8]) {
		let end = at as usize + d.len();
		if self.buf.len() < end {
			self.buf.resize(end, 0);
		}
		self.buf[at as usize..end].copy_from_slice(d);
	}
}
impl DataWriterTrait for RecWriter {
	fn append(&mut self, blob: &Blob) -> Result<ByteRange> {
		let at = self.pos;
		self.put(at, blob.as_slice());
		self.ops.push(Op { kind: "append", pos: at, data: blob.as_slice().to_vec() });
		self.pos += blob.len();
		Ok(ByteRange::new(at, blob.len()))
	}
	fn write_start(&mut self, blob: &Blob) -> Result<()> {
		self.put(0, blob.as_slice());
		self.ops.push(Op { kind: "write_start", pos: 0, data: blob.as_slice().to_vec() });
		Ok(())
	}
	fn get_position(&mut self) -> Result<u64> {
		Ok(self.pos)
	}
	fn set_position(&mut self, position: u64) -> Result<()> {
		self.ops.push(Op { kind: "set_position", pos: position, data: vec![] });
		self.pos = position;
		Ok(())
	}
}

/// forwards the first `remaining` operations to the real file writer, then only pretends (the crash): positions keep
/// being simulated so that the writer under test runs to its end
struct StopAfter {
	inner: DataWriterFile,
	remaining: usize,
	pos: u64,
}
impl StopAfter {
	fn live(&mut self) -> bool {
		if self.remaining > 0 {
			self.remaining -= 1;
			true
		} else {
			false
		}
	}
}
impl DataWriterTrait for StopAfter {
	fn append(&mut self, blob: &Blob) -> Result<ByteRange> {
		let at = self.pos;
		if self.live() {
			self.inner.append(blob)?;
		}
		self.pos += blob.len();
		Ok(ByteRange::new(at, blob.len()))
	}
	fn write_start(&mut self, blob: &Blob) -> Result<()> {
		if self.live() {
			self.inner.write_start(blob)?;
		}
		Ok(())
	}
	fn get_position(&mut self) -> Result<u64> {
		Ok(self.pos)
	}
	fn set_position(&mut self, position: u64) -> Result<()> {
		if self.live() {
			self.inner.set_position(position)?;
		}
		self.pos = position;
		Ok(())
	}
}

/// abstract region an operation writes, derived from the FINAL file's layout (independent decoder)
fn label(fmt: &str, op: &Op, layout: &Value) -> String {
	let at = |k: &str| layout[k][0].as_u64().unwrap_or(u64::MAX);
	if op.kind == "set_position" {
		return "seek".into();
	}
	if fmt == "versatiles" {
		if op.kind == "write_start" {
			return "header_final".into();
		}
		if op.pos == 0 {
			return "header_initial".into();
		}
		if op.pos == at("meta") && layout["meta"][1].as_u64().unwrap_or(0) > 0 {
			return "meta".into();
		}
		if op.pos == at("block_index") {
			return "block_index".into();
		}
		for (i, b) in layout["blocks"].as_array().unwrap().iter().enumerate() {
			let (off, tlen) = (b["off"].as_u64().unwrap(), b["tlen"].as_u64().unwrap());
			if op.pos == off + tlen {
				return format!("tile_index:{i}");
			}
			if op.pos >= off && op.pos < off + tlen {
				return format!("tile:{i}");
			}
		}
		return "meta".into();
	}
	// pmtiles
	if op.kind == "write_start" {
		return "header_final".into();
	}
	if op.pos == at("root") {
		return "root".into();
	}
	if op.pos == at("meta") {
		return "meta".into();
	}
	if op.pos == at("leaves") && layout["leaves"][1].as_u64().unwrap_or(0) > 0 {
		return "leaves".into();
	}
	let (d0, d1) = (at("data"), layout["data"][1].as_u64().unwrap_or(0));
	if op.pos >= d0 && op.pos < d0 + d1.max(1) {
		return "tile".into();
	}
	"other".into()
}

fn image(ops: &[Op], k: usize, b: usize) -> Vec<u8> {
	// operations 0..k applied completely, operation k applied for its first b bytes
	let mut buf: Vec<u8> = vec![];
	let mut put = |at: u64, d: &[u8]| {
		if d.is_empty() {
			return;
		}
		let end = at as usize + d.len();
		if buf.len() < end {
			buf.resize(end, 0);
		}
		buf[at as usize..end].copy_from_slice(d);
	};
	for op in &ops[..k] {
		put(op.pos, &op.data);
	}
	if k < ops.len() && b > 0 {
		put(ops[k].pos, &ops[k].data[..b]);
	}
	buf
}

fn open_image(rt: &tokio::runtime::Runtime, fmt: &str, bytes: Vec<u8>) -> Result<Result<Box<dyn TilesReaderTrait>, String>, String> {
	catch(|| {
		rt.block_on(async {
			let r: DataReader = Box::new(DataReaderBlob::from(bytes));
			if fmt == "versatiles" {
				VersaTilesReader::open_reader(r).await.map(|x| x.boxed()).map_err(|e| format!("{e:#}"))
			} else {
				PMTilesReader::open_reader(r).await.map(|x| x.boxed()).map_err(|e| format!("{e:#}"))
			}
		})
	})
}

fn cuts_of(op: &Op, thorough: bool) -> Vec<usize> {
	let n = op.data.len();
	if n <= 1 {
		return vec![];
	}
	if n <= 140 || (thorough && n <= 600) {
		return (1..n).collect();
	}
	let mut v = vec![1, 2, n / 3, n / 2, n - 2, n - 1];
	v.sort();
	v.dedup();
	v
}

pub fn run(input: &str, output: &str, thorough: bool) -> Value {
	let cases = read_ndjson(input);
	let mut out = Out::create(output);
	let rt = tokio::runtime::Builder::new_multi_thread().worker_threads(4).enable_all().build().unwrap();
	let (mut ncuts, mut nviews, mut nfail, mut npanic, mut nover) = (0u64, 0u64, 0u64, 0u64, 0u64);
	let scratch = std::path::Path::new("/dev/shm").join(format!("verif_c12_{}", std::process::id()));
	std::fs::create_dir_all(&scratch).unwrap();
	let mut prev_final: std::collections::HashMap<String, Vec<u8>> = Default::default();
	for (ci, case) in cases.iter().enumerate() {
		let src = source_of(case);
		let mut w = RecWriter { buf: vec![], pos: 0, ops: vec![] };
		let mut mem = src.mem_reader();
		let res = catch(|| {
			rt.block_on(async {
				if src.fmt == "versatiles" {
					VersaTilesWriter::write_to_writer(&mut mem, &mut w).await
				} else {
					PMTilesWriter::write_to_writer(&mut mem, &mut w).await
				}
			})
		});
		let write_ok = matches!(res, Ok(Ok(())));
		let dec = if src.fmt == "versatiles" { indep::decode_versatiles(&w.buf) } else { indep::decode_pmtiles(&w.buf) };
		let ops_json: Vec<Value> = w.ops.iter().map(|o| json!({"kind":o.kind,"label":label(&src.fmt, o, &dec.layout),"pos":o.pos,"len":o.data.len()})).collect();
		out.emit(&json!({"ev":"case","id":ci,"fmt":src.fmt,"tf":src.tf,"tc":src.tc,"tiles":src.tiles_json(),"write_ok":write_ok as u8,
			"final_decodes": dec.ok as u8, "ops":ops_json}));
		if !write_ok {
			continue;
		}
		// what the real reader makes of an on-disk image: fails to open / panics, or a view (lookups + streams recorded)
		let observe = |img: Vec<u8>| -> (&'static str, Value, Value, String, String, String) {
			match open_image(&rt, &src.fmt, img) {
					Err(p) => ("panic", json!([]), json!([]), String::new(), String::new(), p),
					Ok(Err(e)) => ("fail", json!([]), json!([]), String::new(), String::new(), e),
					Ok(Ok(reader)) => {
						let p = reader.get_parameters().clone();
						let lk: Vec<Value> = src.tiles.iter().map(|t| json!([t.0, t.1, t.2, lookup(&rt, reader.as_ref(), &src, t.0, t.1, t.2)])).collect();
						// stream over the source's level boxes (what a conversion of this file would read)
						let mut st: Vec<(u8, u32, u32, i64)> = vec![];
						let mut status = "ok";
						let mut py = TileBBoxPyramid::new_empty();
						for t in &src.tiles {
							py.include_coord(&TileCoord3::new(t.1, t.2, t.0).unwrap());
						}
						for bb in py.iter_levels() {
							let s = stream(&rt, reader.as_ref(), &src, bb);
							if s["status"] != "ok" {
								status = "broken";
							}
							for it in s["res"].as_array().unwrap() {
								st.push((it[0].as_u64().unwrap() as u8, it[2].as_u64().unwrap() as u32, it[1].as_u64().unwrap() as u32, it[3].as_i64().unwrap()));
							}
						}
						st.sort();
						let sj = json!({"status":status,"res":st.iter().map(|t| json!([t.0,t.2,t.1,t.3])).collect::<Vec<_>>()});
						("view", json!(lk), sj, p.tile_format.as_str().to_string(), p.tile_compression.as_str().to_string(), String::new())
					}
				}
		};
		let n = w.ops.len();
		// a case may ask for the cuts of its LAST m operations only (plus every 16th earlier operation boundary): large directed
		// tile sets whose point is the end of the sequence (index, final header)
		let only_last = case.get("only_last_ops").and_then(|m| m.as_u64()).map(|m| m as usize);
		for k in 0..=n {
			let mut bs = vec![0usize];
			if let Some(m) = only_last {
				if k + m < n {
					if k % 16 != 0 {
						continue;
					}
				} else if k < n {
					bs.extend(cuts_of(&w.ops[k], thorough));
				}
			} else if k < n {
				bs.extend(cuts_of(&w.ops[k], thorough));
			}
			for b in bs {
				let img = image(&w.ops, k, b);
				let len = img.len();
				let (outcome, lookups, stream_res, tf, tc, err) = observe(img);
				match outcome {
					"view" => nviews += 1,
					"fail" => nfail += 1,
					_ => npanic += 1,
				}
				ncuts += 1;
				out.emit(&json!({"ev":"cut","case":ci,"k":k,"b":b,"image_len":len,"outcome":outcome,"lookups":lookups,"stream":stream_res,
					"tf":tf,"tc":tc,"err":err.chars().take(120).collect::<String>()}));
			}
		}
		// the same prefixes once more through the REAL file writer, on a path that already holds a complete container of
		// another tile set (a conversion started over an existing file and interrupted): every 8th case
		if let Some(old) = prev_final.get(&src.fmt) {
			if ci % 8 == 0 && only_last.is_none() {
				let path = scratch.join(format!("over.{}", src.fmt));
				for k in 0..=n {
					std::fs::write(&path, old).unwrap();
					let r = catch(|| {
						let inner = DataWriterFile::from_path(&path)?;
						let mut sw = StopAfter { inner, remaining: k, pos: 0 };
						let mut mem2 = src.mem_reader();
						rt.block_on(async {
							if src.fmt == "versatiles" {
								VersaTilesWriter::write_to_writer(&mut mem2, &mut sw).await
							} else {
								PMTilesWriter::write_to_writer(&mut mem2, &mut sw).await
							}
						})
					});
					let _ = r;
					let img = std::fs::read(&path).unwrap_or_default();
					let len = img.len();
					let (outcome, lookups, stream_res, tf, tc, err) = observe(img);
					match outcome {
						"view" => nviews += 1,
						"fail" => nfail += 1,
						_ => npanic += 1,
					}
					ncuts += 1;
					nover += 1;
					out.emit(&json!({"ev":"cut","case":ci,"k":k,"b":0,"over":1,"image_len":len,"outcome":outcome,"lookups":lookups,"stream":stream_res,
						"tf":tf,"tc":tc,"err":err.chars().take(120).collect::<String>()}));
				}
				let _ = std::fs::remove_file(&path);
			}
		}
		prev_final.insert(src.fmt.clone(), w.buf.clone());
	}
	let _ = std::fs::remove_dir_all(&scratch);
	let lines = out.finish();
	json!({"cases": cases.len(), "events": lines, "cuts": ncuts, "views": nviews, "fails": nfail, "panics": npanic, "overwrite_cuts": nover})
}
