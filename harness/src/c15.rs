//! C15 — TileBBox / TileBBoxPyramid / TransformCoord / from_geo.
//! Executes TLC-enumerated cases (replay) and seeded random large-zoom cases (record) on the
//! real types and logs raw results; spec/trace/Trace_C15.tla judges them by denotation.
use crate::util::*;
use serde_json::{json, Value};
use versatiles_core::types::{GeoBBox, TileBBox, TileBBoxPyramid, TileCoord2, TileCoord3};
use versatiles_core::utils::TransformCoord;

const I31: u64 = 2147483647;

pub fn raw_box(l: u8, x0: u32, y0: u32, x1: u32, y1: u32) -> TileBBox {
	let max = if l >= 32 { u32::MAX } else { ((1u64 << l) - 1) as u32 };
	TileBBox { level: l, x_min: x0, y_min: y0, x_max: x1, y_max: y1, max }
}
fn box_from(v: &Value) -> TileBBox {
	let a: Vec<u64> = v.as_array().unwrap().iter().map(|x| x.as_u64().unwrap()).collect();
	raw_box(a[0] as u8, a[1] as u32, a[2] as u32, a[3] as u32, a[4] as u32)
}
/// raw fields; a box with a field beyond TLC's 31-bit integers is logged as the canonical empty
/// encoding if it is empty (only `new_empty(31)` has such a field), else as [-2] (not representable).
pub fn box_json(b: &TileBBox) -> Value {
	let f = [b.x_min as u64, b.y_min as u64, b.x_max as u64, b.y_max as u64];
	if f.iter().any(|v| *v > I31) {
		if b.is_empty() {
			return json!([b.level, 1, 1, 0, 0]);
		}
		return json!([-2]);
	}
	json!([b.level, f[0], f[1], f[2], f[3]])
}
fn limbs(mut n: u64) -> Vec<u64> {
	let mut v = vec![];
	for _ in 0..5 {
		v.push(n % 32768);
		n /= 32768;
	}
	v
}
fn res_box(r: Result<anyhow::Result<TileBBox>, String>) -> Value {
	match r {
		Ok(Ok(b)) => box_json(&b),
		Ok(Err(_)) => json!([]),
		Err(_) => json!([-1]),
	}
}
fn mutate(a: &TileBBox, f: impl FnOnce(&mut TileBBox) -> anyhow::Result<()>) -> Value {
	let mut c = a.clone();
	res_box(catch(move || {
		f(&mut c)?;
		Ok(c)
	}))
}

fn box_event(a: &TileBBox, coords: &[(u32, u32)], idxs: &[u32], sizes: &[u32], iter_full: bool, ats: &[u64]) -> Value {
	let l = a.level;
	let empty = catch(|| a.is_empty() as i64).unwrap_or(-1);
	let count = catch(|| a.count_tiles()).map(limbs).unwrap_or(vec![]);
	let flip = mutate(a, |b| {
		b.flip_y();
		Ok(())
	});
	let swap = mutate(a, |b| {
		b.swap_xy();
		Ok(())
	});
	let flip2 = mutate(a, |b| {
		b.flip_y();
		b.flip_y();
		Ok(())
	});
	let swap2 = mutate(a, |b| {
		b.swap_xy();
		b.swap_xy();
		Ok(())
	});
	let iter: Value = if iter_full {
		match catch(|| a.iter_coords().map(|c| json!([c.x, c.y, c.z])).collect::<Vec<_>>()) {
			Ok(v) => json!(v),
			Err(_) => json!([[-1, -1, -1]]),
		}
	} else {
		json!([])
	};
	let into_iter_same = if iter_full {
		catch(|| {
			let x: Vec<_> = a.iter_coords().collect();
			let y: Vec<_> = a.clone().into_iter_coords().collect();
			(x == y) as i64
		})
		.unwrap_or(-1)
	} else {
		1
	};
	let at: Vec<Value> = ats
		.iter()
		.map(|i| match catch(|| a.iter_coords().nth(*i as usize)) {
			Ok(Some(c)) => json!([i, c.x, c.y]),
			Ok(None) => json!([i, -1, -1]),
			Err(_) => json!([i, -2, -2]),
		})
		.collect();
	let grids: Vec<Value> = sizes
		.iter()
		.map(|s| {
			let parts = match catch(|| a.iter_bbox_grid(*s).map(|b| box_json(&b)).collect::<Vec<_>>()) {
				Ok(v) => json!(v),
				Err(_) => json!([[-1]]),
			};
			json!({"s": s, "parts": parts})
		})
		.collect();
	let contains: Vec<Value> = coords
		.iter()
		.map(|(x, y)| {
			let c2 = catch(|| a.contains2(&TileCoord2::new(*x, *y)) as i64).unwrap_or(-1);
			let c3 = catch(|| a.contains3(&TileCoord3::new(*x, *y, l).unwrap()) as i64).unwrap_or(-1);
			let other = if l < 31 { l + 1 } else { l - 1 };
			let c3o = catch(|| a.contains3(&TileCoord3::new(*x, *y, other).unwrap()) as i64).unwrap_or(-1);
			json!([x, y, c2, c3, c3o])
		})
		.collect();
	let index: Vec<Value> = coords
		.iter()
		.map(|(x, y)| {
			let f = |r: Result<anyhow::Result<usize>, String>| match r {
				Ok(Ok(i)) => json!(limbs(i as u64)),
				Ok(Err(_)) => json!([]),
				Err(_) => json!([-1]),
			};
			let i2 = f(catch(|| a.get_tile_index2(&TileCoord2::new(*x, *y))));
			let i3 = f(catch(|| a.get_tile_index3(&TileCoord3::new(*x, *y, l).unwrap())));
			json!([x, y, i2, i3])
		})
		.collect();
	let cbi: Vec<Value> = idxs
		.iter()
		.map(|i| {
			let c2 = match catch(|| a.get_coord2_by_index(*i)) {
				Ok(Ok(c)) => json!([c.x, c.y]),
				Ok(Err(_)) => json!([]),
				Err(_) => json!([-1]),
			};
			let c3 = match catch(|| a.get_coord3_by_index(*i)) {
				Ok(Ok(c)) => json!([c.x, c.y, c.z]),
				Ok(Err(_)) => json!([]),
				Err(_) => json!([-1]),
			};
			json!([i, c2, c3])
		})
		.collect();
	json!({"ev":"box","a":box_json(a),"empty":empty,"count":count,"flip":flip,"swap":swap,"flip2":flip2,"swap2":swap2,
		"iter_full": iter_full as i64, "iter":iter,"into_iter_same":into_iter_same,"at":at,"grids":grids,
		"contains":contains,"index":index,"cbi":cbi})
}

fn pair_event(a: &TileBBox, b: &TileBBox) -> Value {
	let inter = mutate(a, |c| c.intersect_bbox(b));
	let incl = mutate(a, |c| c.include_bbox(b));
	let ovl = match catch(|| a.overlaps_bbox(b)) {
		Ok(Ok(v)) => v as i64,
		Ok(Err(_)) => 2,
		Err(_) => -1,
	};
	json!({"ev":"pair","a":box_json(a),"b":box_json(b),"inter":inter,"incl":incl,"ovl":ovl})
}

fn inccoord_event(a: &TileBBox, x: u32, y: u32) -> Value {
	let r1 = mutate(a, |c| {
		c.include_coord(x, y);
		Ok(())
	});
	let r3 = mutate(a, |c| c.include_coord3(&TileCoord3::new(x, y, a.level)?));
	json!({"ev":"inccoord","a":box_json(a),"x":x,"y":y,"res":r1,"res3":r3})
}

fn coord_event(z: u8, x: u32, y: u32) -> Value {
	let c = TileCoord3::new(x, y, z).unwrap();
	let f = |g: &dyn Fn(&mut TileCoord3)| {
		let mut d = c;
		match catch(move || {
			g(&mut d);
			d
		}) {
			Ok(d) => json!([d.x, d.y, d.z]),
			Err(_) => json!([-1]),
		}
	};
	json!({"ev":"coord","z":z,"x":x,"y":y,
		"flip": f(&|d| d.flip_y()), "swap": f(&|d| d.swap_xy()),
		"flip2": f(&|d| { d.flip_y(); d.flip_y() }), "swap2": f(&|d| { d.swap_xy(); d.swap_xy() })})
}

// ---- geo -------------------------------------------------------------------------------------
const U: f64 = 2_000_000.0;
fn lon_of(l: u8, p: &Value) -> f64 {
	let k = p[0].as_i64().unwrap() as f64;
	let m = p[1].as_i64().unwrap() as f64;
	let n = 2f64.powi(l as i32);
	(((k + m / U) / n) - 0.5) * 360.0
}
fn lat_of(l: u8, p: &Value) -> f64 {
	let k = p[0].as_i64().unwrap();
	let m = p[1].as_i64().unwrap();
	let n = 2f64.powi(l as i32);
	if k < 0 {
		return 90.0;
	}
	if (k as f64) > n || ((k as f64) == n && m > 0) {
		return -90.0;
	}
	let y = (k as f64 + m as f64 / U) / n;
	((std::f64::consts::PI * (1.0 - 2.0 * y)).exp().atan() / std::f64::consts::PI - 0.25) * 360.0
}
fn geo_event(l: u8, g: &Value) -> Value {
	let bbox = GeoBBox(lon_of(l, &g["w"]), lat_of(l, &g["s"]), lon_of(l, &g["e"]), lat_of(l, &g["n"]));
	let res = res_box(catch(|| TileBBox::from_geo(l, &bbox)));
	json!({"ev":"geo","l":l,"g":g,"lonlat":format!("{:?}", bbox),"res":res})
}
fn roundtrip_event(a: &TileBBox) -> Value {
	let res = res_box(catch(|| TileBBox::from_geo(a.level, &a.as_geo_bbox())));
	json!({"ev":"rt","a":box_json(a),"res":res})
}

// ---- pyramids --------------------------------------------------------------------------------
fn pyr_from(levels: &[TileBBox]) -> TileBBoxPyramid {
	let mut p = TileBBoxPyramid::new_empty();
	for b in levels {
		p.level_bbox[b.level as usize] = b.clone();
	}
	p
}
fn pyr_json(p: &TileBBoxPyramid) -> Value {
	json!(p.level_bbox.iter().map(box_json).collect::<Vec<_>>())
}
fn pyr_res(r: Result<TileBBoxPyramid, String>) -> Value {
	match r {
		Ok(p) => pyr_json(&p),
		Err(_) => json!([[-1]]),
	}
}
fn pyr_event(p: &TileBBoxPyramid, q: &TileBBoxPyramid, zs: &[u8], coords: &[(u8, u32, u32)], boxes: &[TileBBox]) -> Value {
	let m = |f: &dyn Fn(&mut TileBBoxPyramid)| {
		let mut c = p.clone();
		pyr_res(catch(move || {
			f(&mut c);
			c
		}))
	};
	let inter = m(&|c| c.intersect(q));
	let incl = m(&|c| c.include_bbox_pyramid(q));
	let flip = m(&|c| c.flip_y());
	let swap = m(&|c| c.swap_xy());
	let setmin: Vec<Value> = zs.iter().map(|z| json!({"z":z,"res": m(&|c| c.set_zoom_min(*z))})).collect();
	let setmax: Vec<Value> = zs.iter().map(|z| json!({"z":z,"res": m(&|c| c.set_zoom_max(*z))})).collect();
	let contains: Vec<Value> = coords
		.iter()
		.map(|(z, x, y)| json!([z, x, y, catch(|| p.contains_coord(&TileCoord3::new(*x, *y, *z).unwrap()) as i64).unwrap_or(-1)]))
		.collect();
	let inccoord: Vec<Value> = coords
		.iter()
		.map(|(z, x, y)| json!({"z":z,"x":x,"y":y,"res": m(&|c| c.include_coord(&TileCoord3::new(*x, *y, *z).unwrap()))}))
		.collect();
	let overlaps: Vec<Value> = boxes.iter().map(|b| json!({"b":box_json(b),"res":catch(|| p.overlaps_bbox(b) as i64).unwrap_or(-1)})).collect();
	let incbox: Vec<Value> = boxes.iter().map(|b| json!({"b":box_json(b),"res": m(&|c| c.include_bbox(b))})).collect();
	let zmin = catch(|| p.get_zoom_min().map(|z| z as i64).unwrap_or(-1)).unwrap_or(-2);
	let zmax = catch(|| p.get_zoom_max().map(|z| z as i64).unwrap_or(-1)).unwrap_or(-2);
	let empty = catch(|| p.is_empty() as i64).unwrap_or(-1);
	let count = catch(|| p.count_tiles()).map(limbs).unwrap_or(vec![]);
	json!({"ev":"pyr","p":pyr_json(p),"q":pyr_json(q),"inter":inter,"incl":incl,"flip":flip,"swap":swap,
		"setmin":setmin,"setmax":setmax,"contains":contains,"inccoord":inccoord,"overlaps":overlaps,"incbox":incbox,
		"zmin":zmin,"zmax":zmax,"empty":empty,"count":count})
}

// ---- replay of TLC-enumerated cases -------------------------------------------------------------
pub fn replay(input: &str, output: &str) -> Value {
	let cases = read_ndjson(input);
	let mut out = Out::create(output);
	let (mut nb, mut np, mut ng, mut npy) = (0u64, 0u64, 0u64, 0u64);
	for case in &cases {
		match case["k"].as_str().unwrap() {
			"box" => {
				let a = box_from(&case["a"]);
				let n = 1u32 << a.level;
				// every coordinate of the level plus a ring outside it
				let mut coords = vec![];
				for y in 0..=n {
					for x in 0..=n {
						coords.push((x, y));
					}
				}
				let idxs: Vec<u32> = (0..=(n * n + 1)).collect();
				out.emit(&box_event(&a, &coords, &idxs, &[1, 2, 3, 4, 5, 256], true, &[]));
				for (x, y) in coords.iter().filter(|(x, y)| *x < n && *y < n) {
					out.emit(&inccoord_event(&a, *x, *y));
				}
				if !a.is_empty() {
					out.emit(&roundtrip_event(&a));
				}
				nb += 1;
			}
			"pair" => {
				out.emit(&pair_event(&box_from(&case["a"]), &box_from(&case["b"])));
				np += 1;
			}
			"geo" => {
				out.emit(&geo_event(case["l"].as_u64().unwrap() as u8, &case["g"]));
				ng += 1;
			}
			"pyr" => {
				let p: Vec<TileBBox> = case["p"].as_array().unwrap().iter().map(box_from).collect();
				let q: Vec<TileBBox> = case["q"].as_array().unwrap().iter().map(box_from).collect();
				let mut coords = vec![];
				for z in 0..=2u8 {
					for y in 0..(1u32 << z) {
						for x in 0..(1u32 << z) {
							coords.push((z, x, y));
						}
					}
				}
				let mut boxes = q.clone();
				boxes.push(TileBBox::new_full(1).unwrap());
				boxes.push(TileBBox::new_empty(0).unwrap());
				out.emit(&pyr_event(&pyr_from(&p), &pyr_from(&q), &[0, 1, 2, 31, 32, 255], &coords, &boxes));
				npy += 1;
			}
			k => panic!("unknown case kind {k}"),
		}
	}
	// coordinates: every coordinate of levels 0..4 (flip/swap on single tiles)
	for z in 0..=4u8 {
		for y in 0..(1u32 << z) {
			for x in 0..(1u32 << z) {
				out.emit(&coord_event(z, x, y));
			}
		}
	}
	let lines = out.finish();
	json!({"cases": cases.len(), "events": lines, "boxes": nb, "pairs": np, "geo": ng, "pyramids": npy})
}

// ---- random large-zoom cases ----------------------------------------------------------------------
fn rnd_coord(rng: &mut Rng, l: u8) -> u32 {
	let max = ((1u64 << l) - 1) as u64;
	match rng.below(6) {
		0 => 0,
		1 => max as u32,
		2 => (max / 2) as u32,
		3 => ((max / 2 + 1).min(max)) as u32,
		4 => (rng.below(max + 1) & !0xff).min(max) as u32, // block-grid aligned
		_ => rng.below(max + 1) as u32,
	}
}
fn rnd_box(rng: &mut Rng, l: u8) -> TileBBox {
	match rng.below(12) {
		0 => {
			if l < 31 || rng.chance(1, 2) {
				TileBBox::new_empty(l).unwrap()
			} else {
				raw_box(l, 1, 1, 0, 0)
			}
		}
		1 => raw_box(l, 1, 1, 0, 0),
		2 => TileBBox::new_full(l).unwrap(),
		3 => {
			// one axis inverted (result shape of a disjoint intersect)
			let (a, b, c, d) = (rnd_coord(rng, l), rnd_coord(rng, l), rnd_coord(rng, l), rnd_coord(rng, l));
			raw_box(l, a.max(b).max(1), c.min(d), a.min(b).min(a.max(b).max(1) - 1), c.max(d))
		}
		4 => {
			// small box somewhere
			let x = rnd_coord(rng, l);
			let y = rnd_coord(rng, l);
			let max = ((1u64 << l) - 1) as u32;
			raw_box(l, x, y, x.saturating_add(rng.below(6) as u32).min(max), y.saturating_add(rng.below(6) as u32).min(max))
		}
		_ => {
			let (a, b, c, d) = (rnd_coord(rng, l), rnd_coord(rng, l), rnd_coord(rng, l), rnd_coord(rng, l));
			raw_box(l, a.min(b), c.min(d), a.max(b), c.max(d))
		}
	}
}

pub fn record(output: &str, seed: u64, thorough: bool) -> Value {
	let mut rng = Rng::new(seed ^ 0xC15);
	let mut out = Out::create(output);
	let n = if thorough { 20000 } else { 2500 };
	let mut samples = vec![];
	for i in 0..n {
		// levels 4..30 for everything; level 31 only for operations without widths (TLC integers are 32 bit)
		let l = if i % 9 == 0 { 31 } else { rng.range(4, 30) as u8 };
		let a = rnd_box(&mut rng, l);
		let b = if rng.chance(1, 3) {
			// overlapping neighbour of a
			let mut c = a.clone();
			if !c.is_empty() {
				let dx = rng.below(4) as u32;
				c = raw_box(l, c.x_min.saturating_sub(dx), c.y_min, c.x_max.saturating_sub(dx.min(c.x_max - c.x_min)), c.y_max);
			}
			c
		} else {
			rnd_box(&mut rng, l)
		};
		out.emit(&pair_event(&a, &b));
		let (x, y) = (rnd_coord(&mut rng, l), rnd_coord(&mut rng, l));
		out.emit(&inccoord_event(&a, x, y));
		out.emit(&coord_event(l, x, y));
		if l <= 30 {
			// coordinates: corners, just outside, random
			let mut coords = vec![(x, y)];
			if !a.is_empty() {
				coords.push((a.x_min, a.y_min));
				coords.push((a.x_max, a.y_max));
				coords.push((a.x_max, a.y_min));
				coords.push((a.x_max.saturating_add(1), a.y_max));
				coords.push((a.x_min, a.y_min.saturating_sub(1)));
				coords.push((rng.range(a.x_min as u64, a.x_max as u64) as u32, rng.range(a.y_min as u64, a.y_max as u64) as u32));
			}
			let cnt = a.count_tiles();
			let mut idxs: Vec<u32> = vec![0, 1, rng.below(I31) as u32, 5];
			if cnt > 0 && cnt - 1 < I31 {
				idxs.push((cnt - 1) as u32);
				idxs.push(cnt as u32);
				idxs.push(rng.below(cnt) as u32);
			}
			let small = cnt <= 48;
			let w = a.width() as u64;
			let ats: Vec<u64> = if cnt > 0 && !small {
				vec![0, (w - 1).min(50_000), w.min(50_000).min(cnt - 1), rng.below(cnt.min(60_000))]
			} else {
				vec![]
			};
			// grid sizes whose partition stays small enough to log
			let mut sizes = vec![];
			for s in [256u32, 32, 1 << rng.range(0, l as u64).min(30) as u32, rng.range(1, 1 << 20) as u32] {
				let parts = if a.is_empty() {
					0
				} else {
					((a.x_max / s - a.x_min / s + 1) as u64) * ((a.y_max / s - a.y_min / s + 1) as u64)
				};
				if parts <= 64 {
					sizes.push(s);
				}
			}
			let ev = box_event(&a, &coords, &idxs, &sizes, small, &ats);
			if samples.len() < 3 && !a.is_empty() {
				samples.push(json!({"a": ev["a"], "count": ev["count"], "grids": ev["grids"].as_array().unwrap().len()}));
			}
			out.emit(&ev);
			if l <= 24 && !a.is_empty() {
				out.emit(&roundtrip_event(&a));
			}
		}
		if i % 4 == 0 {
			// geographic boxes with corners in the fraction classes, levels 0..16
			let gl = rng.range(0, 16) as u8;
			let nn = 1i64 << gl;
			let fr = [0i64, 1, 4, 1_000_000, 1_999_996, 1_999_999];
			let mut px = || json!([rng.below(nn as u64) as i64, *rng.pick(&fr)]);
			let (p1, p2) = (px(), px());
			let leq = |a: &Value, b: &Value| (a[0].as_i64(), a[1].as_i64()) <= (b[0].as_i64(), b[1].as_i64());
			let (w, e) = if leq(&p1, &p2) { (p1, p2) } else { (p2, p1) };
			let mut py = || json!([rng.below(nn as u64 + 2) as i64 - 1, *rng.pick(&fr)]);
			let (q1, q2) = (py(), py());
			let (nth, sth) = if leq(&q1, &q2) { (q1, q2) } else { (q2, q1) };
			let (w, e) = if rng.chance(1, 5) { (w.clone(), w) } else { (w, e) };
			out.emit(&geo_event(gl, &json!({"w":w,"n":nth,"e":e,"s":sth})));
		}
		if i % 10 == 0 {
			// pyramids: random boxes on a few levels
			let mk = |rng: &mut Rng| {
				let mut v = vec![];
				for _ in 0..rng.range(0, 4) {
					let z = rng.range(0, 31) as u8;
					v.push(rnd_box(rng, z));
				}
				pyr_from(&v)
			};
			let p = mk(&mut rng);
			let mut q = mk(&mut rng);
			if rng.chance(1, 2) {
				// share levels with p so that intersections are non-trivial
				for b in p.level_bbox.iter().filter(|b| !b.is_empty()) {
					if rng.chance(2, 3) {
						let mut c = b.clone();
						c.x_min = c.x_min.saturating_add(rng.below(3) as u32).min(c.x_max);
						let lv = c.level as usize;
						q.level_bbox[lv] = c;
					}
				}
			}
			let coords: Vec<(u8, u32, u32)> = p
				.level_bbox
				.iter()
				.filter(|b| !b.is_empty())
				.flat_map(|b| vec![(b.level, b.x_min, b.y_min), (b.level, b.x_max, b.y_max.saturating_sub(1))])
				.chain(std::iter::once((rng.range(0, 30) as u8, 0u32, 0u32)))
				.collect();
			let boxes: Vec<TileBBox> = q.level_bbox.iter().filter(|b| !b.is_empty()).cloned().collect();
			out.emit(&pyr_event(&p, &q, &[0, rng.range(0, 31) as u8, 31, 32, 255], &coords, &boxes));
		}
	}
	let lines = out.finish();
	json!({"cases": n, "events": lines, "samples": samples})
}
