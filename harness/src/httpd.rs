//! A minimal HTTP/1.1 server with Range support for files of one directory (the harness side of the HTTP data reader:
//! `get_reader("http://127.0.0.1:<port>/<file>")`). One thread per connection, keep-alive, GET only.
use std::io::{BufRead, BufReader, Read, Seek, SeekFrom, Write};
use std::net::{TcpListener, TcpStream};
use std::path::PathBuf;
use std::sync::atomic::{AtomicBool, AtomicU64, Ordering};
use std::sync::Arc;

pub struct RangeServer {
	pub port: u16,
	pub requests: Arc<AtomicU64>,
	stop: Arc<AtomicBool>,
}

fn handle(mut s: TcpStream, dir: PathBuf, requests: Arc<AtomicU64>) {
	let _ = s.set_nodelay(true);
	let mut rd = BufReader::new(s.try_clone().unwrap());
	loop {
		let mut line = String::new();
		if rd.read_line(&mut line).unwrap_or(0) == 0 {
			return;
		}
		let parts: Vec<&str> = line.split_whitespace().collect();
		if parts.len() < 2 {
			return;
		}
		let path = parts[1].split('?').next().unwrap().trim_start_matches('/').to_string();
		let mut range: Option<(u64, u64)> = None;
		loop {
			let mut h = String::new();
			if rd.read_line(&mut h).unwrap_or(0) == 0 {
				return;
			}
			let h = h.trim_end();
			if h.is_empty() {
				break;
			}
			if let Some(v) = h.to_ascii_lowercase().strip_prefix("range:") {
				if let Some(r) = v.trim().strip_prefix("bytes=") {
					let mut it = r.split('-');
					if let (Some(a), Some(b)) = (it.next(), it.next()) {
						if let (Ok(a), Ok(b)) = (a.trim().parse::<u64>(), b.trim().parse::<u64>()) {
							range = Some((a, b));
						}
					}
				}
			}
		}
		requests.fetch_add(1, Ordering::Relaxed);
		let file = dir.join(&path);
		let resp: Vec<u8> = match (std::fs::File::open(&file), path.contains("..")) {
			(Ok(mut f), false) => {
				let total = f.metadata().map(|m| m.len()).unwrap_or(0);
				match range {
					Some((a, b0)) if a <= b0 && a < total => {
						// RFC 7233: a last-byte-pos beyond the representation is cut down to its end
						let b = b0.min(total - 1);
						let mut buf = vec![0u8; (b - a + 1) as usize];
						f.seek(SeekFrom::Start(a)).unwrap();
						f.read_exact(&mut buf).unwrap();
						let mut r = format!("HTTP/1.1 206 Partial Content\r\nContent-Range: bytes {a}-{b}/{total}\r\nContent-Length: {}\r\nAccept-Ranges: bytes\r\n\r\n", buf.len()).into_bytes();
						r.extend(buf);
						r
					}
					Some((a, b)) if std::env::var("VERIF_HTTPD_VERBOSE").is_ok() && { eprintln!("httpd: 416 for {path} bytes={a}-{b} (total {total})"); false } => vec![],
					Some(_) => format!("HTTP/1.1 416 Range Not Satisfiable\r\nContent-Range: bytes */{total}\r\nContent-Length: 0\r\n\r\n").into_bytes(),
					None => {
						let mut buf = vec![];
						f.read_to_end(&mut buf).unwrap();
						let mut r = format!("HTTP/1.1 200 OK\r\nContent-Length: {}\r\nAccept-Ranges: bytes\r\n\r\n", buf.len()).into_bytes();
						r.extend(buf);
						r
					}
				}
			}
			_ => b"HTTP/1.1 404 Not Found\r\nContent-Length: 0\r\n\r\n".to_vec(),
		};
		if s.write_all(&resp).is_err() {
			return;
		}
	}
}

impl RangeServer {
	pub fn start(dir: &std::path::Path) -> RangeServer {
		let l = TcpListener::bind("127.0.0.1:0").unwrap();
		let port = l.local_addr().unwrap().port();
		let stop = Arc::new(AtomicBool::new(false));
		let requests = Arc::new(AtomicU64::new(0));
		let (st, rq, dir) = (stop.clone(), requests.clone(), dir.to_path_buf());
		std::thread::spawn(move || {
			for c in l.incoming() {
				if st.load(Ordering::Relaxed) {
					break;
				}
				if let Ok(s) = c {
					let (d, r) = (dir.clone(), rq.clone());
					std::thread::spawn(move || handle(s, d, r));
				}
			}
		});
		RangeServer { port, requests, stop }
	}
}

impl Drop for RangeServer {
	fn drop(&mut self) {
		self.stop.store(true, Ordering::Relaxed);
		let _ = TcpStream::connect(("127.0.0.1", self.port)); // wake the accept loop
	}
}
