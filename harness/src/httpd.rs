//! A minimal HTTP/1.1 server with Range support for files of one directory (the harness side of the HTTP data reader:
//! `get_reader("http://127.0.0.1:<port>/<file>")`). One thread per connection, keep-alive, GET only.
use std::io::{BufRead, BufReader, Read, Seek, SeekFrom, Write};
use std::net::{TcpListener, TcpStream};
use std::path::PathBuf;
use std::sync::atomic::{AtomicBool, AtomicU64, Ordering};
use std::sync::Arc;

pub struct RangeServer {
	pub port: u16,
	pub requests: Arc<AtomicU64>,
	stop: Arc<AtomicBool>,
}

fn handle(mut s: TcpStream, dir: PathBuf, requests: Arc<AtomicU64>) {
	let _ = s.set_nodelay(true);
	let mut rd = BufReader::new(s.try_clone().unwrap());
	loop {
		let mut line = String::new();
		if rd.read_line(&mut line).unwrap_or(0) == 0 {
			return;
		}
		let parts: Vec<&str> = line.split_whitespace().collect();
		if parts.len() < 2 {
			return;
		}
		let path = parts[1].split('?').next().unwrap().trim_start_matches('/').to_string();
		let mut range: Option<(u64, u64)> = None;
		loop {
			let mut h = String::new();
			if rd.read_line(&mut h).unwrap_or(0) == 0 {
				return;
			}
			let h = h.trim_end();
			if h.is_empty() {
				break;
			}
			if let Some(v) = h.to_ascii_lowercase().strip_prefix("range:") {
				if let Some(r) = v.trim().strip_prefix("bytes=") {
					let mut it = r.split('-');
					if let (Some(a), Some(b)) = (it.next(), it.next()) {
						if let (Ok(a), Ok(b)) = (a.trim().parse::<u64>(), b.trim().parse::<u64>()) {
							range = Some((a, b));
						}
					}
				}
			}
		}
		requests.fetch_add(1, Ordering::Relaxed);
		// "hr/<mode>/<file>": the MISBEHAVING server of spec/HttpRange.tla (Answer): the same file, answered as the mode says
		if let Some(rest) = path.strip_prefix("hr/") {
			let (mode, fname) = rest.split_once('/').unwrap_or((rest, ""));
			let data = std::fs::read(dir.join(fname)).unwrap_or_default();
			let total = data.len() as i64;
			let (off, last) = range.map(|(a, b)| (a as i64, b as i64)).unwrap_or((0, total - 1));
			let len = last - off + 1;
			let slice = |o: i64, l: i64| -> Vec<u8> { (o.max(0)..(o + l).min(total)).map(|i| data[i as usize]).collect() };
			let (status, cr, body): (u16, Option<String>, Vec<u8>) = match mode {
				"exact" => (206, Some(format!("bytes {off}-{last}/{total}")), slice(off, len)),
				"full200" => (200, None, data.clone()),
				"shifted" => {
					let o2 = if off + len < total { off + 1 } else { off - 1 };
					(206, Some(format!("bytes {o2}-{}/{total}", o2 + len - 1)), slice(o2, len))
				}
				"wider" => (206, Some(format!("bytes {off}-{}/{total}", total - 1)), slice(off, total - off)),
				"short_body" => (206, Some(format!("bytes {off}-{last}/{total}")), slice(off, len - 1)),
				"long_body" => {
					let mut b = slice(off, len);
					b.push(0);
					(206, Some(format!("bytes {off}-{last}/{total}")), b)
				}
				"status416" => (416, None, vec![]),
				"status500" => (500, None, slice(off, len)),
				"no_content_range" => (206, None, slice(off, len)),
				"bad_content_range" => (206, Some("octets here and there".to_string()), slice(off, len)),
				_ => (206, Some(format!("bytes {off}-{}/{total}", last + 1)), slice(off, len)), // wrong_end
			};
			let reason = match status { 200 => "OK", 206 => "Partial Content", 416 => "Range Not Satisfiable", _ => "Internal Server Error" };
			let mut r = format!("HTTP/1.1 {status} {reason}\r\nContent-Length: {}\r\n", body.len());
			if let Some(c) = cr {
				r.push_str(&format!("Content-Range: {c}\r\n"));
			}
			r.push_str("\r\n");
			let mut resp = r.into_bytes();
			resp.extend(body);
			if s.write_all(&resp).is_err() {
				return;
			}
			continue;
		}
		let file = dir.join(&path);
		let resp: Vec<u8> = match (std::fs::File::open(&file), path.contains("..")) {
			(Ok(mut f), false) => {
				let total = f.metadata().map(|m| m.len()).unwrap_or(0);
				match range {
					Some((a, b0)) if a <= b0 && a < total => {
						// RFC 7233: a last-byte-pos beyond the representation is cut down to its end
						let b = b0.min(total - 1);
						let mut buf = vec![0u8; (b - a + 1) as usize];
						f.seek(SeekFrom::Start(a)).unwrap();
						f.read_exact(&mut buf).unwrap();
						let mut r = format!("HTTP/1.1 206 Partial Content\r\nContent-Range: bytes {a}-{b}/{total}\r\nContent-Length: {}\r\nAccept-Ranges: bytes\r\n\r\n", buf.len()).into_bytes();
						r.extend(buf);
						r
					}
					Some((a, b)) if std::env::var("VERIF_HTTPD_VERBOSE").is_ok() && { eprintln!("httpd: 416 for {path} bytes={a}-{b} (total {total})"); false } => vec![],
					Some(_) => format!("HTTP/1.1 416 Range Not Satisfiable\r\nContent-Range: bytes */{total}\r\nContent-Length: 0\r\n\r\n").into_bytes(),
					None => {
						let mut buf = vec![];
						f.read_to_end(&mut buf).unwrap();
						let mut r = format!("HTTP/1.1 200 OK\r\nContent-Length: {}\r\nAccept-Ranges: bytes\r\n\r\n", buf.len()).into_bytes();
						r.extend(buf);
						r
					}
				}
			}
			_ => b"HTTP/1.1 404 Not Found\r\nContent-Length: 0\r\n\r\n".to_vec(),
		};
		if s.write_all(&resp).is_err() {
			return;
		}
	}
}

/// HTTPRANGE replay: every case of MC_HttpRange against the real DataReaderHttp; the outcome is logged, TLC judges
pub fn replay(input: &str, output: &str, dir: &str) -> serde_json::Value {
	use crate::util::*;
	use serde_json::json;
	use versatiles_core::io::{DataReaderHttp, DataReaderTrait};
	use versatiles_core::types::ByteRange;
	let cases = read_ndjson(input);
	let mut out = Out::create(output);
	let d = std::path::Path::new(dir);
	std::fs::create_dir_all(d).unwrap();
	let rt = tokio::runtime::Builder::new_multi_thread().worker_threads(2).enable_all().build().unwrap();
	let srv = RangeServer::start(d);
	for c in &cases {
		let total = c["total"].as_u64().unwrap();
		let fname = format!("hr_{total}.bin");
		if !d.join(&fname).exists() {
			std::fs::write(d.join(&fname), (0..total).map(|i| ((i * 7 + 3) % 251) as u8).collect::<Vec<u8>>()).unwrap();
		}
		let (mode, off, len) = (c["mode"].as_str().unwrap(), c["off"].as_u64().unwrap(), c["len"].as_u64().unwrap());
		let url = format!("http://127.0.0.1:{}/hr/{mode}/{fname}", srv.port);
		let res = catch(|| {
			rt.block_on(async {
				let r = DataReaderHttp::from_url(reqwest::Url::parse(&url).unwrap())?;
				tokio::time::timeout(std::time::Duration::from_secs(20), r.read_range(&ByteRange::new(off, len))).await.map_err(|_| anyhow::anyhow!("timeout"))?
			})
		});
		let (ok, bytes, err): (i64, Vec<u8>, String) = match res {
			Ok(Ok(b)) => (1, b.as_slice().to_vec(), String::new()),
			Ok(Err(e)) => (0, vec![], format!("{e:#}").chars().take(160).collect()),
			Err(p) => (-1, vec![], p.chars().take(160).collect()),
		};
		out.emit(&json!({"ev":"httprange","mode":mode,"off":off,"len":len,"total":total,"ok":ok,"bytes":bytes,"err":err}));
	}
	let lines = out.finish();
	json!({"cases": cases.len(), "events": lines})
}

impl RangeServer {
	pub fn start(dir: &std::path::Path) -> RangeServer {
		let l = TcpListener::bind("127.0.0.1:0").unwrap();
		let port = l.local_addr().unwrap().port();
		let stop = Arc::new(AtomicBool::new(false));
		let requests = Arc::new(AtomicU64::new(0));
		let (st, rq, dir) = (stop.clone(), requests.clone(), dir.to_path_buf());
		std::thread::spawn(move || {
			for c in l.incoming() {
				if st.load(Ordering::Relaxed) {
					break;
				}
				if let Ok(s) = c {
					let (d, r) = (dir.clone(), rq.clone());
					std::thread::spawn(move || handle(s, d, r));
				}
			}
		});
		RangeServer { port, requests, stop }
	}
}

impl Drop for RangeServer {
	fn drop(&mut self) {
		self.stop.store(true, Ordering::Relaxed);
		let _ = TcpStream::connect(("127.0.0.1", self.port)); // wake the accept loop
	}
}
