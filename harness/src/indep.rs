//! Independent encoders and decoders written from the PUBLISHED container layouts only
//! (versatiles v02, PMTiles v3, MBTiles 1.3, ustar/gnu tar, z/x/y directory). They never call
//! versatiles' own format code; compression uses the flate2/brotli crates directly.
//! Decoders project file bytes to an abstract record (tiles + layout facts) that TLC judges.
use serde_json::{json, Value};
use std::io::{Read, Write};
use std::path::Path;

pub type Tile = (u8, u32, u32, Vec<u8>);

#[derive(Debug, Default)]
pub struct Decoded {
	pub ok: bool,
	pub err: String,
	pub tf: String,
	pub tc: String,
	pub tiles: Vec<Tile>,
	pub meta: Option<Vec<u8>>,
	pub layout: Value,
}
impl Decoded {
	fn fail(e: impl Into<String>) -> Decoded {
		Decoded { ok: false, err: e.into(), layout: json!({}), ..Default::default() }
	}
}

// ------------------------------------------------------------------------------------------------ codecs
pub fn gzip(b: &[u8]) -> Vec<u8> {
	// a FOREIGN encoder on purpose (other level, a modification time in the header): recompressing its output with the
	// project's encoder never reproduces the same bytes
	let mut e = flate2::GzBuilder::new().mtime(1).write(Vec::new(), flate2::Compression::new(4));
	e.write_all(b).unwrap();
	e.finish().unwrap()
}
pub fn gunzip(b: &[u8]) -> Result<Vec<u8>, String> {
	let mut d = flate2::read::GzDecoder::new(b);
	let mut v = vec![];
	d.read_to_end(&mut v).map_err(|e| format!("gunzip: {e}"))?;
	Ok(v)
}
pub fn brotli_c(b: &[u8]) -> Vec<u8> {
	let mut out = vec![];
	{
		let mut w = brotli::CompressorWriter::new(&mut out, 4096, 5, 22);
		w.write_all(b).unwrap();
	}
	out
}
pub fn brotli_d(b: &[u8]) -> Result<Vec<u8>, String> {
	let mut v = vec![];
	brotli::Decompressor::new(b, 4096).read_to_end(&mut v).map_err(|e| format!("unbrotli: {e}"))?;
	Ok(v)
}
pub fn encode(tc: &str, b: &[u8]) -> Vec<u8> {
	match tc {
		"gzip" => gzip(b),
		"brotli" => brotli_c(b),
		_ => b.to_vec(),
	}
}
pub fn decode(tc: &str, b: &[u8]) -> Result<Vec<u8>, String> {
	match tc {
		"gzip" => gunzip(b),
		"brotli" => brotli_d(b),
		"none" => Ok(b.to_vec()),
		x => Err(format!("unknown codec {x}")),
	}
}

// ------------------------------------------------------------------------------------------------ byte helpers
struct Rd<'a> {
	b: &'a [u8],
	p: usize,
}
impl<'a> Rd<'a> {
	fn new(b: &'a [u8]) -> Self {
		Rd { b, p: 0 }
	}
	fn take(&mut self, n: usize) -> Result<&'a [u8], String> {
		if self.p + n > self.b.len() {
			return Err("unexpected end".into());
		}
		let s = &self.b[self.p..self.p + n];
		self.p += n;
		Ok(s)
	}
	fn u8(&mut self) -> Result<u8, String> {
		Ok(self.take(1)?[0])
	}
	fn be32(&mut self) -> Result<u32, String> {
		Ok(u32::from_be_bytes(self.take(4)?.try_into().unwrap()))
	}
	fn be64(&mut self) -> Result<u64, String> {
		Ok(u64::from_be_bytes(self.take(8)?.try_into().unwrap()))
	}
	fn le64(&mut self) -> Result<u64, String> {
		Ok(u64::from_le_bytes(self.take(8)?.try_into().unwrap()))
	}
	fn le32i(&mut self) -> Result<i32, String> {
		Ok(i32::from_le_bytes(self.take(4)?.try_into().unwrap()))
	}
	fn varint(&mut self) -> Result<u64, String> {
		let mut v: u64 = 0;
		let mut shift = 0;
		loop {
			let b = self.u8()?;
			if shift >= 64 {
				return Err("varint too long".into());
			}
			v |= ((b & 0x7f) as u64) << shift;
			if b & 0x80 == 0 {
				return Ok(v);
			}
			shift += 7;
		}
	}
}
fn put_varint(v: &mut Vec<u8>, mut n: u64) {
	loop {
		let b = (n & 0x7f) as u8;
		n >>= 7;
		if n == 0 {
			v.push(b);
			return;
		}
		v.push(b | 0x80);
	}
}
fn slice(b: &[u8], off: u64, len: u64) -> Result<&[u8], String> {
	let end = off.checked_add(len).ok_or("range overflow")?;
	if end > b.len() as u64 {
		return Err(format!("range {off}+{len} beyond file ({})", b.len()));
	}
	Ok(&b[off as usize..end as usize])
}

// ------------------------------------------------------------------------------------------------ versatiles v02
fn vt_format_name(code: u8) -> Option<&'static str> {
	Some(match code {
		0x00 => "bin",
		0x10 => "png",
		0x11 => "jpg",
		0x12 => "webp",
		0x13 => "avif",
		0x14 => "svg",
		0x20 => "pbf",
		0x21 => "geojson",
		0x22 => "topojson",
		0x23 => "json",
		_ => return None,
	})
}
fn vt_format_code(name: &str) -> u8 {
	match name {
		"bin" => 0x00,
		"png" => 0x10,
		"jpg" => 0x11,
		"webp" => 0x12,
		"avif" => 0x13,
		"svg" => 0x14,
		"pbf" => 0x20,
		"geojson" => 0x21,
		"topojson" => 0x22,
		"json" => 0x23,
		x => panic!("format {x}"),
	}
}
fn codec_name3(c: u8) -> Option<&'static str> {
	Some(match c {
		0 => "none",
		1 => "gzip",
		2 => "brotli",
		_ => return None,
	})
}

pub fn decode_versatiles(b: &[u8]) -> Decoded {
	let r = (|| -> Result<Decoded, String> {
		let mut h = Rd::new(slice(b, 0, 66)?);
		if h.take(14)? != b"versatiles_v02" {
			return Err("bad magic".into());
		}
		let tf = vt_format_name(h.u8()?).ok_or("bad tile format code")?;
		let tc = codec_name3(h.u8()?).ok_or("bad compression code")?;
		let (zmin, zmax) = (h.u8()?, h.u8()?);
		let bbox: Vec<i64> = (0..4).map(|_| h.be32().map(|v| v as i32 as i64)).collect::<Result<_, _>>()?;
		let (meta_off, meta_len, bi_off, bi_len) = (h.be64()?, h.be64()?, h.be64()?, h.be64()?);
		let meta = if meta_len > 0 { Some(decode(tc, slice(b, meta_off, meta_len)?)?) } else { None };
		let bi = brotli_d(slice(b, bi_off, bi_len)?)?;
		if bi.len() % 33 != 0 {
			return Err("block index length not a multiple of 33".into());
		}
		let mut tiles = vec![];
		let mut blocks = vec![];
		for rec in bi.chunks(33) {
			let mut r = Rd::new(rec);
			let (z, col, row) = (r.u8()?, r.be32()?, r.be32()?);
			let (cmin, rmin, cmax, rmax) = (r.u8()? as u32, r.u8()? as u32, r.u8()? as u32, r.u8()? as u32);
			let (off, tlen, ilen) = (r.be64()?, r.be64()?, r.be32()? as u64);
			if cmax < cmin || rmax < rmin {
				return Err("block coverage inverted".into());
			}
			let idx = brotli_d(slice(b, off + tlen, ilen)?)?;
			let count = ((cmax - cmin + 1) * (rmax - rmin + 1)) as usize;
			if idx.len() != 12 * count {
				return Err(format!("tile index has {} bytes, expected {}", idx.len(), 12 * count));
			}
			let mut entries = vec![];
			let mut inside = true;
			for (j, e) in idx.chunks(12).enumerate() {
				let mut r = Rd::new(e);
				let (eoff, elen) = (r.be64()?, r.be32()? as u64);
				entries.push(json!([eoff, elen]));
				if elen == 0 {
					continue;
				}
				if eoff + elen > tlen {
					inside = false;
				}
				let w = (cmax - cmin + 1) as usize;
				let x = col * 256 + cmin + (j % w) as u32;
				let y = row * 256 + rmin + (j / w) as u32;
				tiles.push((z, x, y, slice(b, off + eoff, elen)?.to_vec()));
			}
			blocks.push(json!({"z":z,"col":col,"row":row,"cov":[cmin,rmin,cmax,rmax],"off":off,"tlen":tlen,"ilen":ilen,
				"n_entries":entries.len(),"entries_inside_block":inside as u8}));
		}
		let layout = json!({"fmt":"versatiles","filelen":b.len(),"zmin":zmin,"zmax":zmax,"bbox_e7":bbox,
			"meta":[meta_off,meta_len],"block_index":[bi_off,bi_len],"blocks":blocks});
		Ok(Decoded { ok: true, err: String::new(), tf: tf.into(), tc: tc.into(), tiles, meta, layout })
	})();
	r.unwrap_or_else(Decoded::fail)
}

/// layout choices for the independent versatiles encoder
#[derive(Clone, Debug)]
pub struct VtChoices {
	pub partial_blocks: bool, // block coverage = bounding box of the block's tiles instead of 0..255
	pub reverse_tiles: bool,  // tile blobs written in reverse index order
	pub share_all: bool,      // identical blobs share one range regardless of size
	pub index_first: bool,    // block index written before the blocks (header points to it)
	pub shuffle_blocks: bool, // blocks written in reverse order
	pub gap: usize,           // unused bytes between blobs
}

pub fn encode_versatiles(tf: &str, tc: &str, tiles: &[Tile], meta: Option<&[u8]>, ch: &VtChoices) -> Vec<u8> {
	use std::collections::BTreeMap;
	let mut out = vec![0u8; 66];
	let (mut meta_off, mut meta_len) = (0u64, 0u64);
	if let Some(m) = meta {
		let e = encode(tc, m);
		meta_off = out.len() as u64;
		meta_len = e.len() as u64;
		out.extend_from_slice(&e);
	}
	// group tiles into 256x256 blocks
	let mut groups: BTreeMap<(u8, u32, u32), Vec<&Tile>> = BTreeMap::new();
	for t in tiles {
		groups.entry((t.0, t.1 / 256, t.2 / 256)).or_default().push(t);
	}
	let mut keys: Vec<_> = groups.keys().cloned().collect();
	if ch.shuffle_blocks {
		keys.reverse();
	}
	// if the index comes first we must know its size: reserve generously and patch later
	let mut block_recs: Vec<Vec<u8>> = vec![];
	let mut index_slot = 0usize;
	let mut index_reserved = 0usize;
	if ch.index_first {
		index_slot = out.len();
		index_reserved = 64 + keys.len() * 40;
		out.extend(std::iter::repeat(0xEE).take(index_reserved));
	}
	for (z, col, row) in keys {
		let ts = &groups[&(z, col, row)];
		let n = if z >= 8 { 256u32 } else { 1u32 << z };
		let (mut cmin, mut rmin, mut cmax, mut rmax) = (0u32, 0u32, n - 1, n - 1);
		if ch.partial_blocks {
			cmin = ts.iter().map(|t| t.1 % 256).min().unwrap();
			cmax = ts.iter().map(|t| t.1 % 256).max().unwrap();
			rmin = ts.iter().map(|t| t.2 % 256).min().unwrap();
			rmax = ts.iter().map(|t| t.2 % 256).max().unwrap();
		}
		let w = (cmax - cmin + 1) as usize;
		let count = w * (rmax - rmin + 1) as usize;
		let mut entries = vec![(0u64, 0u32); count];
		let block_off = out.len();
		let mut order: Vec<&&Tile> = ts.iter().collect();
		if ch.reverse_tiles {
			order.reverse();
		}
		let mut seen: std::collections::HashMap<&[u8], (u64, u32)> = std::collections::HashMap::new();
		for t in order {
			let j = ((t.2 % 256 - rmin) as usize) * w + (t.1 % 256 - cmin) as usize;
			if ch.share_all {
				if let Some(r) = seen.get(t.3.as_slice()) {
					entries[j] = *r;
					continue;
				}
			}
			out.extend(std::iter::repeat(0xAA).take(ch.gap));
			let r = ((out.len() - block_off) as u64, t.3.len() as u32);
			out.extend_from_slice(&t.3);
			entries[j] = r;
			seen.insert(t.3.as_slice(), r);
		}
		let tlen = out.len() - block_off;
		let mut idx = vec![];
		for (o, l) in entries {
			idx.extend_from_slice(&o.to_be_bytes());
			idx.extend_from_slice(&l.to_be_bytes());
		}
		let idxc = brotli_c(&idx);
		out.extend_from_slice(&idxc);
		let mut rec = vec![z];
		rec.extend_from_slice(&col.to_be_bytes());
		rec.extend_from_slice(&row.to_be_bytes());
		rec.extend_from_slice(&[cmin as u8, rmin as u8, cmax as u8, rmax as u8]);
		rec.extend_from_slice(&(block_off as u64).to_be_bytes());
		rec.extend_from_slice(&(tlen as u64).to_be_bytes());
		rec.extend_from_slice(&(idxc.len() as u32).to_be_bytes());
		assert_eq!(rec.len(), 33);
		block_recs.push(rec);
	}
	let bi: Vec<u8> = block_recs.concat();
	let bic = brotli_c(&bi);
	let (bi_off, bi_len);
	if ch.index_first && bic.len() <= index_reserved {
		out[index_slot..index_slot + bic.len()].copy_from_slice(&bic);
		bi_off = index_slot as u64;
		bi_len = bic.len() as u64;
	} else {
		bi_off = out.len() as u64;
		bi_len = bic.len() as u64;
		out.extend_from_slice(&bic);
	}
	// header
	let zmin = tiles.iter().map(|t| t.0).min().unwrap_or(0);
	let zmax = tiles.iter().map(|t| t.0).max().unwrap_or(0);
	let mut h = b"versatiles_v02".to_vec();
	h.push(vt_format_code(tf));
	h.push(match tc {
		"gzip" => 1,
		"brotli" => 2,
		_ => 0,
	});
	h.push(zmin);
	h.push(zmax);
	for v in [-1800000000i32, -850511287, 1800000000, 850511287] {
		h.extend_from_slice(&v.to_be_bytes());
	}
	for v in [meta_off, meta_len, bi_off, bi_len] {
		h.extend_from_slice(&v.to_be_bytes());
	}
	assert_eq!(h.len(), 66);
	out[..66].copy_from_slice(&h);
	out
}

// ------------------------------------------------------------------------------------------------ Hilbert (PMTiles tile ids)
/// position d on the Hilbert curve of a 2^order grid -> (x, y); written from the classic d2xy definition
pub fn hilbert_d2xy(order: u8, d: u64) -> (u32, u32) {
	let (mut x, mut y) = (0u64, 0u64);
	let mut t = d;
	let mut s = 1u64;
	while s < (1u64 << order) {
		let rx = 1 & (t / 2);
		let ry = 1 & (t ^ rx);
		if ry == 0 {
			if rx == 1 {
				x = s - 1 - x;
				y = s - 1 - y;
			}
			std::mem::swap(&mut x, &mut y);
		}
		x += s * rx;
		y += s * ry;
		t /= 4;
		s *= 2;
	}
	(x as u32, y as u32)
}
pub fn hilbert_xy2d(order: u8, x: u32, y: u32) -> u64 {
	let (mut x, mut y) = (x as u64, y as u64);
	let mut d = 0u64;
	let n = 1u64 << order;
	let mut s = n / 2;
	while s > 0 {
		let rx = ((x & s) > 0) as u64;
		let ry = ((y & s) > 0) as u64;
		d += s * s * ((3 * rx) ^ ry);
		if ry == 0 {
			if rx == 1 {
				x = n - 1 - x;
				y = n - 1 - y;
			}
			std::mem::swap(&mut x, &mut y);
		}
		s /= 2;
	}
	d
}
fn level_base(z: u8) -> u64 {
	// number of tiles on all levels below z: (4^z - 1) / 3
	((1u128 << (2 * z as u32)) as u128 / 3) as u64
}
pub fn tile_id(z: u8, x: u32, y: u32) -> u64 {
	level_base(z) + hilbert_xy2d(z, x, y)
}
pub fn tile_of_id(id: u64) -> (u8, u32, u32) {
	let mut z = 0u8;
	while z < 31 && level_base(z + 1) <= id {
		z += 1;
	}
	let (x, y) = hilbert_d2xy(z, id - level_base(z));
	(z, x, y)
}

// ------------------------------------------------------------------------------------------------ PMTiles v3
fn pm_codec(c: u8) -> Option<&'static str> {
	Some(match c {
		1 => "none",
		2 => "gzip",
		3 => "brotli",
		_ => return None,
	})
}
fn pm_type(c: u8) -> Option<&'static str> {
	Some(match c {
		0 => "bin",
		1 => "pbf",
		2 => "png",
		3 => "jpg",
		4 => "webp",
		5 => "avif",
		_ => return None,
	})
}
#[derive(Clone, Debug)]
pub struct PmEntry {
	pub id: u64,
	pub run: u32,
	pub len: u64,
	pub off: u64,
}
fn pm_parse_dir(b: &[u8]) -> Result<Vec<PmEntry>, String> {
	let mut r = Rd::new(b);
	let n = r.varint()? as usize;
	if n > b.len() {
		return Err("directory entry count exceeds directory size".into());
	}
	let mut es = vec![PmEntry { id: 0, run: 0, len: 0, off: 0 }; n];
	let mut last = 0u64;
	for e in es.iter_mut() {
		last += r.varint()?;
		e.id = last;
	}
	for e in es.iter_mut() {
		e.run = r.varint()? as u32;
	}
	for e in es.iter_mut() {
		e.len = r.varint()?;
	}
	for i in 0..n {
		let v = r.varint()?;
		es[i].off = if v == 0 && i > 0 { es[i - 1].off + es[i - 1].len } else { v.checked_sub(1).ok_or("offset 0 in first entry")? };
	}
	Ok(es)
}
fn pm_write_dir(es: &[PmEntry]) -> Vec<u8> {
	let mut v = vec![];
	put_varint(&mut v, es.len() as u64);
	let mut last = 0;
	for e in es {
		put_varint(&mut v, e.id - last);
		last = e.id;
	}
	for e in es {
		put_varint(&mut v, e.run as u64);
	}
	for e in es {
		put_varint(&mut v, e.len);
	}
	for (i, e) in es.iter().enumerate() {
		if i > 0 && e.off == es[i - 1].off + es[i - 1].len {
			put_varint(&mut v, 0);
		} else {
			put_varint(&mut v, e.off + 1);
		}
	}
	v
}

pub fn decode_pmtiles(b: &[u8]) -> Decoded {
	let r = (|| -> Result<Decoded, String> {
		let mut h = Rd::new(slice(b, 0, 127)?);
		if h.take(7)? != b"PMTiles" {
			return Err("bad magic".into());
		}
		if h.u8()? != 3 {
			return Err("not version 3".into());
		}
		let (root_off, root_len, meta_off, meta_len, leaf_off, leaf_len, data_off, data_len) =
			(h.le64()?, h.le64()?, h.le64()?, h.le64()?, h.le64()?, h.le64()?, h.le64()?, h.le64()?);
		let (n_addr, n_entries, n_contents) = (h.le64()?, h.le64()?, h.le64()?);
		let clustered = h.u8()?;
		let ic = pm_codec(h.u8()?).ok_or("bad internal compression")?;
		let tc = pm_codec(h.u8()?).ok_or("bad tile compression")?;
		let tf = pm_type(h.u8()?).ok_or("bad tile type")?;
		let (zmin, zmax) = (h.u8()?, h.u8()?);
		let bounds: Vec<i64> = (0..4).map(|_| h.le32i().map(|v| v as i64)).collect::<Result<_, _>>()?;
		let meta = if meta_len > 0 { Some(decode(ic, slice(b, meta_off, meta_len)?)?) } else { None };
		let leaves = slice(b, leaf_off, leaf_len)?;
		let data = slice(b, data_off, data_len)?;
		let mut tiles = vec![];
		let mut tile_entries: Vec<PmEntry> = vec![];
		let mut sorted = true;
		let mut leaf_inside = true;
		let mut depth_max = 0;
		// iterative walk of the directory tree
		let mut stack = vec![(decode(ic, slice(b, root_off, root_len)?)?, 0usize)];
		while let Some((dir, depth)) = stack.pop() {
			if depth > 3 {
				return Err("directory tree deeper than 4 levels".into());
			}
			depth_max = depth_max.max(depth);
			let es = pm_parse_dir(&dir)?;
			if es.windows(2).any(|w| w[0].id >= w[1].id) {
				sorted = false;
			}
			for e in es {
				if e.run == 0 {
					if e.off + e.len > leaf_len {
						leaf_inside = false;
					}
					stack.push((decode(ic, slice(leaves, e.off, e.len)?)?, depth + 1));
				} else {
					let blob = slice(data, e.off, e.len)?;
					for k in 0..e.run as u64 {
						let (z, x, y) = tile_of_id(e.id + k);
						tiles.push((z, x, y, blob.to_vec()));
					}
					tile_entries.push(e);
				}
			}
		}
		tile_entries.sort_by_key(|e| e.id);
		// "clustered" as published: in tile-id order every entry is either contiguous with the data written so far, or points
		// back into data that is already there (de-duplication)
		let offsets_ascending = {
			let mut end = tile_entries.first().map(|e| e.off).unwrap_or(0);
			let mut ok = true;
			for e in &tile_entries {
				if e.off == end {
					end = e.off + e.len;
				} else if e.off + e.len > end {
					ok = false;
				}
			}
			ok
		};
		let addressed: u64 = tile_entries.iter().map(|e| e.run as u64).sum();
		let contents = tile_entries.iter().map(|e| e.off).collect::<std::collections::BTreeSet<_>>().len();
		let layout = json!({"fmt":"pmtiles","filelen":b.len(),"root":[root_off,root_len],"meta":[meta_off,meta_len],
			"leaves":[leaf_off,leaf_len],"data":[data_off,data_len],"clustered":clustered,"internal":ic,
			"zmin":zmin,"zmax":zmax,"bounds_e7":bounds,
			"n_addressed":n_addr,"n_entries":n_entries,"n_contents":n_contents,
			"count_addressed":addressed,"count_entries":tile_entries.len(),"count_contents":contents,
			"dirs_sorted":sorted as u8,"leaf_ptrs_inside":leaf_inside as u8,"offsets_ascending_by_id":offsets_ascending as u8,
			"depth":depth_max});
		Ok(Decoded { ok: true, err: String::new(), tf: tf.into(), tc: tc.into(), tiles, meta, layout })
	})();
	r.unwrap_or_else(Decoded::fail)
}

#[derive(Clone, Debug)]
pub struct PmChoices {
	pub run_lengths: bool,  // consecutive ids with identical content become one entry with run_length > 1
	pub share: bool,        // identical content stored once (shared offsets)
	pub leaf_levels: u8,    // 0 = root only, 1 = root -> leaves, 2 = root -> leaves -> leaves
	pub leaf_size: usize,   // entries per leaf directory
	pub mixed_root: bool,   // root holds the first few tile entries directly, then leaf pointers
	pub internal: &'static str, // "none" | "gzip"
	pub unclustered: bool,  // tile data written in reverse id order
	pub type_unknown: bool, // header tile type 0
}

pub fn encode_pmtiles(tf: &str, tc: &str, tiles: &[Tile], meta: Option<&[u8]>, ch: &PmChoices) -> Vec<u8> {
	let mut ts: Vec<(u64, &Tile)> = tiles.iter().map(|t| (tile_id(t.0, t.1, t.2), t)).collect();
	ts.sort_by_key(|t| t.0);
	// tile data section
	let mut data: Vec<u8> = vec![];
	let mut seen: std::collections::HashMap<&[u8], u64> = std::collections::HashMap::new();
	let mut offs: Vec<u64> = vec![0; ts.len()];
	let order: Vec<usize> = if ch.unclustered { (0..ts.len()).rev().collect() } else { (0..ts.len()).collect() };
	for i in order {
		let blob = ts[i].1 .3.as_slice();
		if ch.share {
			if let Some(o) = seen.get(blob) {
				offs[i] = *o;
				continue;
			}
		}
		offs[i] = data.len() as u64;
		seen.insert(blob, offs[i]);
		data.extend_from_slice(blob);
	}
	let mut entries: Vec<PmEntry> = vec![];
	for (i, (id, t)) in ts.iter().enumerate() {
		if ch.run_lengths {
			if let Some(last) = entries.last_mut() {
				if last.id + last.run as u64 == *id && last.off == offs[i] && last.len == t.3.len() as u64 {
					last.run += 1;
					continue;
				}
			}
		}
		entries.push(PmEntry { id: *id, run: 1, len: t.3.len() as u64, off: offs[i] });
	}
	let n_entries = entries.len();
	// directories
	let enc_dir = |es: &[PmEntry]| encode(ch.internal, &pm_write_dir(es));
	let mut leaves: Vec<u8> = vec![];
	let mut root_entries: Vec<PmEntry>;
	if ch.leaf_levels == 0 {
		root_entries = entries.clone();
	} else {
		let head = if ch.mixed_root { entries.len().min(2) } else { 0 };
		root_entries = entries[..head].to_vec();
		let mut level: Vec<PmEntry> = vec![];
		for chunk in entries[head..].chunks(ch.leaf_size.max(1)) {
			let d = enc_dir(chunk);
			level.push(PmEntry { id: chunk[0].id, run: 0, len: d.len() as u64, off: leaves.len() as u64 });
			leaves.extend_from_slice(&d);
		}
		if ch.leaf_levels >= 2 {
			let mut upper = vec![];
			for chunk in level.chunks(2) {
				let d = enc_dir(chunk);
				upper.push(PmEntry { id: chunk[0].id, run: 0, len: d.len() as u64, off: leaves.len() as u64 });
				leaves.extend_from_slice(&d);
			}
			level = upper;
		}
		root_entries.extend(level);
	}
	let root = enc_dir(&root_entries);
	assert!(127 + root.len() <= 16384, "root directory does not fit the first 16 KiB; use leaves");
	let metab = encode(ch.internal, meta.unwrap_or(b"{}"));
	// file: header | root | metadata | leaves | data
	let root_off = 127u64;
	let meta_off = root_off + root.len() as u64;
	let leaf_off = meta_off + metab.len() as u64;
	let data_off = leaf_off + leaves.len() as u64;
	let mut h = b"PMTiles".to_vec();
	h.push(3);
	for v in [root_off, root.len() as u64, meta_off, metab.len() as u64, leaf_off, leaves.len() as u64, data_off, data.len() as u64, ts.len() as u64, n_entries as u64, seen.len().max(if ch.share { 0 } else { ts.len() }) as u64] {
		h.extend_from_slice(&v.to_le_bytes());
	}
	h.push((!ch.unclustered) as u8);
	h.push(if ch.internal == "gzip" { 2 } else { 1 });
	h.push(match tc {
		"gzip" => 2,
		"brotli" => 3,
		_ => 1,
	});
	h.push(if ch.type_unknown {
		0
	} else {
		match tf {
			"pbf" => 1,
			"png" => 2,
			"jpg" => 3,
			"webp" => 4,
			"avif" => 5,
			_ => 0,
		}
	});
	h.push(tiles.iter().map(|t| t.0).min().unwrap_or(0));
	h.push(tiles.iter().map(|t| t.0).max().unwrap_or(0));
	for v in [-1800000000i32, -850511287, 1800000000, 850511287] {
		h.extend_from_slice(&v.to_le_bytes());
	}
	h.push(0);
	for v in [0i32, 0] {
		h.extend_from_slice(&v.to_le_bytes());
	}
	assert_eq!(h.len(), 127);
	let mut out = h;
	out.extend_from_slice(&root);
	out.extend_from_slice(&metab);
	out.extend_from_slice(&leaves);
	out.extend_from_slice(&data);
	out
}

// ------------------------------------------------------------------------------------------------ MBTiles
pub fn decode_mbtiles(path: &Path) -> Decoded {
	let r = (|| -> Result<Decoded, String> {
		let conn = rusqlite::Connection::open_with_flags(path, rusqlite::OpenFlags::SQLITE_OPEN_READ_ONLY).map_err(|e| e.to_string())?;
		let mut fmt = String::new();
		let mut metadata = serde_json::Map::new();
		{
			let mut st = conn.prepare("SELECT name, value FROM metadata").map_err(|e| e.to_string())?;
			let rows = st.query_map([], |r| Ok((r.get::<_, String>(0)?, r.get::<_, String>(1)?))).map_err(|e| e.to_string())?;
			for row in rows {
				let (k, v) = row.map_err(|e| e.to_string())?;
				if k == "format" {
					fmt = v.clone();
				}
				metadata.insert(k, json!(v));
			}
		}
		let (tf, tc) = match fmt.as_str() {
			"pbf" => ("pbf", "gzip"),
			"png" => ("png", "none"),
			"jpg" => ("jpg", "none"),
			"webp" => ("webp", "none"),
			x => return Err(format!("metadata format {x:?}")),
		};
		let mut tiles = vec![];
		let mut st = conn.prepare("SELECT zoom_level, tile_column, tile_row, tile_data FROM tiles").map_err(|e| e.to_string())?;
		let rows = st
			.query_map([], |r| Ok((r.get::<_, i64>(0)?, r.get::<_, i64>(1)?, r.get::<_, i64>(2)?, r.get::<_, Vec<u8>>(3)?)))
			.map_err(|e| e.to_string())?;
		let mut rows_valid = true;
		for row in rows {
			let (z, c, rr, d) = row.map_err(|e| e.to_string())?;
			if !(0..=31).contains(&z) || c < 0 || rr < 0 || c >= (1i64 << z) || rr >= (1i64 << z) {
				rows_valid = false;
				continue;
			}
			tiles.push((z as u8, c as u32, ((1i64 << z) - 1 - rr) as u32, d));
		}
		let layout = json!({"fmt":"mbtiles","rows_valid":rows_valid as u8,"metadata":metadata});
		Ok(Decoded { ok: true, err: String::new(), tf: tf.into(), tc: tc.into(), tiles, meta: None, layout })
	})();
	r.unwrap_or_else(Decoded::fail)
}

#[derive(Clone, Debug)]
pub struct MbChoices {
	pub as_view: bool,       // `tiles` is a view over map/images tables
	pub extra_metadata: bool,
	pub without_index: bool,
}
pub fn encode_mbtiles(path: &Path, tf: &str, tiles: &[Tile], ch: &MbChoices) {
	let _ = std::fs::remove_file(path);
	let conn = rusqlite::Connection::open(path).unwrap();
	conn.execute_batch("CREATE TABLE metadata (name TEXT, value TEXT);").unwrap();
	if ch.as_view {
		conn.execute_batch(
			"CREATE TABLE map (zoom_level INTEGER, tile_column INTEGER, tile_row INTEGER, tile_id TEXT);
			 CREATE TABLE images (tile_data BLOB, tile_id TEXT);
			 CREATE VIEW tiles AS SELECT map.zoom_level AS zoom_level, map.tile_column AS tile_column, map.tile_row AS tile_row,
			   images.tile_data AS tile_data FROM map JOIN images ON images.tile_id = map.tile_id;",
		)
		.unwrap();
	} else {
		conn.execute_batch("CREATE TABLE tiles (zoom_level INTEGER, tile_column INTEGER, tile_row INTEGER, tile_data BLOB);").unwrap();
		if !ch.without_index {
			conn.execute_batch("CREATE UNIQUE INDEX tile_index on tiles (zoom_level, tile_column, tile_row);").unwrap();
		}
	}
	conn.execute("INSERT INTO metadata VALUES ('format', ?1)", [tf]).unwrap();
	conn.execute("INSERT INTO metadata VALUES ('name', 'indep')", []).unwrap();
	if ch.extra_metadata {
		conn.execute("INSERT INTO metadata VALUES ('generator', 'vharness')", []).unwrap();
		conn.execute("INSERT INTO metadata VALUES ('scheme', 'tms')", []).unwrap();
	}
	conn.execute_batch("BEGIN").unwrap();
	for (i, t) in tiles.iter().enumerate() {
		let row = (1i64 << t.0) - 1 - t.2 as i64;
		if ch.as_view {
			let id = format!("t{i}");
			conn.execute("INSERT INTO map VALUES (?1, ?2, ?3, ?4)", rusqlite::params![t.0, t.1, row, id]).unwrap();
			conn.execute("INSERT INTO images VALUES (?1, ?2)", rusqlite::params![t.3, id]).unwrap();
		} else {
			conn.execute("INSERT INTO tiles VALUES (?1, ?2, ?3, ?4)", rusqlite::params![t.0, t.1, row, t.3]).unwrap();
		}
	}
	conn.execute_batch("COMMIT").unwrap();
}

// ------------------------------------------------------------------------------------------------ tar / directory
fn split_name(name: &str) -> Option<(String, String, String)> {
	// "<y>.<fmt>[.<gz|br>]" -> (y, fmt, codec)
	let mut parts: Vec<&str> = name.split('.').collect();
	if parts.len() < 2 {
		return None;
	}
	let mut tc = "none";
	match *parts.last().unwrap() {
		"gz" => {
			tc = "gzip";
			parts.pop();
		}
		"br" => {
			tc = "brotli";
			parts.pop();
		}
		_ => {}
	}
	if parts.len() != 2 {
		return None;
	}
	Some((parts[0].to_string(), parts[1].to_string(), tc.to_string()))
}
fn parse_tile_path(p: &str) -> Option<(u8, u32, u32, String, String)> {
	let p = p.strip_prefix("./").unwrap_or(p);
	let seg: Vec<&str> = p.split('/').collect();
	if seg.len() != 3 {
		return None;
	}
	let (y, tf, tc) = split_name(seg[2])?;
	Some((seg[0].parse().ok()?, seg[1].parse().ok()?, y.parse().ok()?, tf, tc))
}
fn meta_codec(name: &str) -> Option<&'static str> {
	let n = name.strip_prefix("./").unwrap_or(name);
	for base in ["tiles.json", "meta.json", "metadata.json"] {
		if n == base {
			return Some("none");
		}
		if n == format!("{base}.gz") {
			return Some("gzip");
		}
		if n == format!("{base}.br") {
			return Some("brotli");
		}
	}
	None
}
fn collect_named(files: Vec<(String, Vec<u8>)>, kind: &str) -> Decoded {
	let mut tiles = vec![];
	let mut tf: Option<String> = None;
	let mut tc: Option<String> = None;
	let mut meta = None;
	let mut consistent = true;
	let mut unknown = vec![];
	for (name, data) in files {
		if let Some((z, x, y, f, c)) = parse_tile_path(&name) {
			if tf.is_some() && (tf.as_deref() != Some(f.as_str()) || tc.as_deref() != Some(c.as_str())) {
				consistent = false;
			}
			tf = Some(f);
			tc = Some(c);
			tiles.push((z, x, y, data));
		} else if let Some(c) = meta_codec(&name) {
			meta = decode(c, &data).ok();
		} else {
			unknown.push(name);
		}
	}
	if tiles.is_empty() {
		return Decoded::fail("no tiles");
	}
	Decoded { ok: true, err: String::new(), tf: tf.unwrap(), tc: tc.unwrap(), tiles, meta, layout: json!({"fmt":kind,"consistent":consistent as u8,"unknown_members":unknown}) }
}

pub fn decode_tar(b: &[u8]) -> Decoded {
	let mut files = vec![];
	let mut p = 0usize;
	let mut longname: Option<String> = None;
	while p + 512 <= b.len() {
		let h = &b[p..p + 512];
		if h.iter().all(|x| *x == 0) {
			break;
		}
		let cstr = |s: &[u8]| String::from_utf8_lossy(&s[..s.iter().position(|c| *c == 0).unwrap_or(s.len())]).to_string();
		let size = match u64::from_str_radix(cstr(&h[124..136]).trim(), 8) {
			Ok(s) => s as usize,
			Err(_) => return Decoded::fail("bad size field"),
		};
		let typeflag = h[156];
		let mut name = cstr(&h[0..100]);
		if &h[257..262] == b"ustar" {
			let prefix = cstr(&h[345..500]);
			if !prefix.is_empty() && h[263] == b'0' {
				name = format!("{prefix}/{name}");
			}
		}
		let data_start = p + 512;
		if data_start + size > b.len() {
			return Decoded::fail("member beyond end of archive");
		}
		let data = &b[data_start..data_start + size];
		if typeflag == b'L' {
			longname = Some(cstr(data));
		} else {
			if let Some(l) = longname.take() {
				name = l;
			}
			if typeflag == b'0' || typeflag == 0 {
				files.push((name, data.to_vec()));
			}
		}
		p = data_start + size.div_ceil(512) * 512;
	}
	collect_named(files, "tar")
}

#[derive(Clone, Debug)]
pub struct TarChoices {
	pub dot_prefix: bool,   // "./z/x/y"
	pub dir_members: bool,  // explicit directory members
	pub ustar: bool,        // plain ustar header instead of gnu
	pub reverse: bool,      // members in reverse order, metadata last
	pub meta_name: &'static str,
}
fn tar_header(name: &str, size: usize, typeflag: u8, ustar: bool) -> Vec<u8> {
	let mut h = vec![0u8; 512];
	h[..name.len()].copy_from_slice(name.as_bytes());
	h[100..107].copy_from_slice(b"0000644");
	h[108..115].copy_from_slice(b"0000000");
	h[116..123].copy_from_slice(b"0000000");
	h[124..135].copy_from_slice(format!("{:011o}", size).as_bytes());
	h[136..147].copy_from_slice(b"00000000000");
	h[156] = typeflag;
	if ustar {
		h[257..263].copy_from_slice(b"ustar\0");
		h[263..265].copy_from_slice(b"00");
	} else {
		h[257..265].copy_from_slice(b"ustar  \0");
	}
	for c in h[148..156].iter_mut() {
		*c = b' ';
	}
	let sum: u32 = h.iter().map(|x| *x as u32).sum();
	h[148..155].copy_from_slice(format!("{:06o}\0", sum).as_bytes());
	h
}
pub fn encode_tar(tf: &str, tc: &str, tiles: &[Tile], meta: Option<&[u8]>, ch: &TarChoices) -> Vec<u8> {
	let ext = match tc {
		"gzip" => ".gz",
		"brotli" => ".br",
		_ => "",
	};
	let mut members: Vec<(String, Vec<u8>, u8)> = vec![];
	if let Some(m) = meta {
		members.push((format!("{}{}", ch.meta_name, ext), encode(tc, m), b'0'));
	}
	let mut dirs = std::collections::BTreeSet::new();
	for t in tiles {
		let pre = if ch.dot_prefix { "./" } else { "" };
		if ch.dir_members {
			for d in [format!("{pre}{}/", t.0), format!("{pre}{}/{}/", t.0, t.1)] {
				if dirs.insert(d.clone()) {
					members.push((d, vec![], b'5'));
				}
			}
		}
		members.push((format!("{pre}{}/{}/{}.{tf}{ext}", t.0, t.1, t.2), t.3.clone(), b'0'));
	}
	if ch.reverse {
		// directories must still precede nothing in particular: order is free in tar
		members.reverse();
	}
	let mut out = vec![];
	for (name, data, flag) in members {
		out.extend_from_slice(&tar_header(&name, data.len(), flag, ch.ustar));
		out.extend_from_slice(&data);
		out.extend(std::iter::repeat(0).take((512 - data.len() % 512) % 512));
	}
	out.extend(std::iter::repeat(0).take(1024));
	out
}

pub fn decode_dir(root: &Path) -> Decoded {
	let mut files = vec![];
	fn walk(base: &Path, p: &Path, out: &mut Vec<(String, Vec<u8>)>) {
		if let Ok(rd) = std::fs::read_dir(p) {
			for e in rd.flatten() {
				let path = e.path();
				if path.is_dir() {
					walk(base, &path, out);
				} else {
					let rel = path.strip_prefix(base).unwrap().to_string_lossy().to_string();
					out.push((rel, std::fs::read(&path).unwrap_or_default()));
				}
			}
		}
	}
	walk(root, root, &mut files);
	collect_named(files, "directory")
}
pub fn encode_dir(root: &Path, tf: &str, tc: &str, tiles: &[Tile], meta: Option<&[u8]>, extra_files: bool) {
	let _ = std::fs::remove_dir_all(root);
	std::fs::create_dir_all(root).unwrap();
	let ext = match tc {
		"gzip" => ".gz",
		"brotli" => ".br",
		_ => "",
	};
	if let Some(m) = meta {
		std::fs::write(root.join(format!("tiles.json{ext}")), encode(tc, m)).unwrap();
	}
	for t in tiles {
		let d = root.join(t.0.to_string()).join(t.1.to_string());
		std::fs::create_dir_all(&d).unwrap();
		std::fs::write(d.join(format!("{}.{tf}{ext}", t.2)), &t.3).unwrap();
	}
	if extra_files {
		std::fs::write(root.join(".DS_Store"), b"x").unwrap();
		std::fs::write(root.join("README.txt"), b"hello").unwrap();
		let t = &tiles[0];
		std::fs::write(root.join(t.0.to_string()).join(t.1.to_string()).join("notes.txt"), b"n").unwrap();
	}
}
