//! Independent Mapbox-vector-tile encoder / decoder (own protobuf wire code, written from the MVT 2.1 spec).
//! Semantic view (JSON): tile = [layer], layer = {name, extent, version, feats:[feature]},
//! feature = {id: "none"|decimal string, gt, geom: int id, props: [[key, [type, text]]] sorted by key}.
use serde_json::{json, Value};

fn put_varint(v: &mut Vec<u8>, mut n: u64) {
	loop {
		let b = (n & 0x7f) as u8;
		n >>= 7;
		if n == 0 {
			v.push(b);
			return;
		}
		v.push(b | 0x80);
	}
}
fn key(v: &mut Vec<u8>, field: u32, wire: u32) {
	put_varint(v, ((field << 3) | wire) as u64);
}
fn bytes_field(v: &mut Vec<u8>, field: u32, b: &[u8]) {
	key(v, field, 2);
	put_varint(v, b.len() as u64);
	v.extend_from_slice(b);
}
fn zigzag(n: i64) -> u64 {
	((n << 1) ^ (n >> 63)) as u64
}

/// geometry bytes for a geometry id: a valid point command sequence whose coordinates encode the id
pub fn geom_bytes(id: u64) -> Vec<u8> {
	let mut g = vec![];
	put_varint(&mut g, (1 << 3) | 1); // MoveTo, count 1
	put_varint(&mut g, zigzag(id as i64 * 3 + 1));
	put_varint(&mut g, zigzag(-(id as i64) - 2));
	g
}

/// typed value [type, text] -> Value message. `alt` selects an alternative wire type for integers.
fn value_msg(tv: &Value, alt: bool) -> Vec<u8> {
	let (t, s) = (tv[0].as_str().unwrap(), tv[1].as_str().unwrap());
	let mut v = vec![];
	match t {
		"s" => bytes_field(&mut v, 1, s.as_bytes()),
		"f" => {
			key(&mut v, 2, 5);
			v.extend_from_slice(&s.parse::<f32>().unwrap().to_le_bytes());
		}
		"d" => {
			key(&mut v, 3, 1);
			v.extend_from_slice(&s.parse::<f64>().unwrap().to_le_bytes());
		}
		"n" => {
			// the same NUMBER in one of the three integer wire types
			if s.starts_with('-') {
				let n: i64 = s.parse().unwrap();
				if alt {
					key(&mut v, 4, 0);
					put_varint(&mut v, n as u64);
				} else {
					key(&mut v, 6, 0);
					put_varint(&mut v, zigzag(n));
				}
			} else {
				let n: u64 = s.parse().unwrap();
				if alt && n <= i64::MAX as u64 {
					key(&mut v, 4, 0);
					put_varint(&mut v, n);
				} else {
					key(&mut v, 5, 0);
					put_varint(&mut v, n);
				}
			}
		}
		"b" => {
			key(&mut v, 7, 0);
			put_varint(&mut v, (s == "1") as u64);
		}
		x => panic!("value type {x}"),
	}
	v
}

/// encoding variant of the key/value tables of a layer:
/// 0 minimal tables in first-use order; 1 reversed order; 2 duplicates of every entry (tags use the LAST copy);
/// 3 unused entries in front; 4 alternative integer wire types + duplicates + unused
pub fn encode_tile(tile: &Value, variant: u64) -> Vec<u8> {
	let mut out = vec![];
	for layer in tile.as_array().unwrap() {
		let mut keys: Vec<String> = vec![];
		let mut vals: Vec<Value> = vec![];
		for f in layer["feats"].as_array().unwrap() {
			for p in f["props"].as_array().unwrap() {
				let k = p[0].as_str().unwrap().to_string();
				if !keys.contains(&k) {
					keys.push(k);
				}
				if !vals.contains(&p[1]) {
					vals.push(p[1].clone());
				}
			}
		}
		if variant == 1 {
			keys.reverse();
			vals.reverse();
		}
		let mut ktab: Vec<String> = keys.clone();
		let mut vtab: Vec<Value> = vals.clone();
		if variant == 2 || variant == 4 {
			ktab.extend(keys.clone());
			vtab.extend(vals.clone());
		}
		if variant == 3 || variant == 4 {
			ktab.insert(0, "unused_key".to_string());
			vtab.insert(0, json!(["s", "unused value"]));
		}
		let kidx = |k: &str| ktab.iter().rposition(|x| x == k).unwrap() as u32;
		let vidx = |v: &Value| vtab.iter().rposition(|x| x == v).unwrap() as u32;
		let mut l = vec![];
		// version first (field 15), then name, features, keys, values, extent — field order is free in protobuf
		if layer["version"].as_u64().unwrap() != 1 || variant >= 3 {
			key(&mut l, 15, 0);
			put_varint(&mut l, layer["version"].as_u64().unwrap());
		}
		bytes_field(&mut l, 1, layer["name"].as_str().unwrap().as_bytes());
		for f in layer["feats"].as_array().unwrap() {
			let mut fb = vec![];
			if f["id"].as_str().unwrap() != "none" {
				key(&mut fb, 1, 0);
				put_varint(&mut fb, f["id"].as_str().unwrap().parse::<u64>().unwrap());
			}
			let mut tags = vec![];
			for p in f["props"].as_array().unwrap() {
				put_varint(&mut tags, kidx(p[0].as_str().unwrap()) as u64);
				put_varint(&mut tags, vidx(&p[1]) as u64);
			}
			if !tags.is_empty() {
				bytes_field(&mut fb, 2, &tags);
			}
			key(&mut fb, 3, 0);
			put_varint(&mut fb, f["gt"].as_u64().unwrap());
			bytes_field(&mut fb, 4, &geom_bytes(f["geom"].as_u64().unwrap()));
			bytes_field(&mut l, 2, &fb);
		}
		for k in &ktab {
			bytes_field(&mut l, 3, k.as_bytes());
		}
		for v in &vtab {
			bytes_field(&mut l, 4, &value_msg(v, variant == 4));
		}
		if layer["extent"].as_u64().unwrap() != 4096 || variant >= 3 {
			key(&mut l, 5, 0);
			put_varint(&mut l, layer["extent"].as_u64().unwrap());
		}
		bytes_field(&mut out, 3, &l);
	}
	out
}

// -------------------------------------------------------------------------------------------- decoder
struct Rd<'a> {
	b: &'a [u8],
	p: usize,
}
impl<'a> Rd<'a> {
	fn more(&self) -> bool {
		self.p < self.b.len()
	}
	fn varint(&mut self) -> Result<u64, String> {
		let mut v = 0u64;
		let mut shift = 0;
		loop {
			if self.p >= self.b.len() || shift > 63 {
				return Err("bad varint".into());
			}
			let b = self.b[self.p];
			self.p += 1;
			v |= ((b & 0x7f) as u64) << shift;
			if b & 0x80 == 0 {
				return Ok(v);
			}
			shift += 7;
		}
	}
	fn bytes(&mut self) -> Result<&'a [u8], String> {
		let n = self.varint()? as usize;
		if self.p + n > self.b.len() {
			return Err("length beyond buffer".into());
		}
		let s = &self.b[self.p..self.p + n];
		self.p += n;
		Ok(s)
	}
	fn fixed(&mut self, n: usize) -> Result<&'a [u8], String> {
		if self.p + n > self.b.len() {
			return Err("fixed beyond buffer".into());
		}
		let s = &self.b[self.p..self.p + n];
		self.p += n;
		Ok(s)
	}
	fn skip(&mut self, wire: u64) -> Result<(), String> {
		match wire {
			0 => self.varint().map(|_| ()),
			1 => self.fixed(8).map(|_| ()),
			2 => self.bytes().map(|_| ()),
			5 => self.fixed(4).map(|_| ()),
			_ => Err("wire type".into()),
		}
	}
}
fn unzig(n: u64) -> i64 {
	((n >> 1) as i64) ^ -((n & 1) as i64)
}
fn geom_id(b: &[u8]) -> i64 {
	// inverse of geom_bytes; -1 if the bytes are not one of ours
	let mut r = Rd { b, p: 0 };
	let (Ok(c), Ok(x), Ok(y)) = (r.varint(), r.varint(), r.varint()) else { return -1 };
	if c != 9 || r.more() {
		return -1;
	}
	let (x, y) = (unzig(x), unzig(y));
	if (x - 1) % 3 != 0 || -(y + 2) != (x - 1) / 3 {
		return -1;
	}
	(x - 1) / 3
}
fn decode_value(b: &[u8]) -> Result<Value, String> {
	let mut r = Rd { b, p: 0 };
	let mut out = None;
	while r.more() {
		let k = r.varint()?;
		let (f, w) = (k >> 3, k & 7);
		out = Some(match (f, w) {
			(1, 2) => json!(["s", String::from_utf8(r.bytes()?.to_vec()).map_err(|_| "utf8")?]),
			(2, 5) => json!(["f", f32::from_le_bytes(r.fixed(4)?.try_into().unwrap()).to_string()]),
			(3, 1) => json!(["d", f64::from_le_bytes(r.fixed(8)?.try_into().unwrap()).to_string()]),
			(4, 0) => json!(["n", (r.varint()? as i64).to_string()]),
			(5, 0) => json!(["n", r.varint()?.to_string()]),
			(6, 0) => json!(["n", unzig(r.varint()?).to_string()]),
			(7, 0) => json!(["b", if r.varint()? != 0 { "1" } else { "0" }]),
			_ => {
				r.skip(w)?;
				continue;
			}
		});
	}
	out.ok_or("empty value".into())
}

/// bytes -> semantic view; Err on anything that is not a valid tile
pub fn decode_tile(b: &[u8]) -> Result<Value, String> {
	let mut r = Rd { b, p: 0 };
	let mut layers = vec![];
	while r.more() {
		let k = r.varint()?;
		if (k >> 3, k & 7) != (3, 2) {
			r.skip(k & 7)?;
			continue;
		}
		let lb = r.bytes()?;
		let mut lr = Rd { b: lb, p: 0 };
		let (mut name, mut extent, mut version) = (None, 4096u64, 1u64);
		let (mut keys, mut vals, mut feats_raw): (Vec<String>, Vec<Value>, Vec<&[u8]>) = (vec![], vec![], vec![]);
		while lr.more() {
			let k = lr.varint()?;
			match (k >> 3, k & 7) {
				(1, 2) => name = Some(String::from_utf8(lr.bytes()?.to_vec()).map_err(|_| "utf8")?),
				(2, 2) => feats_raw.push(lr.bytes()?),
				(3, 2) => keys.push(String::from_utf8(lr.bytes()?.to_vec()).map_err(|_| "utf8")?),
				(4, 2) => vals.push(decode_value(lr.bytes()?)?),
				(5, 0) => extent = lr.varint()?,
				(15, 0) => version = lr.varint()?,
				(_, w) => lr.skip(w)?,
			}
		}
		let mut feats = vec![];
		for fb in feats_raw {
			let mut fr = Rd { b: fb, p: 0 };
			let (mut id, mut gt, mut geom, mut tags) = ("none".to_string(), 0u64, -1i64, vec![]);
			while fr.more() {
				let k = fr.varint()?;
				match (k >> 3, k & 7) {
					(1, 0) => id = fr.varint()?.to_string(),
					(2, 2) => {
						let tb = fr.bytes()?;
						let mut tr = Rd { b: tb, p: 0 };
						while tr.more() {
							tags.push(tr.varint()?);
						}
					}
					(3, 0) => gt = fr.varint()?,
					(4, 2) => geom = geom_id(fr.bytes()?),
					(_, w) => fr.skip(w)?,
				}
			}
			if tags.len() % 2 != 0 {
				return Err("odd tag count".into());
			}
			let mut props: Vec<(String, Value)> = vec![];
			for t in tags.chunks(2) {
				let k = keys.get(t[0] as usize).ok_or("key index out of range")?;
				let v = vals.get(t[1] as usize).ok_or("value index out of range")?;
				props.retain(|p| &p.0 != k);
				props.push((k.clone(), v.clone()));
			}
			props.sort_by(|a, b| a.0.cmp(&b.0));
			feats.push(json!({"id": id, "gt": gt, "geom": geom, "props": props.iter().map(|p| json!([p.0, p.1])).collect::<Vec<_>>()}));
		}
		layers.push(json!({"name": name.ok_or("layer without name")?, "extent": extent, "version": version, "feats": feats}));
	}
	Ok(json!(layers))
}
