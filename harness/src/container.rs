//! Container family (C01, C02, C03, C16): one observed CASE per source tile set.
//! The harness writes the source with the REAL writer (origin "writer") or with the independent
//! encoder (origin "indep"), decodes the file with the independent decoder, opens it with the REAL
//! reader and records lookups / streams / coverage. spec/trace/Trace_Container.tla judges.
use crate::indep::{self, Tile};
use crate::mem::*;
use crate::util::*;
use serde_json::{json, Value};
use std::collections::{BTreeMap, BTreeSet, HashMap};
use std::path::{Path, PathBuf};
use std::time::Duration;
use versatiles_container::*;
use versatiles_core::types::*;

pub const RES_NONE: i64 = 0;
pub const RES_ERR: i64 = -1;
pub const RES_UNKNOWN: i64 = -2;
pub const RES_PANIC: i64 = -3;

/// payload class of an id: (size in bytes, compressible)
pub fn class_of(case: &Value, p: u32) -> (usize, u8) {
	if let Some(c) = case.get("classes").and_then(|c| c.get(p.to_string())) {
		return (c[0].as_u64().unwrap() as usize, c[1].as_u64().unwrap() as u8);
	}
	match p % 16 {
		8 => return (300, 2),  // the payload is itself a gzip stream
		0 => return (300, 3),  // ... a brotli stream
		_ => {}
	}
	match p % 8 {
		1 => (999, 1),
		2 => (1000, 0),
		3 => (12, 1),
		4 => (1001, 1),
		5 => (40 * 1024, 0),
		6 => (5, 0),
		7 => (70 * 1024, 1),
		_ => (300, 0),
	}
}

pub struct Source {
	pub fmt: String,
	pub tf: String,
	pub tc: String,
	pub tiles: Vec<(u8, u32, u32, u32)>, // z x y p, sorted by (z, y, x)
	pub blobs: HashMap<u32, Vec<u8>>,   // p -> stored (compressed) bytes
	pub by_bytes: HashMap<Vec<u8>, u32>,
}

pub fn source_of(case: &Value) -> Source {
	let tc = case["tc"].as_str().unwrap().to_string();
	let mut tiles: Vec<(u8, u32, u32, u32)> = case["tiles"]
		.as_array()
		.unwrap()
		.iter()
		.map(|t| (t[0].as_u64().unwrap() as u8, t[1].as_u64().unwrap() as u32, t[2].as_u64().unwrap() as u32, t[3].as_u64().unwrap() as u32))
		.collect();
	tiles.sort_by_key(|t| (t.0, t.2, t.1));
	let mut blobs = HashMap::new();
	let mut by_bytes = HashMap::new();
	for t in &tiles {
		blobs.entry(t.3).or_insert_with(|| {
			let (size, compr) = class_of(case, t.3);
			let b = indep::encode(&tc, &payload_c(t.3, size, compr));
			by_bytes.insert(b.clone(), t.3);
			b
		});
	}
	Source { fmt: case["fmt"].as_str().unwrap().into(), tf: case["tf"].as_str().unwrap().into(), tc, tiles, blobs, by_bytes }
}

impl Source {
	pub fn id_of(&self, bytes: &[u8]) -> i64 {
		self.by_bytes.get(bytes).map(|p| *p as i64).unwrap_or(RES_UNKNOWN)
	}
	pub fn mem_reader(&self) -> MemReader {
		let tiles = self.tiles.iter().map(|t| (TileCoord3::new(t.1, t.2, t.0).unwrap(), Blob::from(self.blobs[&t.3].clone()))).collect();
		MemReader::new("src", TileFormat::parse_str(&self.tf).unwrap(), TileCompression::parse_str(&self.tc).unwrap(), tiles)
	}
	pub fn raw_tiles(&self) -> Vec<Tile> {
		self.tiles.iter().map(|t| (t.0, t.1, t.2, self.blobs[&t.3].clone())).collect()
	}
	pub fn tiles_json(&self) -> Value {
		json!(self.tiles.iter().map(|t| json!([t.0, t.1, t.2, t.3])).collect::<Vec<_>>())
	}
}

pub fn file_path(dir: &Path, fmt: &str, tag: &str) -> PathBuf {
	match fmt {
		"directory" => dir.join(format!("c_{tag}_dir")),
		f => dir.join(format!("c_{tag}.{f}")),
	}
}
pub fn remove_path(p: &Path) {
	if p.is_dir() {
		let _ = std::fs::remove_dir_all(p);
	} else {
		let _ = std::fs::remove_file(p);
	}
}

fn bool_of(v: &Value, k: &str) -> bool {
	v.get(k).map(|x| x.as_u64().unwrap_or(0) == 1 || x.as_bool().unwrap_or(false)).unwrap_or(false)
}

/// materialise the case's file. Returns (write_ok, error text)
pub fn produce(rt: &tokio::runtime::Runtime, case: &Value, src: &Source, path: &Path) -> (bool, String) {
	remove_path(path);
	let origin = case["origin"].as_str().unwrap_or("writer");
	if origin == "writer" {
		let mut plain = src.mem_reader();
		let mut sparse = SparseMemReader(src.mem_reader());
		let mem: &mut dyn TilesReaderTrait = if bool_of(case, "sparse") { &mut sparse } else { &mut plain };
		if src.fmt == "directory" {
			std::fs::create_dir_all(path).unwrap();
		}
		let p = path.to_str().unwrap().to_string();
		return match catch(|| rt.block_on(write_to_filename(mem, &p))) {
			Ok(Ok(())) => (true, String::new()),
			Ok(Err(e)) => (false, format!("{e:#}")),
			Err(p) => (false, format!("panic: {p}")),
		};
	}
	let ch = &case["choices"];
	let raw = src.raw_tiles();
	let meta: Option<&[u8]> = Some(br#"{"name":"indep","tilejson":"3.0.0"}"#);
	match src.fmt.as_str() {
		"versatiles" => {
			let c = indep::VtChoices {
				partial_blocks: bool_of(ch, "partial_blocks"),
				reverse_tiles: bool_of(ch, "reverse_tiles"),
				share_all: bool_of(ch, "share_all"),
				index_first: bool_of(ch, "index_first"),
				shuffle_blocks: bool_of(ch, "shuffle_blocks"),
				gap: ch.get("gap").and_then(|g| g.as_u64()).unwrap_or(0) as usize,
			};
			std::fs::write(path, indep::encode_versatiles(&src.tf, &src.tc, &raw, meta, &c)).unwrap();
		}
		"pmtiles" => {
			let c = indep::PmChoices {
				run_lengths: bool_of(ch, "run_lengths"),
				share: bool_of(ch, "share"),
				leaf_levels: ch.get("leaf_levels").and_then(|g| g.as_u64()).unwrap_or(0) as u8,
				leaf_size: ch.get("leaf_size").and_then(|g| g.as_u64()).unwrap_or(3) as usize,
				mixed_root: bool_of(ch, "mixed_root"),
				internal: if ch.get("internal").and_then(|g| g.as_str()) == Some("none") { "none" } else { "gzip" },
				unclustered: bool_of(ch, "unclustered"),
				type_unknown: bool_of(ch, "type_unknown"),
			};
			std::fs::write(path, indep::encode_pmtiles(&src.tf, &src.tc, &raw, meta, &c)).unwrap();
		}
		"mbtiles" => {
			let c = indep::MbChoices { as_view: bool_of(ch, "as_view"), extra_metadata: bool_of(ch, "extra_metadata"), without_index: bool_of(ch, "without_index") };
			indep::encode_mbtiles(path, &src.tf, &raw, &c);
		}
		"tar" => {
			let c = indep::TarChoices {
				dot_prefix: bool_of(ch, "dot_prefix"),
				dir_members: bool_of(ch, "dir_members"),
				ustar: bool_of(ch, "ustar"),
				reverse: bool_of(ch, "reverse"),
				meta_name: "tiles.json",
			};
			// members interleaved by level: the tiles of the levels take turns (round robin), so every level comes in several runs
			let raw = if bool_of(ch, "interleave") {
				let mut by_level: std::collections::BTreeMap<u8, std::collections::VecDeque<indep::Tile>> = Default::default();
				for t in raw.iter().cloned() {
					by_level.entry(t.0).or_default().push_back(t);
				}
				let mut out = vec![];
				while by_level.values().any(|q| !q.is_empty()) {
					for q in by_level.values_mut() {
						if let Some(t) = q.pop_front() {
							out.push(t);
						}
					}
				}
				out
			} else {
				raw
			};
			std::fs::write(path, indep::encode_tar(&src.tf, &src.tc, &raw, meta, &c)).unwrap();
		}
		"directory" => indep::encode_dir(path, &src.tf, &src.tc, &raw, meta, bool_of(ch, "extra_files")),
		f => panic!("format {f}"),
	}
	(true, String::new())
}

pub fn decode_file(src: &Source, path: &Path) -> Value {
	let d = match src.fmt.as_str() {
		"versatiles" => indep::decode_versatiles(&std::fs::read(path).unwrap_or_default()),
		"pmtiles" => indep::decode_pmtiles(&std::fs::read(path).unwrap_or_default()),
		"mbtiles" => indep::decode_mbtiles(path),
		"tar" => indep::decode_tar(&std::fs::read(path).unwrap_or_default()),
		_ => indep::decode_dir(path),
	};
	let mut tiles: Vec<(u8, u32, u32, i64)> = d.tiles.iter().map(|t| (t.0, t.1, t.2, src.id_of(&t.3))).collect();
	tiles.sort_by_key(|t| (t.0, t.2, t.1, t.3));
	json!({"skip":0,"ok":d.ok as u8,"err":d.err,"tf":d.tf,"tc":d.tc,
		"tiles":tiles.iter().map(|t| json!([t.0,t.1,t.2,t.3])).collect::<Vec<_>>(),"layout":d.layout,
		"meta": d.meta.map(|m| String::from_utf8_lossy(&m).to_string()).unwrap_or_default()})
}

pub fn pyramid_json(p: &TileBBoxPyramid) -> Value {
	json!(p.level_bbox.iter().filter(|b| !b.is_empty()).map(crate::c15::box_json).collect::<Vec<_>>())
}

pub fn lookup(rt: &tokio::runtime::Runtime, reader: &dyn TilesReaderTrait, src: &Source, z: u8, x: u32, y: u32) -> i64 {
	let c = TileCoord3::new(x, y, z).unwrap();
	match catch(|| rt.block_on(reader.get_tile_data(&c))) {
		Ok(Ok(Some(b))) => src.id_of(b.as_slice()),
		Ok(Ok(None)) => RES_NONE,
		Ok(Err(_)) => RES_ERR,
		Err(_) => RES_PANIC,
	}
}

pub fn stream(rt: &tokio::runtime::Runtime, reader: &dyn TilesReaderTrait, src: &Source, bbox: &TileBBox) -> Value {
	let b = bbox.clone();
	let r = catch(|| {
		rt.block_on(async {
			tokio::time::timeout(Duration::from_secs(60), async {
				let s = reader.get_bbox_tile_stream(b).await;
				s.collect().await
			})
			.await
		})
	});
	match r {
		Ok(Ok(items)) => {
			let mut v: Vec<(u8, u32, u32, i64)> = items.iter().map(|(c, blob)| (c.z, c.y, c.x, src.id_of(blob.as_slice()))).collect();
			v.sort();
			json!({"box": crate::c15::box_json(bbox), "status":"ok", "res": v.iter().map(|t| json!([t.0, t.2, t.1, t.3])).collect::<Vec<_>>()})
		}
		Ok(Err(_)) => json!({"box": crate::c15::box_json(bbox), "status":"hang", "res": []}),
		Err(p) => json!({"box": crate::c15::box_json(bbox), "status":"panic", "res": [], "panic": p.chars().take(200).collect::<String>()}),
	}
}

/// boxes to stream for a source: per level present (and neighbours): full level, bounding box of the tiles,
/// single tiles, boxes straddling the 256-block grid, boxes beyond the coverage, the empty encodings
pub fn boxes_for(src: &Source, rng: &mut Rng, many: bool) -> Vec<TileBBox> {
	let mut out: Vec<TileBBox> = vec![];
	let levels: BTreeSet<u8> = src.tiles.iter().map(|t| t.0).collect();
	let mut lv: BTreeSet<u8> = levels.clone();
	for z in &levels {
		if *z > 0 {
			lv.insert(z - 1);
		}
		if *z < 30 {
			lv.insert(z + 1);
		}
	}
	let rb = crate::c15::raw_box;
	for z in lv {
		let max = ((1u64 << z) - 1) as u32;
		if z <= 5 {
			out.push(TileBBox::new_full(z).unwrap());
		}
		out.push(TileBBox::new_empty(z).unwrap());
		out.push(rb(z, 1, 1, 0, 0));
		let ts: Vec<&(u8, u32, u32, u32)> = src.tiles.iter().filter(|t| t.0 == z).collect();
		if ts.is_empty() {
			// a level the source does not have: a small box somewhere
			out.push(rb(z, 0, 0, max.min(2), max.min(2)));
			continue;
		}
		let (x0, x1) = (ts.iter().map(|t| t.1).min().unwrap(), ts.iter().map(|t| t.1).max().unwrap());
		let (y0, y1) = (ts.iter().map(|t| t.2).min().unwrap(), ts.iter().map(|t| t.2).max().unwrap());
		let area = (x1 - x0 + 1) as u64 * (y1 - y0 + 1) as u64;
		if area <= 120_000 {
			// the whole coverage, and one tile wider on every side (beyond coverage), clipped to the level
			out.push(rb(z, x0, y0, x1, y1));
			out.push(rb(z, x0.saturating_sub(1), y0.saturating_sub(1), (x1 + 1).min(max), (y1 + 1).min(max)));
		}
		// far away from the coverage
		if x1 < max {
			out.push(rb(z, max, 0, max, max.min(3)));
		}
		if x0 > 300 {
			out.push(rb(z, 0, 0, 2, 2));
		}
		// single tiles; strips through the coverage
		for t in ts.iter().take(if many { 6 } else { 2 }) {
			out.push(rb(z, t.1, t.2, t.1, t.2));
		}
		let t = ts[ts.len() / 2];
		out.push(rb(z, x0, t.2, x1, t.2));
		out.push(rb(z, t.1, y0, t.1, y1));
		if z >= 8 {
			// straddle the block borders next to a tile: 1 tile beyond the block on every side, and the exact block
			// (the 66k-cell boxes only for the formats with their own stream implementation)
			let bx = (t.1 / 256) * 256;
			let by = (t.2 / 256) * 256;
			if src.fmt == "versatiles" || src.fmt == "mbtiles" {
				out.push(rb(z, bx.saturating_sub(1), by.saturating_sub(1), (bx + 256).min(max), (by + 256).min(max)));
				out.push(rb(z, bx, by, (bx + 255).min(max), (by + 255).min(max)));
			}
			out.push(rb(z, (bx + 250).min(max), (by + 250).min(max), (bx + 260).min(max), (by + 260).min(max)));
		}
		if many {
			// small random boxes (<= 40x40) around tiles, reaching over coverage borders
			for _ in 0..8 {
				let t = ts[rng.below(ts.len() as u64) as usize];
				let (w, h) = (rng.below(40) as u32, rng.below(40) as u32);
				let (a, c) = (t.1.saturating_sub(rng.below(20) as u32), t.2.saturating_sub(rng.below(20) as u32));
				out.push(rb(z, a, c, (a + w).min(max), (c + h).min(max)));
			}
		}
	}
	out
}

/// observe one reader: parameters, lookups (source coords + halo + all coords of small boxes), streams
pub fn observe(rt: &tokio::runtime::Runtime, reader: &dyn TilesReaderTrait, src: &Source, boxes: &[TileBBox], want_streams: bool) -> (Value, Value, Value, Value, Value) {
	let p = reader.get_parameters();
	let opened = json!({"ok":1,"tf":p.tile_format.as_str(),"tc":p.tile_compression.as_str(),"cov":pyramid_json(&p.bbox_pyramid)});
	let mut looked: BTreeMap<(u8, u32, u32), i64> = BTreeMap::new(); // key (z, y, x)
	let mut lookups = vec![];
	for t in &src.tiles {
		let r = lookup(rt, reader, src, t.0, t.1, t.2);
		looked.insert((t.0, t.2, t.1), r);
		lookups.push(json!([t.0, t.1, t.2, r]));
	}
	// halo: neighbours of every source tile (if few) + level corners + other levels
	let present: BTreeSet<(u8, u32, u32)> = src.tiles.iter().map(|t| (t.0, t.1, t.2)).collect();
	let mut halo: BTreeSet<(u8, u32, u32)> = BTreeSet::new();
	for t in src.tiles.iter().take(400) {
		let max = ((1u64 << t.0) - 1) as u32;
		for (dx, dy) in [(-1i64, 0i64), (1, 0), (0, -1), (0, 1), (256, 0), (0, 256), (-256, 0)] {
			let (x, y) = (t.1 as i64 + dx, t.2 as i64 + dy);
			if x >= 0 && y >= 0 && x <= max as i64 && y <= max as i64 {
				halo.insert((t.0, x as u32, y as u32));
			}
		}
		if t.0 < 31 {
			halo.insert((t.0 + 1, t.1 * 2, t.2 * 2));
		}
		if t.0 > 0 {
			halo.insert((t.0 - 1, t.1 / 2, t.2 / 2));
		}
		halo.insert((t.0, max - t.1, t.2));
		halo.insert((t.0, t.2, t.1));
	}
	let mut absent = vec![];
	for (z, x, y) in halo {
		if present.contains(&(z, x, y)) {
			continue;
		}
		let r = lookup(rt, reader, src, z, x, y);
		looked.insert((z, y, x), r);
		absent.push(json!([z, x, y, r]));
	}
	let mut streams = vec![];
	if want_streams {
		for b in boxes {
			if !b.is_empty() && b.count_tiles() <= 1024 {
				for c in b.iter_coords() {
					looked.entry((c.z, c.y, c.x)).or_insert_with(|| lookup(rt, reader, src, c.z, c.x, c.y));
				}
			}
			let sres = stream(rt, reader, src, b);
			// every coordinate the stream DELIVERED is looked up as well (a large box is not looked up cell by cell)
			for it in sres["res"].as_array().unwrap() {
				let (z, x, y) = (it[0].as_u64().unwrap() as u8, it[1].as_u64().unwrap() as u32, it[2].as_u64().unwrap() as u32);
				looked.entry((z, y, x)).or_insert_with(|| lookup(rt, reader, src, z, x, y));
			}
			streams.push(sres);
		}
	}
	let expect: Vec<Value> = looked.iter().filter(|(_, r)| **r > 0 || **r == RES_UNKNOWN).map(|((z, y, x), r)| json!([z, x, y, r])).collect();
	(opened, json!(lookups), json!(absent), json!(streams), json!(expect))
}

fn thread_count() -> usize {
	std::fs::read_to_string("/proc/self/status")
		.ok()
		.and_then(|s| s.lines().find(|l| l.starts_with("Threads:")).and_then(|l| l.split_whitespace().nth(1).and_then(|v| v.parse().ok())))
		.unwrap_or(0)
}

pub fn run_case(rt: &tokio::runtime::Runtime, dir: &Path, case: &Value, n: usize, only: &str, rng: &mut Rng) -> Value {
	let src = source_of(case);
	if src.fmt == "mbtiles" {
		// every r2d2 pool (one per MBTiles reader/writer) owns helper threads that terminate lazily after the
		// pool is dropped: wait for them so that thousands of cases do not exhaust the thread limit
		let mut spins = 0;
		while thread_count() > 4000 && spins < 200 {
			std::thread::sleep(Duration::from_millis(5));
			spins += 1;
		}
	}
	let path = file_path(dir, &src.fmt, "case");
	let phase = |p: &str| {
		if let Ok(f) = std::env::var("VERIF_PHASE_FILE") {
			let _ = std::fs::write(f, p);
		}
	};
	phase("write");
	// (r2d2 gives up waiting for an SQLite connection after 30 s: on a heavily loaded machine that is the MACHINE, not the
	// code under test -- such an attempt is repeated; if it keeps happening the event says so and the driver reports a tool error)
	let env_timeout = |e: &str| e.contains("timed out waiting for connection");
	let (mut write_ok, mut write_err) = produce(rt, case, &src, &path);
	for _ in 0..4 {
		if write_ok || !env_timeout(&write_err) {
			break;
		}
		std::thread::sleep(std::time::Duration::from_secs(3));
		(write_ok, write_err) = produce(rt, case, &src, &path);
	}
	phase("decode");
	let mut ev = json!({"ev":"case","id":n,"origin":case["origin"].as_str().unwrap_or("writer"),"fmt":src.fmt,"tf":src.tf,"tc":src.tc,
		"tiles":src.tiles_json(),"write_ok":write_ok as u8,"write_err":write_err,"choices":case.get("choices").cloned().unwrap_or(json!({})),
		"via":case.get("via").cloned().unwrap_or(json!("file"))});
	let want_decode = only == "C01" || only == "all";
	ev["decoded"] = if write_ok && want_decode { decode_file(&src, &path) } else { json!({"skip":1,"ok":0,"tiles":[],"tf":"","tc":"","layout":{}}) };
	let mut opened = json!({"ok":0,"tf":"","tc":"","cov":[],"err":""});
	let mut walk = 0;
	let (mut lookups, mut absent, mut streams, mut expect) = (json!([]), json!([]), json!([]), json!([]));
	if write_ok {
		phase("read");
		// "via": "http" -- the same file through the HTTP data reader (range requests against a local server)
		let via_http = case.get("via").and_then(|v| v.as_str()) == Some("http");
		let _server = if via_http { Some(crate::httpd::RangeServer::start(path.parent().unwrap())) } else { None };
		let p = match &_server {
			Some(sv) => format!("http://127.0.0.1:{}/{}", sv.port, path.file_name().unwrap().to_str().unwrap()),
			None => path.to_str().unwrap().to_string(),
		};
		let mut got = catch(|| rt.block_on(get_reader(&p)));
		for _ in 0..4 {
			match &got {
				Ok(Err(e)) if env_timeout(&format!("{e:#}")) => {
					std::thread::sleep(std::time::Duration::from_secs(3));
					got = catch(|| rt.block_on(get_reader(&p)));
				}
				_ => break,
			}
		}
		match got {
			Ok(Ok(reader)) => {
				let many = only == "C02" || only == "all";
				let boxes = if only == "C03" {
					vec![]
				} else if only == "C01" || only == "C16" {
					// read the container back the way a conversion does: walk the ADVERTISED coverage, level by level
					let cov: Vec<TileBBox> = reader.get_parameters().bbox_pyramid.iter_levels().cloned().collect();
					if cov.iter().all(|b| b.count_tiles() <= 400_000) {
						walk = 1;
						cov
					} else {
						vec![]
					}
				} else {
					boxes_for(&src, rng, many)
				};
				let o = observe(rt, reader.as_ref(), &src, &boxes, only != "C03");
				opened = o.0;
				lookups = o.1;
				absent = o.2;
				streams = o.3;
				expect = o.4;
			}
			Ok(Err(e)) => opened["err"] = json!(format!("{e:#}").chars().take(300).collect::<String>()),
			Err(p) => opened["err"] = json!(format!("panic: {p}").chars().take(300).collect::<String>()),
		}
	}
	ev["opened"] = opened;
	ev["lookups"] = lookups;
	ev["absent"] = absent;
	ev["streams"] = streams;
	ev["expect"] = expect;
	ev["walk"] = json!(walk);
	remove_path(&path);
	ev
}

/// run cases on `workers` threads (each with its own runtime and scratch directory); events keep case order
fn run_parallel(cases: &[Value], dir: &str, only: &str, workers: usize) -> Vec<Value> {
	let workers = workers.max(1).min(cases.len().max(1));
	let mut slots: Vec<Option<Value>> = vec![None; cases.len()];
	let results: Vec<Vec<(usize, Value)>> = std::thread::scope(|sc| {
		let hs: Vec<_> = (0..workers)
			.map(|w| {
				sc.spawn(move || {
					let rt = tokio::runtime::Builder::new_multi_thread().worker_threads(3).enable_all().build().unwrap();
					let mut rng = Rng::new(seed() ^ 0xC0 ^ ((w as u64) << 20));
					let d = Path::new(dir).join(format!("w{w}"));
					std::fs::create_dir_all(&d).unwrap();
					let mut v = vec![];
					let mut i = w;
					while i < cases.len() {
						v.push((i, run_case(&rt, &d, &cases[i], i, only, &mut rng)));
						i += workers;
					}
					v
				})
			})
			.collect();
		hs.into_iter().map(|h| h.join().unwrap()).collect()
	});
	for r in results {
		for (i, e) in r {
			slots[i] = Some(e);
		}
	}
	slots.into_iter().map(|s| s.unwrap()).collect()
}

fn n_workers() -> usize {
	std::env::var("VERIF_WORKERS").ok().and_then(|s| s.parse().ok()).unwrap_or(10)
}

/// replay TLC-enumerated cases. MBTiles readers/writers leave helper threads behind (r2d2), so long case lists are
/// processed in child processes of at most 250 MBTiles cases each.
pub fn replay(input: &str, output: &str, dir: &str, only: &str) -> Value {
	let cases = read_ndjson(input);
	let mut out = Out::create(output);
	let n_mb = cases.iter().filter(|c| c["fmt"] == "mbtiles").count();
	if n_mb > 250 && std::env::var("VERIF_NO_SPLIT").is_err() {
		let exe = std::env::current_exe().unwrap();
		std::fs::create_dir_all(dir).unwrap();
		let mut start = 0;
		let mut part = 0;
		while start < cases.len() {
			let mut end = start;
			let mut mb = 0;
			while end < cases.len() && end - start < 6000 && mb < 250 {
				if cases[end]["fmt"] == "mbtiles" {
					mb += 1;
				}
				end += 1;
			}
			let pin = Path::new(dir).join(format!("part{part}.in.ndjson"));
			let pout = Path::new(dir).join(format!("part{part}.out.ndjson"));
			{
				let mut o = Out::create(pin.to_str().unwrap());
				for c in &cases[start..end] {
					o.emit(c);
				}
				o.finish();
			}
			let st = std::process::Command::new(&exe)
				.args(["replay", "CONTAINER", pin.to_str().unwrap(), pout.to_str().unwrap(), dir, only])
				.env("VERIF_NO_SPLIT", "1")
				.stdout(std::process::Stdio::null())
				.status()
				.expect("spawn child");
			if !st.success() {
				eprintln!("child harness failed on cases {start}..{end}");
				std::process::exit(3);
			}
			for (i, mut e) in read_ndjson(pout.to_str().unwrap()).into_iter().enumerate() {
				e["id"] = json!(start + i);
				out.emit(&e);
			}
			let _ = std::fs::remove_file(&pin);
			let _ = std::fs::remove_file(&pout);
			start = end;
			part += 1;
		}
	} else {
		for e in run_parallel(&cases, dir, only, n_workers()) {
			out.emit(&e);
		}
	}
	let lines = out.finish();
	json!({"cases": cases.len(), "events": lines})
}

/// every case in its own child process under an address-space limit and a time limit: a writer or reader that needs memory
/// or time in proportion to a level's bounding box (not to the tile set) dies or hangs; that is recorded as the outcome of
/// the phase it was in ("write": write_ok = 0; "read": the reader did not open)
pub fn isolated(input: &str, output: &str, dir: &str, only: &str) -> Value {
	let cases = read_ndjson(input);
	let mut out = Out::create(output);
	let exe = std::env::current_exe().unwrap();
	std::fs::create_dir_all(dir).unwrap();
	let limit_s: u64 = std::env::var("VERIF_ISOLATED_TIMEOUT").ok().and_then(|s| s.parse().ok()).unwrap_or(90);
	let workers = 6usize.min(cases.len().max(1));
	let results: Vec<Vec<(usize, Value)>> = std::thread::scope(|sc| {
		let (cases, exe) = (&cases, &exe);
		let hs: Vec<_> = (0..workers)
			.map(|w| {
				sc.spawn(move || {
					let d = Path::new(dir).join(format!("iso{w}"));
					std::fs::create_dir_all(&d).unwrap();
					let (pin, pout, pphase) = (d.join("in.ndjson"), d.join("out.ndjson"), d.join("phase"));
					let mut v = vec![];
					let mut i = w;
					while i < cases.len() {
						{
							let mut o = Out::create(pin.to_str().unwrap());
							o.emit(&cases[i]);
							o.finish();
						}
						let _ = std::fs::remove_file(&pout);
						let _ = std::fs::remove_file(&pphase);
						let mut child = std::process::Command::new(exe)
							.args(["replay", "CONTAINER", pin.to_str().unwrap(), pout.to_str().unwrap(), d.to_str().unwrap(), only])
							.env("VERIF_NO_SPLIT", "1")
							.env("VERIF_WORKERS", "1")
							.env("VERIF_AS_LIMIT_GB", "6")
							.env("VERIF_PHASE_FILE", pphase.to_str().unwrap())
							.stdout(std::process::Stdio::null())
							.stderr(std::process::Stdio::null())
							.spawn()
							.expect("spawn child");
						let t0 = std::time::Instant::now();
						let status = loop {
							match child.try_wait().unwrap() {
								Some(st) => break if st.success() { "ok".to_string() } else { format!("abort: the process died ({st})") },
								None if t0.elapsed().as_secs() > limit_s => {
									let _ = child.kill();
									let _ = child.wait();
									break format!("timeout: no result within {limit_s} s");
								}
								None => std::thread::sleep(Duration::from_millis(20)),
							}
						};
						let evs = if status == "ok" { read_ndjson(pout.to_str().unwrap()) } else { vec![] };
						let mut e = if let Some(e) = evs.into_iter().next() {
							e
						} else {
							let c = &cases[i];
							let src = source_of(c);
							let ph = std::fs::read_to_string(&pphase).unwrap_or_default();
							if ph == "decode" {
								// the INDEPENDENT decoder of this harness died or hung: that says nothing about the code under test
								eprintln!("isolated case {i}: the harness's own decoder did not finish ({status})");
								std::process::exit(6);
							}
							let in_read = ph == "read";
							json!({"ev":"case","origin":c["origin"].as_str().unwrap_or("writer"),"fmt":src.fmt,"tf":src.tf,"tc":src.tc,"tiles":src.tiles_json(),
								"write_ok": in_read as u8, "write_err": if in_read { String::new() } else { status.clone() }, "choices": c.get("choices").cloned().unwrap_or(json!({})),
								"decoded": {"skip":1,"ok":0,"tiles":[],"tf":"","tc":"","layout":{}},
								"opened": {"ok":0,"tf":"","tc":"","cov":[],"err": if in_read { status.clone() } else { String::new() }},
								"lookups": [], "absent": [], "streams": [], "expect": [], "walk": 0})
						};
						e["id"] = json!(i);
						e["sparse"] = json!(1);
						e["wall_ms"] = json!(t0.elapsed().as_millis() as u64);
						v.push((i, e));
						for f in std::fs::read_dir(&d).unwrap().flatten() {
							let p = f.path();
							if p != pin && p != pout && p != pphase {
								remove_path(&p);
							}
						}
						i += workers;
					}
					v
				})
			})
			.collect();
		hs.into_iter().map(|h| h.join().unwrap()).collect()
	});
	let mut slots: Vec<Option<Value>> = vec![None; cases.len()];
	let mut died = 0u64;
	for r in results {
		for (i, e) in r {
			died += (e["write_ok"] == 0 || e["opened"]["ok"] == 0) as u64;
			slots[i] = Some(e);
		}
	}
	for s in slots {
		out.emit(&s.unwrap());
	}
	let lines = out.finish();
	json!({"cases": cases.len(), "events": lines, "not_completed": died})
}

// ---------------------------------------------------------------------------------------------- random large cases
fn rnd_tiles(rng: &mut Rng, n: usize, profile: u64) -> Vec<Value> {
	let mut set: BTreeMap<(u8, u32, u32), u32> = BTreeMap::new();
	let levels: Vec<u8> = match profile % 4 {
		0 => vec![0, 1, 2, 3, 5, 8, 9],
		1 => vec![2, 5, 9, 12],   // zoom gaps
		2 => vec![9, 10],         // many blocks
		_ => vec![0, 14, 30, 31], // extreme levels, border coordinates
	};
	let npay = match profile % 3 {
		0 => 6,              // heavy duplication
		1 => (n / 3).max(3), // some duplication
		_ => n + 10,         // mostly distinct
	} as u64;
	// per level one window of at most 330x330 tiles (writers and default streams walk the whole level box),
	// anchored at a block corner or at a level border so that several 256-blocks and the borders are touched
	let mut anchors: BTreeMap<u8, (u64, u64, u64)> = BTreeMap::new();
	for z in &levels {
		let max = (1u64 << z) - 1;
		let win = (rng.range(200, 330)).min(max + 1);
		let ax = match rng.below(4) {
			0 => 0,
			1 => max + 1 - win,
			_ => (rng.below((max + 1) / 256 + 1) * 256).saturating_sub(win / 2).min(max + 1 - win),
		};
		let ay = match rng.below(4) {
			0 => 0,
			1 => max + 1 - win,
			_ => (rng.below((max + 1) / 256 + 1) * 256).saturating_sub(win / 2).min(max + 1 - win),
		};
		anchors.insert(*z, (ax, ay, win));
	}
	let mut guard = 0;
	while set.len() < n && guard < n * 20 {
		guard += 1;
		let z = *rng.pick(&levels);
		let (ax, ay, win) = anchors[&z];
		let (x, y) = if rng.chance(1, 8) {
			(ax + *rng.pick(&[0, win - 1]), ay + *rng.pick(&[0, win - 1]))
		} else if rng.chance(1, 2) {
			// dense patch in the middle of the window (crosses a block border)
			(ax + (win / 2 + rng.below(40)).saturating_sub(20).min(win - 1), ay + (win / 2 + rng.below(40)).saturating_sub(20).min(win - 1))
		} else {
			(ax + rng.below(win), ay + rng.below(win))
		};
		set.entry((z, x as u32, y as u32)).or_insert(rng.range(1, npay) as u32);
	}
	set.into_iter().map(|((z, x, y), p)| json!([z, x, y, p])).collect()
}

pub fn random_cases(seed: u64, thorough: bool, only: &str) -> Vec<Value> {
	let mut rng = Rng::new(seed ^ 0xCA5E);
	let mut cases = vec![];
	let sizes: Vec<usize> = if thorough { vec![50, 400, 3000, 20000] } else { vec![40, 300, 2500] };
	let mut profile = 0u64;
	for n in sizes {
		for fmt in ["versatiles", "pmtiles", "mbtiles", "tar", "directory"] {
			if (fmt == "directory" || fmt == "tar") && n > 3000 {
				continue;
			}
			let pairs: Vec<(&str, &str)> = match fmt {
				"mbtiles" => vec![("pbf", "gzip"), ("png", "none")],
				"pmtiles" => vec![("pbf", "gzip"), ("png", "none"), ("json", "brotli")],
				_ => vec![("pbf", "gzip"), ("png", "none"), ("pbf", "brotli")],
			};
			for (tf, tc) in pairs.iter().take(if thorough { 3 } else { 2 }) {
				profile += 1;
				let mut tiles = rnd_tiles(&mut rng, n, profile);
				if fmt == "pmtiles" && n >= 20000 {
					// more than 16384 entries: forces leaf directories
					tiles = rnd_tiles(&mut rng, 20000, 2);
				}
				// payload classes: sizes around the 1000-byte de-duplication threshold, some big ones
				let mut classes = serde_json::Map::new();
				for t in &tiles {
					let p = t[3].as_u64().unwrap();
					classes.entry(p.to_string()).or_insert_with(|| {
						let size = match rng.below(12) {
							0 => 40 * 1024,
							1 => rng.range(990, 1010),
							2 => 999,
							3 => 1000,
							4 => rng.range(1, 8),
							_ => rng.range(20, 1800),
						};
						json!([size, rng.below(2)])
					});
				}
				cases.push(json!({"k":"case","origin":"writer","fmt":fmt,"tf":tf,"tc":tc,"tiles":tiles,"classes":classes,"only":only}));
			}
		}
	}
	cases
}

/// Steer towards the PMTiles writer's root/leaf switch: find (by probing the REAL writer and reading the header of
/// its output with the independent decoder) the largest tile count that still yields a root-only directory, and
/// return cases for every count in a window around it. Tile lengths vary so that the directory compresses badly.
/// the PMTiles case with the first `n` tiles of the boundary family (same seed -> same tiles and sizes)
pub fn pmtiles_boundary_case(seed: u64, n: usize) -> Value {
	let mut rng = Rng::new(seed ^ 0xB0DA);
	let mut classes = serde_json::Map::new();
	let all: Vec<Value> = (0..16383u32)
		.map(|i| {
			let p = i + 1;
			classes.insert(p.to_string(), json!([rng.range(20, 619), 0]));
			json!([8, 64 + (i % 128), 64 + (i / 128), p])
		})
		.collect();
	json!({"k":"case","origin":"writer","fmt":"pmtiles","tf":"pbf","tc":"none","tiles":all[..n.min(16383)].to_vec(),"classes":classes})
}

pub fn pmtiles_boundary_cases(seed: u64, thorough: bool) -> Vec<Value> {
	let rt = tokio::runtime::Builder::new_multi_thread().worker_threads(3).enable_all().build().unwrap();
	let mut rng = Rng::new(seed ^ 0xB0DA);
	let mut classes = serde_json::Map::new();
	let all: Vec<Value> = (0..16383u32)
		.map(|i| {
			let p = i + 1;
			classes.insert(p.to_string(), json!([rng.range(20, 619), 0]));
			json!([8, 64 + (i % 128), 64 + (i / 128), p])
		})
		.collect();
	let mk = |n: usize| json!({"k":"case","origin":"writer","fmt":"pmtiles","tf":"pbf","tc":"none","tiles":all[..n].to_vec(),"classes":classes.clone()});
	let root_only = |n: usize| -> bool {
		let case = mk(n);
		let src = source_of(&case);
		let mut mem = src.mem_reader();
		let mut w = versatiles_core::io::DataWriterBlob::new().unwrap();
		let r = catch(|| rt.block_on(<PMTilesWriter as TilesWriterTrait>::write_to_writer(&mut mem, &mut w)));
		if !matches!(r, Ok(Ok(()))) {
			return false;
		}
		let d = indep::decode_pmtiles(w.as_slice());
		// not decodable counts as "not root-only" for the search; such cases are judged when replayed
		d.ok && d.layout["leaves"][1].as_u64() == Some(0)
	};
	let (mut lo, mut hi) = (256usize, 16383usize);
	if !root_only(lo) {
		return vec![];
	}
	while lo + 1 < hi {
		let mid = (lo + hi) / 2;
		if root_only(mid) {
			lo = mid;
		} else {
			hi = mid;
		}
	}
	let span = if thorough { 60 } else { 30 };
	let step = if thorough { 1 } else { 2 };
	(lo.saturating_sub(span)..=(lo + span).min(16383)).step_by(step).map(mk).collect()
}

/// directed at the read-chunk limits of the versatiles reader's box stream (64 MiB per chunk, 32 KiB gap): a block holding
/// more than 64 MiB of tile data, and three tiles of one block of which a box selects the first and the last while the
/// 40 KiB tile stored between them is not selected
fn chunk_boundary_cases() -> Vec<Value> {
	let mut big = vec![];
	let mut classes = serde_json::Map::new();
	for i in 0..70u32 {
		big.push(json!([4, i % 16, i / 16, i + 1]));
		classes.insert((i + 1).to_string(), json!([1 << 20, 0]));
	}
	big.push(json!([4, 15, 15, 71]));
	classes.insert("71".into(), json!([700, 1]));
	big.push(json!([2, 1, 1, 72]));
	classes.insert("72".into(), json!([999, 1]));
	let mut v = vec![json!({"k":"case","origin":"writer","fmt":"versatiles","tf":"png","tc":"none","tiles":big,"classes":classes,"choices":{"none":1}})];
	for fmt in ["versatiles", "pmtiles", "tar"] {
		v.push(json!({"k":"case","origin":"writer","fmt":fmt,"tf":"pbf","tc":"none","tiles":[[3,0,0,1],[3,1,0,2],[3,0,1,3],[3,5,5,4]],
			"classes":{"1":[500,0],"2":[40960,0],"3":[600,0],"4":[70000,0]},"choices":{"none":1}}));
	}
	v
}

pub fn record(output: &str, dir: &str, seed: u64, thorough: bool, only: &str) -> Value {
	let mut cases = random_cases(seed, thorough, only);
	if only == "C01" {
		cases.extend(pmtiles_boundary_cases(seed, thorough));
	}
	if only == "C01" || only == "C02" {
		cases.extend(chunk_boundary_cases());
	}
	let mut out = Out::create(output);
	let mut tiles = 0usize;
	let mut samples = vec![];
	for ev in run_parallel(&cases, dir, only, n_workers().min(6)) {
		tiles += ev["tiles"].as_array().unwrap().len();
		if samples.len() < 3 {
			samples.push(json!({"fmt":ev["fmt"],"tf":ev["tf"],"tc":ev["tc"],"n_tiles":ev["tiles"].as_array().unwrap().len(),
				"first_tiles": ev["tiles"].as_array().unwrap().iter().take(4).collect::<Vec<_>>(), "n_streams": ev["streams"].as_array().unwrap().len()}));
		}
		out.emit(&ev);
	}
	let lines = out.finish();
	json!({"cases": cases.len(), "events": lines, "tiles": tiles, "samples": samples})
}
