//! vharness — drives the real versatiles code for the TLA+-based checks in /verif.
//! It never judges: it executes cases and records observations as ndjson; TLC decides.
mod c12;
mod httpd;
mod pmt;
mod c13;
mod c14;
mod c15;
mod c17;
mod c18;
mod c19;
mod c20;
mod container;
mod convert;
mod indep;
mod indep_mvt;
mod mem;
mod pipeline;
mod server;
mod tj;
mod util;
mod vt;

/// Counting allocator: remembers the largest single allocation REQUEST (>= 1 MiB) since the last reset, so that "memory out of
/// proportion to the input" (C19) is observed directly and not only when an address-space limit happens to be hit.
pub struct Counting;
pub static MAX_REQ: std::sync::atomic::AtomicUsize = std::sync::atomic::AtomicUsize::new(0);
#[inline]
fn note_req(n: usize) {
	if n >= 1 << 20 {
		MAX_REQ.fetch_max(n, std::sync::atomic::Ordering::Relaxed);
	}
}
unsafe impl std::alloc::GlobalAlloc for Counting {
	unsafe fn alloc(&self, l: std::alloc::Layout) -> *mut u8 {
		note_req(l.size());
		std::alloc::System.alloc(l)
	}
	unsafe fn dealloc(&self, p: *mut u8, l: std::alloc::Layout) {
		std::alloc::System.dealloc(p, l)
	}
	unsafe fn alloc_zeroed(&self, l: std::alloc::Layout) -> *mut u8 {
		note_req(l.size());
		std::alloc::System.alloc_zeroed(l)
	}
	unsafe fn realloc(&self, p: *mut u8, l: std::alloc::Layout, n: usize) -> *mut u8 {
		note_req(n);
		std::alloc::System.realloc(p, l, n)
	}
}
#[global_allocator]
static GLOBAL: Counting = Counting;

fn main() {
	// panics in code under test are data; keep stderr quiet
	if std::env::var("VERIF_PANIC_VERBOSE").is_err() {
		std::panic::set_hook(Box::new(|_| {}));
	}
	// resource-limited child of an isolated run: address-space limit in GiB
	if let Some(gb) = std::env::var("VERIF_AS_LIMIT_GB").ok().and_then(|s| s.parse::<u64>().ok()) {
		unsafe {
			libc::setrlimit(libc::RLIMIT_AS, &libc::rlimit { rlim_cur: gb << 30, rlim_max: gb << 30 });
		}
	}
	let args: Vec<String> = std::env::args().collect();
	if args.len() < 3 {
		eprintln!("usage: vharness replay <ID> <cases.ndjson> <trace.ndjson> | record <ID> <trace.ndjson>");
		std::process::exit(2);
	}
	let seed = util::seed();
	let thorough = util::tier_is_thorough();
	let summary = match (args[1].as_str(), args[2].as_str()) {
		("cuts", "C12") => c12::run(&args[3], &args[4], thorough),
		("steps", "C13") => c13::steps(&args[3]),
		("cachetrace", "C13") => c13::cache_trace(&args[3], &args[4], seed, thorough),
		("stress", "C13") => c13::stress(&args[3], &args[4], seed, thorough),
		("replay", "C14") => c14::replay(&args[3], &args[4]),
		("record", "C14") => c14::record(&args[3], seed, thorough),
		("server", "TILES") => server::tiles(&args[3], &args[4], &args[5], &args[6]),
		("server", "STATIC") => server::statics(&args[3], &args[4], &args[5], &args[6]),
		("replay", "VT") => vt::replay(&args[3], &args[4], &args[5]),
		("replay", "PIPELINE") => pipeline::replay(&args[3], &args[4], &args[5]),
		("replay", "CONVERT") => convert::replay(&args[3], &args[4], &args[5]),
		("cli", "CONVERT") => convert::cli(&args[3], &args[4], &args[5], &args[6], args[7].parse().unwrap()),
		("isolated", "CONTAINER") => container::isolated(&args[3], &args[4], &args[5], &args[6]),
		("replay", "PMTILES") => pmt::replay(&args[3], &args[4]),
		("replay", "CONTAINER") => container::replay(&args[3], &args[4], &args[5], &args[6]),
		("record", "CONTAINER") => container::record(&args[3], &args[4], seed, thorough, &args[5]),
		("replay", "C15") => c15::replay(&args[3], &args[4]),
		("record", "C15") => c15::record(&args[3], seed, thorough),
		("replay", "C17") => c17::replay(&args[3], &args[4], &args[5]),
		("replay", "C18") => c18::replay(&args[3], &args[4]),
		("decode", "C19") => c19::run(&args[3], &args[4], &args[5]),
		("decode-child", "C19") => {
			c19::child(&args[3], &args[4], args[5].parse().unwrap(), &args[6]);
			serde_json::json!({})
		}
		("replay", "C20") => c20::replay(&args[3], &args[4]),
		("replay", "TILEJSON") => tj::replay(&args[3], &args[4]),
		// the tile sets around the PMTiles writer's root / leaf switch (found by probing the real writer), as container cases
		("boundary", "PMTILES") => {
			let cases = container::pmtiles_boundary_cases(seed, thorough);
			let mut out = util::Out::create(&args[3]);
			for c in &cases {
				out.emit(c);
			}
			let n = out.finish();
			serde_json::json!({"cases": n})
		}
		("replay", "HTTPRANGE") => httpd::replay(&args[3], &args[4], &args[5]),
		("record", "C20") => c20::record(&args[3], seed, thorough),
		_ => {
			eprintln!("unknown command {:?}", &args[1..]);
			std::process::exit(2);
		}
	};
	println!("SUMMARY {}", summary);
}
