//! C20 — LimitedCache: replay of TLC-generated histories and random long histories.
//! The harness only drives the real cache and logs what it did; the verdict is TLC's
//! (spec/trace/Trace_C20.tla, relation AbsStep of spec/Cache.tla).
use crate::util::*;
use serde_json::{json, Value};
use versatiles_core::types::LimitedCache;

const RET_NONE: i64 = 0;
const RET_ERR: i64 = -1;
const RET_PANIC: i64 = -99;

fn snapshot(c: &LimitedCache<u32, i64>, nk: usize) -> Vec<i64> {
	let mut v = vec![0i64; nk];
	for (k, val, _) in c.verif_snapshot() {
		// a key outside 1..nk cannot be represented: make it visible as an over-long tuple
		let i = k as usize;
		if i >= 1 && i <= nk {
			v[i - 1] = val;
		} else {
			v.push(val);
		}
	}
	v
}

fn apply(c: &mut LimitedCache<u32, i64>, op: &str, k: u32, v: i64) -> i64 {
	let r = catch(|| match op {
		"get" => c.get(&k).unwrap_or(RET_NONE),
		"add" => c.add(k, v),
		"gos_ok" => c.get_or_set(&k, || Ok(v)).unwrap_or(RET_ERR),
		"gos_err" => c.get_or_set(&k, || Err(anyhow::anyhow!("loader failed"))).unwrap_or(RET_ERR),
		_ => panic!("unknown op {op}"),
	});
	r.unwrap_or(RET_PANIC)
}

/// One REPLAY line = history reaching a pre-state + one more call. Emits Init + Op.
pub fn replay(input: &str, output: &str) -> Value {
	let cases = read_ndjson(input);
	let mut out = Out::create(output);
	let mut impl_equal = 0u64;
	let mut with_eviction = 0u64;
	for (ci, case) in cases.iter().enumerate() {
		let cap = case["cap"].as_u64().unwrap() as usize;
		let nk = case["nk"].as_u64().unwrap() as usize;
		let hist = case["hist"].as_array().unwrap();
		let mut c = LimitedCache::<u32, i64>::verif_with_capacity(cap);
		let n = hist.len();
		// the whole history is replayed from the empty cache and EVERY step is logged: which entry counts as "just used"
		// is then derived by the trace specification from the real states, not taken from the model that generated the case
		out.emit(&json!({"ev":"Init","cap":cap,"entries":vec![0i64; nk],"mru":0,"case":ci}));
		let (mut pre, mut post, mut ret) = (snapshot(&c, nk), snapshot(&c, nk), 0i64);
		for (j, op) in hist.iter().enumerate() {
			pre = snapshot(&c, nk);
			ret = apply(&mut c, op["op"].as_str().unwrap(), op["k"].as_u64().unwrap() as u32, op["v"].as_i64().unwrap());
			post = snapshot(&c, nk);
			out.emit(&json!({"ev":"Op","op":op["op"],"k":op["k"],"v":op["v"],"ret":ret,"post":post,"case":ci,"last":(j + 1 == n) as u8}));
		}
		let op = &hist[n - 1];
		let implpost: Vec<i64> = case["implpost"].as_array().unwrap().iter().map(|x| x.as_i64().unwrap()).collect();
		if implpost == post && case["implret"].as_i64().unwrap() == ret {
			impl_equal += 1;
		}
		let pre_n = pre.iter().filter(|x| **x != 0).count();
		let post_n = post.iter().filter(|x| **x != 0).count();
		if post_n < pre_n || (post_n == pre_n && pre != post && op["op"] != "get") {
			with_eviction += 1;
		}
	}
	let lines = out.finish();
	json!({"cases": cases.len(), "events": lines, "equal_to_impl_layer": impl_equal, "steps_with_eviction": with_eviction})
}

/// Random long histories: capacities 1..64, 10–20 keys, skewed key choice.
pub fn record(output: &str, seed: u64, thorough: bool) -> Value {
	let mut rng = Rng::new(seed ^ 0xC20);
	let mut out = Out::create(output);
	let histories = if thorough { 120 } else { 24 };
	let ops_per = if thorough { 2500 } else { 800 };
	let mut evictions = 0u64;
	let mut samples = vec![];
	for h in 0..histories {
		let nk = rng.range(10, 20) as usize;
		// every capacity 1..8 is visited; the rest sampled up to 64
		let cap = if h < 8 { h + 1 } else { rng.range(1, 64) } as usize;
		// every other history builds its cache the way production code does: from a BYTE budget; the capacity the property
		// speaks of is then budget / (size of a key + size of a value), here for a budget with room for exactly `cap` entries
		// plus a remainder smaller than one entry
		let elem = std::mem::size_of::<u32>() + std::mem::size_of::<i64>();
		let mut c = if h % 2 == 1 || h == 0 {
			LimitedCache::<u32, i64>::with_maximum_size(cap * elem + rng.below(elem as u64) as usize)
		} else {
			LimitedCache::<u32, i64>::verif_with_capacity(cap)
		};
		out.emit(&json!({"ev":"Init","cap":cap,"entries":vec![0i64; nk],"mru":0}));
		let mut first_ops = vec![];
		for n in 0..ops_per {
			// skew: half of the calls go to a hot set of 3 keys
			let k = if rng.chance(1, 2) { rng.range(1, 3.min(nk as u64)) } else { rng.range(1, nk as u64) } as u32;
			let op = *rng.pick(&["get", "get", "add", "gos_ok", "gos_ok", "gos_err"]);
			let v = if op == "add" || op == "gos_ok" { (k as i64) * 1_000_000 + (n as i64 + 1) } else { 0 };
			let before = c.verif_snapshot().len();
			let ret = apply(&mut c, op, k, v);
			let post = snapshot(&c, nk);
			if c.verif_snapshot().len() < before || (c.verif_snapshot().len() == before && before >= cap && ret == v && v != 0) {
				evictions += 1;
			}
			if first_ops.len() < 6 {
				first_ops.push(json!([op, k, v, ret]));
			}
			out.emit(&json!({"ev":"Op","op":op,"k":k,"v":v,"ret":ret,"post":post}));
		}
		if samples.len() < 3 {
			samples.push(json!({"cap":cap,"nk":nk,"first_ops":first_ops}));
		}
	}
	let lines = out.finish();
	json!({"histories": histories, "events": lines, "steps_with_eviction": evictions, "samples": samples})
}
