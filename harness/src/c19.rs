//! C19 — decoders report malformed input as an error. Cases (byte sequences for the text decoders, field x
//! corruption class for the binary layouts, nesting depths) are enumerated by TLC (spec/Decode.tla, mc/MC_C19).
//! Every case runs in a CHILD process with an address-space limit and a watchdog, so that aborts (stack
//! overflow, allocation failure), hangs and out-of-proportion allocations are observed as outcomes, not crashes.
use crate::indep::{self, Tile};
use crate::indep_mvt;
use crate::mem::*;
use crate::util::*;
use futures::future::BoxFuture;
use serde_json::{json, Value};
use std::io::{BufRead, BufReader, Cursor, Write};
use std::path::Path;
use std::sync::atomic::{AtomicU64, Ordering};
use std::sync::Arc;
use versatiles_container::*;
use versatiles_core::byte_iterator::ByteIterator;
use versatiles_core::io::*;
use versatiles_core::json::*;
use versatiles_core::tilejson::TileJSON;
use versatiles_core::types::*;
use versatiles_core::utils::read_csv_iter;
use versatiles_pipeline::PipelineFactory;

fn worst(a: &str, b: &str) -> String {
	let rank = |s: &str| match s {
		"panic" => 3,
		"error" => 1,
		"value" => 0,
		_ => 2,
	};
	if rank(a) >= rank(b) { a.to_string() } else { b.to_string() }
}
fn oc<T, E>(r: Result<Result<T, E>, String>) -> (&'static str, String) {
	match r {
		Ok(Ok(_)) => ("value", String::new()),
		Ok(Err(_)) => ("error", String::new()),
		Err(p) => ("panic", p.chars().take(160).collect()),
	}
}

fn dummy_factory(dir: &Path) -> PipelineFactory {
	let callback = Box::new(|filename: String| -> BoxFuture<'static, anyhow::Result<Box<dyn TilesReaderTrait>>> {
		Box::pin(async move {
			let t = indep_mvt::encode_tile(&json!([{"name":"a","extent":4096,"version":2,"feats":[{"id":"1","gt":1,"geom":1,"props":[["id",["s","r1"]]]}]}]), 0);
			let m = MemReader::new(&filename, TileFormat::PBF, TileCompression::Uncompressed, vec![(TileCoord3::new(1, 1, 2).unwrap(), Blob::from(t))]);
			Ok(Box::new(m) as Box<dyn TilesReaderTrait>)
		})
	});
	PipelineFactory::default(dir, callback)
}

/// length of the largest input handed to a decoder in the current case
static INPUT_LEN: AtomicU64 = AtomicU64::new(0);
fn note_input(n: usize) {
	INPUT_LEN.fetch_max(n as u64, Ordering::SeqCst);
}

fn run_text(rt: &tokio::runtime::Runtime, dir: &Path, dec: &str, bytes: &[u8]) -> (String, String) {
	note_input(bytes.len());
	let mut out = "value".to_string();
	let mut msg = String::new();
	let mut upd = |r: (&'static str, String)| {
		if r.0 == "panic" && msg.is_empty() {
			msg = r.1.clone();
		}
		out = worst(&out, r.0);
	};
	let utf8 = std::str::from_utf8(bytes).ok();
	match dec {
		"json" | "tilejson" => {
			upd(oc(catch(|| {
				let mut it = ByteIterator::from_reader(Cursor::new(bytes.to_vec()), true);
				parse_json_iter(&mut it)
			})));
			upd(oc(catch(|| {
				let mut it = ByteIterator::from_reader(Cursor::new(bytes.to_vec()), false);
				parse_json_iter(&mut it)
			})));
			if let Some(s) = utf8 {
				upd(oc(catch(|| parse_json_str(s))));
				upd(oc(catch(|| TileJSON::try_from(s))));
				upd(oc(catch(|| Ok::<_, ()>(TileJSON::try_from_blob_or_default(&Blob::from(s))))));
			}
		}
		"csv" => {
			upd(oc(catch(|| read_csv_iter(Cursor::new(bytes.to_vec()), b',').and_then(|it| it.collect::<anyhow::Result<Vec<_>>>()))));
			// through the pipeline's CSV loader
			std::fs::write(dir.join("t.csv"), bytes).unwrap();
			let f = dummy_factory(dir);
			upd(oc(catch(|| {
				rt.block_on(f.operation_from_vpl(
					"from_container filename=src1 | vectortiles_update_properties data_source_path=\"t.csv\" layer_name=a id_field_tiles=id id_field_data=rid",
				))
			})));
		}
		"vpl" => {
			if let Some(s) = utf8 {
				upd(oc(catch(|| versatiles_pipeline::parse_vpl(s))));
				let f = dummy_factory(dir);
				upd(oc(catch(|| rt.block_on(f.operation_from_vpl(s)))));
			}
		}
		d => panic!("decoder {d}"),
	}
	(out, msg)
}

// ------------------------------------------------------------------------------------------ binary corruption
fn class_value(class: &str, width: usize, file_len: u64, own: u64) -> u64 {
	let max = if width >= 8 { u64::MAX } else { (1u64 << (8 * width)) - 1 };
	match class {
		"zero" => 0,
		"one" => 1,
		"max" => max,
		"beyond_file" => (file_len + 1000) & max,
		"huge" => (1u64 << 40) & max | (max >> 1 & 0x7fff_ffff_ffff),
		// large, but small enough to pass a magnitude sanity check (a count of 2^32 items is "possible")
		"plausible" => (1u64 << 32).min(max >> 1),
		"minus_one" => max - 1,
		"wrong_enum" => 0x99 & max,
		"self" => own & max,
		c => panic!("class {c}"),
	}
}
fn put_be(b: &mut [u8], off: usize, width: usize, v: u64) {
	for i in 0..width {
		b[off + i] = (v >> (8 * (width - 1 - i))) as u8;
	}
}
fn put_le(b: &mut [u8], off: usize, width: usize, v: u64) {
	for i in 0..width {
		b[off + i] = (v >> (8 * i)) as u8;
	}
}
fn base_tiles() -> Vec<Tile> {
	vec![(0, 0, 0, payload(1, 60, true)), (2, 1, 2, payload(2, 80, false)), (9, 255, 255, payload(3, 50, true)), (9, 256, 255, payload(4, 70, true))]
}
const META: &[u8] = br#"{"name":"c19","tilejson":"3.0.0"}"#;

fn corrupt_versatiles(field: &str, class: &str) -> Vec<u8> {
	let ch = indep::VtChoices { partial_blocks: true, reverse_tiles: false, share_all: false, index_first: false, shuffle_blocks: false, gap: 0 };
	let mut f = indep::encode_versatiles("pbf", "none", &base_tiles(), Some(META), &ch);
	let len = f.len() as u64;
	let be64 = |b: &[u8], o: usize| u64::from_be_bytes(b[o..o + 8].try_into().unwrap());
	let (bi_off, bi_len) = (be64(&f, 50) as usize, be64(&f, 58) as usize);
	// helper: rewrite the block index with one record modified; appended at the end of the file
	let rewrite_index = |f: &mut Vec<u8>, edit: &dyn Fn(&mut Vec<u8>)| {
		let mut bi = indep::brotli_d(&f[bi_off..bi_off + bi_len]).unwrap();
		edit(&mut bi);
		let c = indep::brotli_c(&bi);
		let off = f.len() as u64;
		f.extend_from_slice(&c);
		put_be(f, 50, 8, off);
		put_be(f, 58, 8, c.len() as u64);
	};
	match field {
		"magic" => f[3] ^= 0x20,
		"tile_format" => f[14] = class_value(class, 1, len, 14) as u8,
		"compression" => f[15] = class_value(class, 1, len, 15) as u8,
		"zoom_min" => f[16] = class_value(class, 1, len, 16) as u8,
		"zoom_max" => f[17] = class_value(class, 1, len, 17) as u8,
		"meta_offset" => put_be(&mut f, 34, 8, class_value(class, 8, len, 34)),
		"meta_length" => put_be(&mut f, 42, 8, class_value(class, 8, len, 34)),
		"index_offset" => put_be(&mut f, 50, 8, class_value(class, 8, len, 50)),
		"index_length" => put_be(&mut f, 58, 8, class_value(class, 8, len, 50)),
		"index_brotli_garbage" => {
			for i in 0..bi_len.min(8) {
				f[bi_off + i] ^= 0xA5;
			}
		}
		"block_z" => rewrite_index(&mut f, &|bi| bi[0] = class_value(class, 1, len, 0) as u8),
		"block_col" => rewrite_index(&mut f, &|bi| put_be(bi, 1, 4, class_value(class, 4, len, 0))),
		"block_row" => rewrite_index(&mut f, &|bi| put_be(bi, 5, 4, class_value(class, 4, len, 0))),
		"block_cov_min" => rewrite_index(&mut f, &|bi| bi[9] = class_value(class, 1, len, 0) as u8),
		"block_cov_max" => rewrite_index(&mut f, &|bi| bi[11] = class_value(class, 1, len, 0) as u8),
		"block_offset" => rewrite_index(&mut f, &|bi| put_be(bi, 13, 8, class_value(class, 8, len, bi_off as u64))),
		"block_tiles_length" => rewrite_index(&mut f, &|bi| put_be(bi, 21, 8, class_value(class, 8, len, bi_off as u64))),
		"block_index_length" => rewrite_index(&mut f, &|bi| put_be(bi, 29, 4, class_value(class, 4, len, bi_off as u64))),
		"tile_index_count" | "tile_offset" | "tile_length" => {
			// modify the tile index of the first block: re-encode and point the block record to it
			let bi = indep::brotli_d(&f[bi_off..bi_off + bi_len]).unwrap();
			let (boff, tlen, ilen) = (be64(&bi, 13) as usize, be64(&bi, 21) as usize, u32::from_be_bytes(bi[29..33].try_into().unwrap()) as usize);
			let mut ti = indep::brotli_d(&f[boff + tlen..boff + tlen + ilen]).unwrap();
			match field {
				"tile_index_count" => {
					if class == "zero" {
						ti.clear();
					} else {
						ti.extend_from_slice(&[0u8; 12]);
					}
				}
				"tile_offset" => put_be(&mut ti, 0, 8, class_value(class, 8, len, boff as u64)),
				_ => put_be(&mut ti, 8, 4, class_value(class, 4, len, boff as u64)),
			}
			let c = indep::brotli_c(&ti);
			// new block: copy of the tile blobs followed by the new index, appended
			let nb = f.len() as u64;
			let blobs = f[boff..boff + tlen].to_vec();
			f.extend_from_slice(&blobs);
			f.extend_from_slice(&c);
			let clen = c.len() as u64;
			rewrite_index(&mut f, &move |bi| {
				put_be(bi, 13, 8, nb);
				put_be(bi, 29, 4, clen);
			});
		}
		"meta_not_utf8" => {
			let off = be64(&f, 34) as usize;
			f[off + 2] = 0xFF;
			f[off + 3] = 0xC3;
		}
		"truncate" => {
			let n = match class {
				"zero" => 0,
				"one" => 1,
				"minus_one" => f.len() - 1,
				"max" => 66,
				"self" => bi_off + 1,
				_ => f.len() / 2,
			};
			f.truncate(n);
		}
		x => panic!("versatiles field {x}"),
	}
	f
}

fn corrupt_pmtiles(field: &str, class: &str) -> Vec<u8> {
	let mk = |leaf: u8, internal: &'static str| indep::PmChoices { run_lengths: true, share: true, leaf_levels: leaf, leaf_size: 2, mixed_root: false, internal, unclustered: false, type_unknown: false };
	let mut f = indep::encode_pmtiles("pbf", "none", &base_tiles(), Some(META), &mk(1, "none"));
	let len = f.len() as u64;
	let le64 = |b: &[u8], o: usize| u64::from_le_bytes(b[o..o + 8].try_into().unwrap());
	let (root_off, root_len) = (le64(&f, 8) as usize, le64(&f, 16) as usize);
	let hdr = |name: &str| -> usize {
		match name {
			"root_offset" => 8,
			"root_length" => 16,
			"meta_offset" => 24,
			"meta_length" => 32,
			"leaf_offset" => 40,
			"leaf_length" => 48,
			"data_offset" => 56,
			"data_length" => 64,
			_ => 0,
		}
	};
	// directory with one tile entry [id, run, len, off] as raw varints (internal compression none)
	let write_dir = |ids: &[u64], runs: &[u64], lens: &[u64], offs: &[u64]| -> Vec<u8> {
		let mut v = vec![];
		let pv = |v: &mut Vec<u8>, mut n: u64| loop {
			let b = (n & 0x7f) as u8;
			n >>= 7;
			if n == 0 {
				v.push(b);
				break;
			}
			v.push(b | 0x80);
		};
		pv(&mut v, ids.len() as u64);
		for x in ids.iter().chain(runs).chain(lens).chain(offs) {
			pv(&mut v, *x);
		}
		v
	};
	let replace_root = |f: &mut Vec<u8>, dir: Vec<u8>| {
		// root must stay in the first 16 KiB: overwrite in place if it fits, else shift is not needed (dirs are tiny)
		let n = dir.len().min(16384 - 127);
		f.splice(root_off..root_off + root_len, dir[..n].iter().cloned());
		let delta = n as i64 - root_len as i64;
		put_le(f, 16, 8, n as u64);
		for o in [24usize, 40, 56] {
			let v = le64(f, o) as i64 + delta;
			put_le(f, o, 8, v as u64);
		}
	};
	match field {
		"magic" => f[2] ^= 0x20,
		"version" => f[7] = class_value(class, 1, len, 7) as u8,
		"root_offset" | "root_length" | "meta_offset" | "meta_length" | "leaf_offset" | "leaf_length" | "data_offset" | "data_length" => {
			let o = hdr(field);
			put_le(&mut f, o, 8, class_value(class, 8, len, o as u64));
		}
		"internal_compression" => f[97] = class_value(class, 1, len, 97) as u8,
		"tile_compression" => f[98] = class_value(class, 1, len, 98) as u8,
		"tile_type" => f[99] = class_value(class, 1, len, 99) as u8,
		"dir_count" => {
			let n = class_value(class, 8, len, 0);
			replace_root(&mut f, write_dir(&[1], &[1], &[10], &[1]).into_iter().skip(1).fold(
				{
					let mut v = vec![];
					let mut m = n;
					loop {
						let b = (m & 0x7f) as u8;
						m >>= 7;
						if m == 0 {
							v.push(b);
							break;
						}
						v.push(b | 0x80);
					}
					v
				},
				|mut acc, b| {
					acc.push(b);
					acc
				},
			));
		}
		"dir_first_offset" => replace_root(&mut f, write_dir(&[1, 1], &[1, 1], &[10, 10], &[class_value(class, 8, len, 0) >> 1, 0])),
		"dir_run_length" => replace_root(&mut f, write_dir(&[1, 5, 2000], &[class_value(class, 4, len, 0), 1, 1], &[10, 10, 10], &[1, 0, 0])),
		"dir_length" => replace_root(&mut f, write_dir(&[1], &[1], &[class_value(class, 8, len, 0)], &[1])),
		"dir_id_delta" => replace_root(&mut f, write_dir(&[class_value(class, 8, len, 0), class_value(class, 8, len, 0)], &[1, 1], &[10, 10], &[1, 0])),
		"leaf_self_pointer" => {
			// a leaf directory whose only entry points to itself (run_length 0 = leaf pointer)
			let leaf_off = le64(&f, 40) as usize;
			let leaf = write_dir(&[0], &[0], &[6], &[1]);
			let n = leaf.len();
			f.splice(leaf_off..leaf_off + n.min(le64(&f, 48) as usize), leaf.iter().cloned().take(n.min(le64(&f, 48) as usize)));
			replace_root(&mut f, write_dir(&[0], &[0], &[n as u64], &[1]));
		}
		"meta_not_utf8" => {
			let off = le64(&f, 24) as usize;
			f[off + 2] = 0xFF;
		}
		"truncate" => {
			let n = match class {
				"zero" => 0,
				"one" => 1,
				"minus_one" => f.len() - 1,
				"max" => 127,
				"self" => root_off + 1,
				_ => f.len() / 2,
			};
			f.truncate(n);
		}
		x => panic!("pmtiles field {x}"),
	}
	f
}

fn corrupt_mbtiles(path: &Path, field: &str) {
	indep::encode_mbtiles(path, "pbf", &base_tiles().into_iter().map(|t| (t.0, t.1, t.2, indep::gzip(&t.3))).collect::<Vec<_>>(), &indep::MbChoices { as_view: false, extra_metadata: true, without_index: false });
	let conn = rusqlite::Connection::open(path).unwrap();
	let sql = match field {
		"format_unknown" => "UPDATE metadata SET value = 'tiff' WHERE name = 'format'",
		"format_missing" => "DELETE FROM metadata WHERE name = 'format'",
		"zoom_large" => "UPDATE tiles SET zoom_level = 40 WHERE zoom_level = 2",
		"zoom_negative" => "UPDATE tiles SET zoom_level = -1 WHERE zoom_level = 2",
		"column_negative" => "UPDATE tiles SET tile_column = -5 WHERE zoom_level = 2",
		"row_large" => "UPDATE tiles SET tile_row = 4000000000 WHERE zoom_level = 2",
		"data_null" => "UPDATE tiles SET tile_data = NULL WHERE zoom_level = 2",
		"no_tiles_table" => "DROP TABLE tiles",
		"metadata_bounds_text" => "INSERT INTO metadata VALUES ('bounds', 'a,b,c')",
		"metadata_json_broken" => "INSERT INTO metadata VALUES ('json', '{\"vector_layers\": [}')",
		"empty_tiles" => "DELETE FROM tiles",
		x => panic!("mbtiles field {x}"),
	};
	conn.execute_batch(sql).unwrap();
}

fn corrupt_tar(field: &str) -> Vec<u8> {
	let ch = indep::TarChoices { dot_prefix: true, dir_members: false, ustar: false, reverse: false, meta_name: "tiles.json" };
	let mut f = indep::encode_tar("pbf", "none", &base_tiles(), Some(META), &ch);
	// member 0 = tiles.json (header at 0), member 1 header at 512 + 512
	let h1 = 1024usize;
	match field {
		"size_huge" => f[h1 + 124..h1 + 135].copy_from_slice(b"77777777777"),
		"size_garbage" => f[h1 + 124..h1 + 135].copy_from_slice(b"zzzzzzzzzzz"),
		"name_not_utf8" => {
			f[h1 + 2] = 0xFF;
			f[h1 + 3] = 0xC3;
		}
		"truncated_member" => f.truncate(h1 + 512 + 10),
		"z_not_number" => f[h1 + 2] = b'x',
		"y_overflow" => {
			let name = b"./2/1/99999999999.pbf";
			for i in 0..100 {
				f[h1 + i] = 0;
			}
			f[h1..h1 + name.len()].copy_from_slice(name);
		}
		"no_tiles" => f.truncate(1024),
		"meta_broken" => {
			f[512] = b'[';
			f[513] = 0xFF;
		}
		x if x.starts_with("name:") => {
			let name = x[5..].as_bytes();
			for i in 0..100 {
				f[h1 + i] = 0;
			}
			f[h1..h1 + name.len()].copy_from_slice(name);
		}
		x => panic!("tar field {x}"),
	}
	// fix up header checksums so that the members are still recognised where possible
	for h in [0usize, h1] {
		if h + 512 <= f.len() && field != "size_garbage" {
			for c in f[h + 148..h + 156].iter_mut() {
				*c = b' ';
			}
			let sum: u32 = f[h..h + 512].iter().map(|x| *x as u32).sum();
			f[h + 148..h + 155].copy_from_slice(format!("{:06o}\0", sum).as_bytes());
		}
	}
	f
}

fn corrupt_mvt(field: &str, class: &str) -> Vec<u8> {
	let tile = json!([{"name":"roads","extent":4096,"version":2,"feats":[
		{"id":"7","gt":2,"geom":5,"props":[["kind",["s","primary"]],["lanes",["n","2"]]]},
		{"id":"none","gt":1,"geom":6,"props":[["kind",["s","x"]]]}]}]);
	let mut b = indep_mvt::encode_tile(&tile, 0);
	let v = class_value(class, 5, b.len() as u64, 0);
	let varint = |mut n: u64| {
		let mut o = vec![];
		loop {
			let x = (n & 0x7f) as u8;
			n >>= 7;
			if n == 0 {
				o.push(x);
				break;
			}
			o.push(x | 0x80);
		}
		o
	};
	// structure: 0x1a <layer len> [ 0x0a <name len> name | 0x12 <feat len> feat ... | 0x1a key | 0x22 val ... ]
	let find = |b: &[u8], pat: &[u8]| b.windows(pat.len()).position(|w| w == pat);
	match field {
		"layer_length" => {
			let mut n = vec![0x1a];
			n.extend(varint(v));
			n.extend_from_slice(&b[2..]);
			b = n;
		}
		"feature_length" => {
			let p = find(&b, &[0x12]).unwrap();
			let mut n = b[..p + 1].to_vec();
			n.extend(varint(v));
			n.extend_from_slice(&b[p + 2..]);
			b = n;
		}
		"string_length" => {
			let p = find(&b, b"\x1a\x04kind").unwrap();
			let mut n = b[..p + 1].to_vec();
			n.extend(varint(v));
			n.extend_from_slice(&b[p + 2..]);
			b = n;
		}
		"geometry_length" | "packed_length" => {
			let tag = if field == "geometry_length" { 0x22u8 } else { 0x12u8 };
			// inside the first feature: field 4 (geometry, tag 0x22) / field 2 (tags, tag 0x12)
			let fstart = find(&b, &[0x12]).unwrap() + 2;
			let p = fstart + b[fstart..].iter().position(|x| *x == tag).unwrap();
			let mut n = b[..p + 1].to_vec();
			n.extend(varint(v));
			n.extend_from_slice(&b[p + 2..]);
			b = n;
		}
		"tags_odd" | "tag_key_oob" | "tag_val_oob" | "no_layer_name" | "value_empty" | "unknown_wire_type" | "varint_overlong" | "extent_huge" => {
			// build by hand
			let mut layer = vec![];
			if field != "no_layer_name" {
				layer.extend_from_slice(&[0x0a, 1, b'l']);
			}
			let tags: Vec<u8> = match field {
				"tags_odd" => vec![0],
				"tag_key_oob" => vec![9, 0],
				"tag_val_oob" => vec![0, 9],
				_ => vec![0, 0],
			};
			let mut feat = vec![0x08, 1, 0x12, tags.len() as u8];
			feat.extend_from_slice(&tags);
			feat.extend_from_slice(&[0x18, 1, 0x22, 3, 9, 2, 2]);
			layer.push(0x12);
			layer.push(feat.len() as u8);
			layer.extend_from_slice(&feat);
			layer.extend_from_slice(&[0x1a, 1, b'k']);
			match field {
				"value_empty" => layer.extend_from_slice(&[0x22, 0]),
				"unknown_wire_type" => layer.extend_from_slice(&[0x22, 2, 0x0b, 0x01]),
				"varint_overlong" => {
					layer.extend_from_slice(&[0x22, 12, 0x28]);
					layer.extend_from_slice(&[0xff; 10]);
					layer.push(0x01);
				}
				_ => layer.extend_from_slice(&[0x22, 3, 0x0a, 1, b'v']),
			}
			if field == "extent_huge" {
				layer.push(0x28);
				layer.extend(varint(v.max(1 << 33)));
			}
			b = vec![0x1a];
			b.extend(varint(layer.len() as u64));
			b.extend_from_slice(&layer);
		}
		"truncate" => {
			let n = match class {
				"zero" => 0,
				"one" => 1,
				"minus_one" => b.len() - 1,
				_ => b.len() / 2,
			};
			b.truncate(n);
		}
		x => panic!("mvt field {x}"),
	}
	b
}

fn probe_reader(rt: &tokio::runtime::Runtime, r: Result<anyhow::Result<Box<dyn TilesReaderTrait>>, String>) -> (String, String) {
	match r {
		Err(p) => ("panic".into(), p.chars().take(160).collect()),
		Ok(Err(_)) => ("error".into(), String::new()),
		Ok(Ok(reader)) => {
			let mut out = "value".to_string();
			let mut msg = String::new();
			// two passes over the coordinates: what a first lookup leaves behind (caches, half-initialised state) must not
			// change the outcome class of the next one
			let coords = [(0u8, 0u32, 0u32), (2, 1, 2), (9, 255, 255), (9, 256, 255), (2, 0, 0), (31, 5, 5), (9, 300, 300), (2, 3, 3), (9, 254, 255)];
			for (z, x, y) in coords.iter().chain(coords.iter()).chain(coords.iter().rev()).copied() {
				let c = TileCoord3::new(x, y, z).unwrap();
				let o = oc(catch(|| rt.block_on(reader.get_tile_data(&c))));
				if o.0 == "panic" && msg.is_empty() {
					msg = o.1.clone();
				}
				out = worst(&out, o.0);
			}
			(out, msg)
		}
	}
}

fn run_bin(rt: &tokio::runtime::Runtime, dir: &Path, fmt: &str, field: &str, class: &str) -> (String, String) {
	match fmt {
		"versatiles" => {
			let bytes = corrupt_versatiles(field, class);
			note_input(bytes.len());
			// once from memory, once from a file (the file reader has its own range handling)
			let p = dir.join("c19.versatiles");
			std::fs::write(&p, &bytes).unwrap();
			let a = probe_reader(rt, catch(|| rt.block_on(async { VersaTilesReader::open_reader(Box::new(DataReaderBlob::from(bytes))).await.map(|r| r.boxed()) })));
			let b = probe_reader(rt, catch(|| rt.block_on(get_reader(p.to_str().unwrap()))));
			let _ = std::fs::remove_file(&p);
			if worst(&a.0, &b.0) == a.0 { a } else { b }
		}
		"pmtiles" => {
			let bytes = corrupt_pmtiles(field, class);
			note_input(bytes.len());
			let p = dir.join("c19.pmtiles");
			std::fs::write(&p, &bytes).unwrap();
			let a = probe_reader(rt, catch(|| rt.block_on(async { PMTilesReader::open_reader(Box::new(DataReaderBlob::from(bytes))).await.map(|r| r.boxed()) })));
			let b = probe_reader(rt, catch(|| rt.block_on(get_reader(p.to_str().unwrap()))));
			let _ = std::fs::remove_file(&p);
			if worst(&a.0, &b.0) == a.0 { a } else { b }
		}
		"mbtiles" => {
			let p = dir.join("c19.mbtiles");
			corrupt_mbtiles(&p, field);
			let r = probe_reader(rt, catch(|| MBTilesReader::open_path(&p).map(|r| r.boxed())));
			let _ = std::fs::remove_file(&p);
			r
		}
		"tar" => {
			let p = dir.join("c19.tar");
			std::fs::write(&p, corrupt_tar(field)).unwrap();
			let r = probe_reader(rt, catch(|| TarTilesReader::open_path(&p).map(|r| r.boxed())));
			let _ = std::fs::remove_file(&p);
			r
		}
		"dir" => {
			// a directory with one good tile, a tiles.json and one file with the given (out-of-range / malformed) name
			let p = dir.join("c19_dir");
			let _ = std::fs::remove_dir_all(&p);
			std::fs::create_dir_all(p.join("1/0")).unwrap();
			std::fs::write(p.join("1/0/1.pbf"), payload(1, 60, true)).unwrap();
			std::fs::write(p.join("tiles.json"), META).unwrap();
			let name = field.strip_prefix("name:").unwrap_or("2/1/1.pbf");
			let f = p.join(name);
			std::fs::create_dir_all(f.parent().unwrap()).unwrap();
			std::fs::write(&f, payload(2, 40, true)).unwrap();
			note_input(200);
			let r = probe_reader(rt, catch(|| versatiles_container::DirectoryTilesReader::open_path(&p).map(|r| r.boxed())));
			let _ = std::fs::remove_dir_all(&p);
			r
		}
		"mvt" => {
			let bytes = corrupt_mvt(field, class);
			note_input(bytes.len());
			let o = oc(catch(|| {
				versatiles_geometry::vector_tile::VectorTile::from_blob(&Blob::from(bytes)).and_then(|t| {
					for l in &t.layers {
						l.to_features()?;
					}
					t.to_blob()
				})
			}));
			(o.0.to_string(), o.1)
		}
		f => panic!("fmt {f}"),
	}
}

fn run_one(rt: &tokio::runtime::Runtime, dir: &Path, case: &Value) -> (String, String) {
	match case["k"].as_str().unwrap() {
		"text" => {
			let bytes: Vec<u8> = case["bytes"].as_array().unwrap().iter().map(|b| b.as_u64().unwrap() as u8).collect();
			run_text(rt, dir, case["dec"].as_str().unwrap(), &bytes)
		}
		"vplnum" => {
			// a special numeric token in one argument position of filter_bbox (1..4) / filter_zoom min (5) / max (6), over a
			// generated source and over a container source
			let tok = case["tok"].as_str().unwrap();
			let pos = case["pos"].as_u64().unwrap() as usize;
			let mut r = ("value".to_string(), String::new());
			for base in ["from_debug format=pbf", "from_container filename=src1"] {
				let t = match pos {
					1..=4 => {
						let mut v = ["-10", "-10", "10", "10"].map(|x| x.to_string());
						v[pos - 1] = tok.to_string();
						format!("{base} | filter_bbox bbox=[{}]", v.join(","))
					}
					5 => format!("{base} | filter_zoom min={tok}"),
					_ => format!("{base} | filter_zoom max={tok}"),
				};
				let r2 = run_text(rt, dir, "vpl", t.as_bytes());
				if worst(&r.0, &r2.0) != r.0 {
					r = r2;
				}
			}
			r
		}
		"csvrows" => {
			// a table by shape: header "rid,c1,c2"[..h], row i with n fields "i,v,v,..." (0 fields = an empty line)
			let h = case["header"].as_u64().unwrap() as usize;
			let names = ["rid", "c1", "c2"];
			let mut t = names[..h].join(",");
			t.push('\n');
			for (i, n) in case["rows"].as_array().unwrap().iter().enumerate() {
				let n = n.as_u64().unwrap() as usize;
				let fields: Vec<String> = (0..n).map(|j| if j == 0 { format!("{i}") } else { format!("v{j}") }).collect();
				t.push_str(&fields.join(","));
				t.push('\n');
			}
			run_text(rt, dir, "csv", t.as_bytes())
		}
		"ring" => {
			let (i, j) = (case["before"].as_u64().unwrap() as usize, case["after"].as_u64().unwrap() as usize);
			let dec = case["dec"].as_str().unwrap();
			let body = format!("{}\u{e9}{}", "a".repeat(i), "b".repeat(j));
			let bytes = match dec {
				"json" => format!("[\"{body}\",x]").into_bytes(),
				"csv" => format!("\"{body}\"y,z\n").into_bytes(),
				_ => format!("from_x k=\"{body}\" ]").into_bytes(),
			};
			let mut r = run_text(rt, dir, dec, &bytes);
			// the same with the multi-byte character in a number / literal position
			let bytes2 = match dec {
				"json" => format!("{{\"{}\":{}\u{e9}{}}}", "k".repeat(i), "1".repeat(j.max(1)), "").into_bytes(),
				_ => bytes.clone(),
			};
			let r2 = run_text(rt, dir, dec, &bytes2);
			if r2.0 == "panic" {
				r = r2;
			}
			r
		}
		"mbrun" => {
			let dec = case["dec"].as_str().unwrap();
			let (w, sh, n) = (case["width"].as_u64().unwrap(), case["shift"].as_u64().unwrap() as usize, case["len"].as_u64().unwrap() as usize);
			let ch = match w {
				2 => "\u{e9}",
				3 => "\u{20ac}",
				_ => "\u{1f600}",
			};
			let run = |bytes: usize| ch.repeat(bytes / ch.len() + 1);
			let pad = "x".repeat(sh);
			// an error site (stray character / bad escape / unbalanced bracket) before, inside or after the run
			let site = case["site"].as_str().unwrap();
			let (a, b) = match site {
				"start" => (String::new(), run(n)),
				"middle" => (run(n / 2), run(n / 2)),
				_ => (run(n), String::new()),
			};
			let texts: Vec<String> = match dec {
				"json" | "tilejson" => vec![
					format!("{{\"{pad}{a}\":tru,\"k\":\"{b}\"}}"),
					format!("[\"{pad}{a}\\q{b}\"]"),
					format!("{pad}{a}]{b}"),
					format!("{{\"name\":\"{pad}{a}\",\"bounds\":[1,2],\"x\":\"{b}\"}}"),
				],
				"csv" => vec![format!("id,{pad}{a}\n\"q\"z{b},1\n"), format!("\"{pad}{a}\"y{b}\n")],
				_ => vec![format!("from_x k=\"{pad}{a}\" ] p=\"{b}\""), format!("from_x {pad}{a}=1 {b}"), format!("from_x k=\"{pad}{a}\\q{b}\"")],
			};
			let mut r = ("value".to_string(), String::new());
			for t in texts {
				let r2 = run_text(rt, dir, dec, t.as_bytes());
				if worst(&r.0, &r2.0) != r.0 {
					r = r2;
				}
			}
			r
		}
		"nest" => {
			let d = case["depth"].as_u64().unwrap() as usize;
			let dec = case["dec"].as_str().unwrap();
			let bytes = match dec {
				"json" => format!("{}{}", "[".repeat(d), "]".repeat(d)).into_bytes(),
				"tilejson" => format!("{}1{}", "{\"a\":".repeat(d), "}".repeat(d)).into_bytes(),
				_ => format!("{}from_x{}", "from_l [ ".repeat(d), " ]".repeat(d)).into_bytes(),
			};
			run_text(rt, dir, if dec == "tilejson" { "json" } else { dec }, &bytes)
		}
		"bin" => run_bin(rt, dir, case["fmt"].as_str().unwrap(), case["field"].as_str().unwrap(), case["class"].as_str().unwrap()),
		k => panic!("kind {k}"),
	}
}

/// child: process cases from `start`, one result line per case (flushed), under an address-space limit and a watchdog
pub fn child(input: &str, output: &str, start: usize, dir: &str) {
	unsafe {
		let lim = libc::rlimit { rlim_cur: 8 << 30, rlim_max: libc::RLIM_INFINITY };
		libc::setrlimit(libc::RLIMIT_AS, &lim);
	}
	let cases = read_ndjson(input);
	let mut out = std::fs::OpenOptions::new().create(true).append(true).open(output).unwrap();
	let rt = tokio::runtime::Builder::new_multi_thread().worker_threads(2).enable_all().build().unwrap();
	let d = Path::new(dir);
	std::fs::create_dir_all(d).unwrap();
	let started = Arc::new(AtomicU64::new(0));
	let s2 = started.clone();
	let out_path = output.to_string();
	// one lock orders "the case got its result line" against "the watchdog gives the case a timeout line": never both
	let line_lock = Arc::new(std::sync::Mutex::new(()));
	let l2 = line_lock.clone();
	std::thread::spawn(move || loop {
		std::thread::sleep(std::time::Duration::from_millis(500));
		let _g = l2.lock().unwrap();
		let t0 = s2.load(Ordering::SeqCst);
		if t0 != 0 {
			let now = std::time::SystemTime::now().duration_since(std::time::UNIX_EPOCH).unwrap().as_millis() as u64;
			if now - t0 > 15_000 {
				let mut o = std::fs::OpenOptions::new().append(true).open(&out_path).unwrap();
				let _ = writeln!(o, "{}", json!({"outcome":"timeout","msg":"no result after 15 s","max_alloc_kib":0,"input_len":0}));
				std::process::exit(97);
			}
		}
	});
	for case in cases.iter().skip(start) {
		started.store(std::time::SystemTime::now().duration_since(std::time::UNIX_EPOCH).unwrap().as_millis() as u64, Ordering::SeqCst);
		// MBTiles readers (r2d2 pools) keep helper threads alive; their stacks would eat into the address-space limit,
		// which is meant for the decoder's own allocations: lift the soft limit for those cases
		let is_mb = case["k"] == "bin" && case["fmt"] == "mbtiles";
		if is_mb {
			unsafe {
				libc::setrlimit(libc::RLIMIT_AS, &libc::rlimit { rlim_cur: libc::RLIM_INFINITY, rlim_max: libc::RLIM_INFINITY });
			}
		}
		crate::MAX_REQ.store(0, Ordering::SeqCst);
		INPUT_LEN.store(0, Ordering::SeqCst);
		let (o, msg) = run_one(&rt, d, case);
		let _g = line_lock.lock().unwrap();
		started.store(0, Ordering::SeqCst);
		// largest single allocation request of the case in KiB (0 = none of 1 MiB or more), and the largest input it was fed
		let max_alloc_kib = (crate::MAX_REQ.load(Ordering::SeqCst) >> 10).min(i32::MAX as usize);
		writeln!(out, "{}", json!({"outcome":o,"msg":msg,"max_alloc_kib":max_alloc_kib,"input_len":INPUT_LEN.load(Ordering::SeqCst)})).unwrap();
		out.flush().unwrap();
		if is_mb {
			// leaked pool threads stay mapped: continue in a fresh child so that the limit is meaningful again
			std::process::exit(98);
		}
	}
}

/// parent: run children until every case has a result; a child that dies marks its current case as "abort"
pub fn run(input: &str, output: &str, dir: &str) -> Value {
	let cases = read_ndjson(input);
	let res_path = format!("{output}.results");
	let _ = std::fs::remove_file(&res_path);
	let exe = std::env::current_exe().unwrap();
	let count_lines = |p: &str| std::fs::File::open(p).map(|f| BufReader::new(f).lines().count()).unwrap_or(0);
	let mut restarts = 0;
	loop {
		let done = count_lines(&res_path);
		if done >= cases.len() {
			break;
		}
		let st = std::process::Command::new(&exe)
			.args(["decode-child", "C19", input, &res_path, &done.to_string(), dir])
			.stdout(std::process::Stdio::null())
			.stderr(std::process::Stdio::null())
			.status()
			.expect("spawn child");
		let now = count_lines(&res_path);
		if now >= cases.len() {
			break;
		}
		if !st.success() && st.code() != Some(97) && st.code() != Some(98) {
			// died inside case number `now`: record it
			let mut o = std::fs::OpenOptions::new().create(true).append(true).open(&res_path).unwrap();
			let how = match st.code() {
				Some(c) => format!("exit code {c}"),
				None => "killed by signal (abort / stack overflow / allocation failure)".to_string(),
			};
			writeln!(o, "{}", json!({"outcome":"abort","msg":how,"max_alloc_kib":0,"input_len":0})).unwrap();
		}
		restarts += 1;
		if restarts > 5000 {
			break;
		}
	}
	let results = read_ndjson(&res_path);
	let mut out = Out::create(output);
	let mut counts: std::collections::BTreeMap<String, u64> = Default::default();
	for (i, c) in cases.iter().enumerate() {
		let r = results.get(i).cloned().unwrap_or(json!({"outcome":"missing","msg":"","max_alloc_kib":0,"input_len":0}));
		*counts.entry(r["outcome"].as_str().unwrap().to_string()).or_default() += 1;
		let mut ev = json!({"ev":"decode","id":i,"case":c,"outcome":r["outcome"],"msg":r["msg"],"max_alloc_kib":r["max_alloc_kib"],"input_len":r["input_len"]});
		if c["k"] == "text" {
			// keep the event small: bytes stay, as list
			ev["case"] = c.clone();
		}
		out.emit(&ev);
	}
	let _ = std::fs::remove_file(&res_path);
	let lines = out.finish();
	json!({"cases": cases.len(), "events": lines, "outcomes": counts, "child_restarts": restarts})
}
