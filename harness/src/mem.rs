//! In-memory tile source (TilesReaderTrait) and payload generator shared by the container checks.
use crate::util::Rng;
use anyhow::Result;
use async_trait::async_trait;
use std::collections::HashMap;
use versatiles_core::tilejson::TileJSON;
use versatiles_core::types::*;

#[derive(Debug, Clone)]
pub struct MemReader {
	pub name: String,
	pub params: TilesReaderParameters,
	pub tilejson: TileJSON,
	pub tiles: HashMap<TileCoord3, Blob>,
}

impl MemReader {
	/// coverage = bounding box per level of the given tiles
	pub fn new(name: &str, format: TileFormat, compression: TileCompression, tiles: Vec<(TileCoord3, Blob)>) -> Self {
		let mut pyramid = TileBBoxPyramid::new_empty();
		for (c, _) in &tiles {
			pyramid.include_coord(c);
		}
		MemReader {
			name: name.to_string(),
			params: TilesReaderParameters::new(format, compression, pyramid),
			tilejson: TileJSON::default(),
			tiles: tiles.into_iter().collect(),
		}
	}
}

#[async_trait]
impl TilesReaderTrait for MemReader {
	fn get_source_name(&self) -> &str {
		&self.name
	}
	fn get_container_name(&self) -> &str {
		"mem"
	}
	fn get_parameters(&self) -> &TilesReaderParameters {
		&self.params
	}
	fn override_compression(&mut self, tile_compression: TileCompression) {
		self.params.tile_compression = tile_compression;
	}
	fn get_tilejson(&self) -> &TileJSON {
		&self.tilejson
	}
	async fn get_tile_data(&self, coord: &TileCoord3) -> Result<Option<Blob>> {
		Ok(self.tiles.get(coord).cloned())
	}
}

/// The same source answering box streams from its stored tiles instead of through the trait's default implementation
/// (which enumerates every coordinate of the box): used for sparse deep tile sets, where the cost of the SOURCE must not
/// hide the cost of the writer under test.
#[derive(Debug, Clone)]
pub struct SparseMemReader(pub MemReader);

#[async_trait]
impl TilesReaderTrait for SparseMemReader {
	fn get_source_name(&self) -> &str {
		&self.0.name
	}
	fn get_container_name(&self) -> &str {
		"mem"
	}
	fn get_parameters(&self) -> &TilesReaderParameters {
		&self.0.params
	}
	fn override_compression(&mut self, tile_compression: TileCompression) {
		self.0.params.tile_compression = tile_compression;
	}
	fn get_tilejson(&self) -> &TileJSON {
		&self.0.tilejson
	}
	async fn get_tile_data(&self, coord: &TileCoord3) -> Result<Option<Blob>> {
		Ok(self.0.tiles.get(coord).cloned())
	}
	async fn get_bbox_tile_stream(&self, bbox: TileBBox) -> TileStream {
		let mut v: Vec<(TileCoord3, Blob)> = self.0.tiles.iter().filter(|(c, _)| bbox.contains3(c)).map(|(c, b)| (*c, b.clone())).collect();
		v.sort_by_key(|(c, _)| (c.z, c.y, c.x));
		TileStream::from_vec(v)
	}
}

/// A source whose single-tile lookups do not answer at once (as with real files, HTTP or a contended cache): the lookup
/// suspends `yields` times before it returns. Earlier-listed sources get MORE suspensions from the drivers, so anything
/// that depends on the order in which concurrent lookups complete shows.
#[derive(Debug, Clone)]
pub struct SlowMemReader {
	pub inner: MemReader,
	pub yields: usize,
}

#[async_trait]
impl TilesReaderTrait for SlowMemReader {
	fn get_source_name(&self) -> &str {
		&self.inner.name
	}
	fn get_container_name(&self) -> &str {
		"mem"
	}
	fn get_parameters(&self) -> &TilesReaderParameters {
		&self.inner.params
	}
	fn override_compression(&mut self, tile_compression: TileCompression) {
		self.inner.params.tile_compression = tile_compression;
	}
	fn get_tilejson(&self) -> &TileJSON {
		&self.inner.tilejson
	}
	async fn get_tile_data(&self, coord: &TileCoord3) -> Result<Option<Blob>> {
		for _ in 0..self.yields {
			tokio::task::yield_now().await;
		}
		Ok(self.inner.tiles.get(coord).cloned())
	}
}

/// Deterministic payload bytes for a payload id: equal ids are byte-equal, different ids differ.
/// `size` bytes; `compressible` chooses repetitive or pseudo-random content. The id is embedded at the start.
pub fn payload(id: u32, size: usize, compressible: bool) -> Vec<u8> {
	let mut v = Vec::with_capacity(size.max(4));
	v.extend_from_slice(&id.to_be_bytes());
	if compressible {
		while v.len() < size {
			v.push(b'a' + (id % 7) as u8);
		}
	} else {
		let mut r = Rng::new(0x9a71 ^ id as u64);
		let rest = r.bytes(size.saturating_sub(4));
		v.extend_from_slice(&rest);
	}
	v.truncate(size.max(4));
	v
}

/// payload by class code: 0 incompressible, 1 compressible, 2 = the payload is ITSELF a gzip stream (starts 1f 8b 08),
/// 3 = itself a brotli stream: content that merely looks like an encoding must be treated as content
pub fn payload_c(id: u32, size: usize, code: u8) -> Vec<u8> {
	match code {
		0 => payload(id, size, false),
		1 => payload(id, size, true),
		2 => crate::indep::encode("gzip", &payload(id, size, true)),
		4 => vec![], // the empty payload
		_ => crate::indep::encode("brotli", &payload(id, size, true)),
	}
}

/// short stable hash of bytes (FNV-1a 64 folded to 31 bits so that TLC can hold it)
pub fn h31(b: &[u8]) -> u32 {
	let mut h: u64 = 0xcbf29ce484222325;
	for x in b {
		h ^= *x as u64;
		h = h.wrapping_mul(0x100000001b3);
	}
	((h ^ (h >> 31)) & 0x7fff_ffff) as u32
}
