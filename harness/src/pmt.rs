//! PMTiles addressing (spec/Layout_PMTiles.tla): TLC-enumerated levels and directories replayed on the real
//! tile-id functions and on EntriesV3::find_tile (hook H4 exports them); Trace_PMTiles judges.
use crate::util::*;
use serde_json::{json, Value};
use versatiles_container::verif_pmtiles::{tile_id_to_coord, EntriesV3, EntryV3, TileId};
use versatiles_core::types::{ByteRange, TileCoord3};

pub fn replay(input: &str, output: &str) -> Value {
	let cases = read_ndjson(input);
	let mut out = Out::create(output);
	let (mut nl, mut nd) = (0u64, 0u64);
	for (n, c) in cases.iter().enumerate() {
		match c["k"].as_str().unwrap() {
			"level" => {
				let z = c["z"].as_u64().unwrap() as u8;
				let first = c["first"].as_u64().unwrap();
				let count = c["count"].as_u64().unwrap();
				// every coordinate of the level -> id
				let mut ids_of_coords = vec![];
				for y in 0..(1u32 << z) {
					for x in 0..(1u32 << z) {
						let id: i64 = match catch(|| TileCoord3::new(x, y, z).unwrap().get_tile_id()) {
							Ok(Ok(id)) => id as i64,
							Ok(Err(_)) => -1,
							Err(_) => -3,
						};
						ids_of_coords.push(json!([x, y, id]));
					}
				}
				// every id of the level (and one before / after it) -> coordinate
				let mut coords_of_ids = vec![];
				let lo = first.saturating_sub(1);
				for id in lo..=(first + count) {
					let v = match catch(|| tile_id_to_coord(id)) {
						Ok(Ok(c)) => json!([id, c.z, c.x, c.y]),
						Ok(Err(_)) => json!([id, -1, 0, 0]),
						Err(_) => json!([id, -3, 0, 0]),
					};
					coords_of_ids.push(v);
				}
				out.emit(&json!({"ev":"level","id":n,"z":z,"first":first,"count":count,"ids_of_coords":ids_of_coords,"coords_of_ids":coords_of_ids}));
				nl += 1;
			}
			"dir" => {
				let mut es = EntriesV3::new();
				for (i, e) in c["entries"].as_array().unwrap().iter().enumerate() {
					es.push(EntryV3::new(e["id"].as_u64().unwrap(), ByteRange::new(100 * (i as u64 + 1), 10), e["run"].as_u64().unwrap() as u32));
				}
				let mut answers = vec![];
				for q in c["queries"].as_array().unwrap() {
					let id = q["id"].as_u64().unwrap();
					// the answer as the 1-based index of the returned entry (identified by its byte range), 0 = None
					let idx: i64 = match catch(|| es.find_tile(id)) {
						Ok(Some(e)) => (e.range.offset / 100) as i64,
						Ok(None) => 0,
						Err(_) => -3,
					};
					answers.push(json!([id, idx]));
				}
				out.emit(&json!({"ev":"dir","id":n,"entries":c["entries"],"answers":answers}));
				nd += 1;
			}
			k => panic!("kind {k}"),
		}
	}
	let lines = out.finish();
	json!({"cases": cases.len(), "events": lines, "levels": nl, "dirs": nd})
}
