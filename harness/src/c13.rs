//! C13 — concurrent reads on one opened file-backed reader.
//!  * `steps`: single-threaded read_range/read_all calls bracketed by marker writes, run under strace
//!    by the check to extract the syscall step structure that FileReader.tla is instantiated with.
//!  * `stress`: many OS threads / tokio tasks issue reads and tile lookups on ONE reader instance;
//!    each result is logged; Trace_C13 compares with the sequential result.
use crate::mem::*;
use crate::util::*;
use serde_json::{json, Value};
use std::path::Path;
use std::sync::Arc;
use versatiles_container::*;
use versatiles_core::io::*;
use versatiles_core::types::*;

fn marker(s: &str) {
	let m = format!("VMARK {s}\n");
	unsafe {
		libc::write(2, m.as_ptr() as *const libc::c_void, m.len());
	}
}

/// data file of `words` big-endian 8-byte counters: word k holds k
fn make_data_file(path: &Path, words: u64) {
	let mut v = Vec::with_capacity((words * 8) as usize);
	for k in 0..words {
		v.extend_from_slice(&k.to_be_bytes());
	}
	std::fs::write(path, v).unwrap();
}

pub fn steps(dir: &str) -> Value {
	// sparse 80 MiB file: the probe only looks at syscalls, not at content
	let p = Path::new(dir).join("c13_steps.bin");
	{
		let f = std::fs::File::create(&p).unwrap();
		f.set_len(80 << 20).unwrap();
	}
	let reader = DataReaderFile::open(&p).unwrap();
	marker("opened");
	// range lengths 2^k and 2^k + 8 for k = 3..26: a size-dependent code path shows up as its own step structure
	let mut i = 0;
	for k in 3..=26u32 {
		for len in [1u64 << k, (1u64 << k) + 8] {
			marker(&format!("begin read_range {i}"));
			let b = futures::executor::block_on(reader.read_range(&ByteRange::new(8, len))).unwrap();
			marker(&format!("end read_range {i}"));
			assert_eq!(b.len() as u64, len);
			i += 1;
		}
	}
	marker("begin read_all 0");
	let b = futures::executor::block_on(reader.read_all()).unwrap();
	marker("end read_all 0");
	assert_eq!(b.len(), 80 << 20);
	drop(reader);
	let _ = std::fs::remove_file(&p);
	json!({"calls": i + 1})
}

/// read length in 8-byte words: mostly tile-sized, sometimes around 64 KiB / 1 MiB / 4 MiB
fn rnd_len(r: &mut Rng) -> u64 {
	match r.below(40) {
		0 => (1 << 13) + r.below(3),       // 64 KiB
		1 => (1 << 17) - 1 + r.below(3),   // 1 MiB -1/0/+1 word
		2 => (1 << 18) + r.below(1000),    // 2 MiB
		3 => (1 << 19) + r.below(1000),    // 4 MiB
		_ => r.range(1, 64),
	}
}

fn judge_words(b: &[u8]) -> (i64, i64, i64) {
	// projection bytes -> (first word, last word, contiguous)
	if b.len() % 8 != 0 || b.is_empty() {
		return (-1, -1, 0);
	}
	let w: Vec<u64> = b.chunks(8).map(|c| u64::from_be_bytes(c.try_into().unwrap())).collect();
	let contig = w.windows(2).all(|p| p[1] == p[0] + 1);
	(w[0] as i64, *w.last().unwrap() as i64, contig as i64)
}

fn read_event(mode: &str, t: usize, off_w: u64, len_w: u64, r: Result<anyhow::Result<Blob>, String>) -> Value {
	match r {
		Ok(Ok(b)) => {
			let (first, last, contig) = judge_words(b.as_slice());
			json!({"ev":"Read","mode":mode,"t":t,"off":off_w,"len":len_w,"first":first,"last":last,"contig":contig,"ok":1})
		}
		_ => json!({"ev":"Read","mode":mode,"t":t,"off":off_w,"len":len_w,"first":-1,"last":-1,"contig":0,"ok":0}),
	}
}

fn container_tiles(rng: &mut Rng, n: usize) -> Vec<(TileCoord3, Blob)> {
	// tiles on levels 3..9 incl. both sides of the 256-block grid at level 9; sizes 10..3000 bytes
	let mut m = std::collections::HashMap::new();
	while m.len() < n {
		let z = rng.range(3, 9) as u8;
		let max = (1u32 << z) - 1;
		let (x, y) = if z == 9 && rng.chance(1, 2) { (rng.range(250, 262) as u32, rng.range(250, 262) as u32) } else { (rng.below(max as u64 + 1) as u32, rng.below(max as u64 + 1) as u32) };
		let id = m.len() as u32 + 1;
		m.insert(TileCoord3::new(x, y, z).unwrap(), Blob::from(payload(id, rng.range(10, 3000) as usize, rng.chance(1, 2))));
	}
	m.into_iter().collect()
}

pub fn stress(dir: &str, output: &str, seed: u64, thorough: bool) -> Value {
	let mut out = Out::create(output);
	let mut rng = Rng::new(seed ^ 0xC13);
	let words: u64 = 1 << 22; // 32 MiB
	let p = Path::new(dir).join("c13_data.bin");
	make_data_file(&p, words);
	out.emit(&json!({"ev":"File","words":words}));
	let reader: Arc<Box<DataReaderFile>> = Arc::new(DataReaderFile::open(&p).unwrap());
	let per_thread = if thorough { 4000 } else { 600 };
	let mut total_reads = 0u64;
	// (a) OS threads
	for nthreads in [2usize, 4, 8, 16] {
		let mut handles = vec![];
		for t in 0..nthreads {
			let reader = reader.clone();
			let mut r = Rng::new(seed ^ ((nthreads as u64) << 8) ^ t as u64);
			handles.push(std::thread::spawn(move || {
				let mut evs = vec![];
				for _ in 0..per_thread {
					let len = rnd_len(&mut r);
					let off = r.below(words - len);
					let res = catch(|| futures::executor::block_on(reader.read_range(&ByteRange::new(off * 8, len * 8))));
					evs.push(read_event("threads", t, off, len, res));
				}
				evs
			}));
		}
		for h in handles {
			for e in h.join().unwrap() {
				out.emit(&e);
				total_reads += 1;
			}
		}
	}
	// (b) tasks on a multi-threaded tokio runtime
	let rt = tokio::runtime::Builder::new_multi_thread().worker_threads(8).enable_all().build().unwrap();
	for ntasks in [2usize, 16] {
		let evs: Vec<Value> = rt.block_on(async {
			let mut hs = vec![];
			for t in 0..ntasks {
				let reader = reader.clone();
				let mut r = Rng::new(seed ^ 0x70c10 ^ ((ntasks as u64) << 8) ^ t as u64);
				hs.push(tokio::spawn(async move {
					let mut evs = vec![];
					for i in 0..per_thread {
						let len = rnd_len(&mut r);
						let off = r.below(words - len);
						let res = reader.read_range(&ByteRange::new(off * 8, len * 8)).await;
						evs.push(read_event("tokio", t, off, len, Ok(res)));
						if i % 16 == 0 {
							tokio::task::yield_now().await;
						}
					}
					evs
				}));
			}
			let mut all = vec![];
			for h in hs {
				all.extend(h.await.unwrap());
			}
			all
		});
		for e in evs {
			out.emit(&e);
			total_reads += 1;
		}
	}
	// (c) tile lookups on real containers written by the real writers
	let ntiles = if thorough { 1500 } else { 400 };
	let tiles = container_tiles(&mut rng, ntiles);
	let coords: Vec<TileCoord3> = tiles.iter().map(|(c, _)| *c).collect();
	let mut lookups = 0u64;
	// the same containers once more through the HTTP data reader (range requests against a local server)
	let httpd = crate::httpd::RangeServer::start(Path::new(dir));
	// 48 tiles of 1 MiB in ONE block: a chunk read of the versatiles reader then takes milliseconds, so that many concurrent
	// streams really are inside it at the same time (what is rare with small tiles is certain with big ones)
	let tiles_big: Vec<(TileCoord3, Blob)> = (0..48u32).map(|i| (TileCoord3::new(i % 16, i / 16, 4).unwrap(), Blob::from(payload(9000 + i, 1 << 20, false)))).collect();
	let coords_big: Vec<TileCoord3> = tiles_big.iter().map(|(c, _)| *c).collect();
	let (tiles_small, coords_small) = (tiles, coords);
	for (src, ext) in [("versatiles", "versatiles"), ("pmtiles", "pmtiles"), ("tar", "tar"), ("pmtiles_leaves", "pmtiles"), ("versatiles_http", "versatiles"), ("pmtiles_http", "pmtiles"), ("versatiles_big", "versatiles")] {
		let (tiles, coords) = if src == "versatiles_big" { (tiles_big.clone(), coords_big.clone()) } else { (tiles_small.clone(), coords_small.clone()) };
		let path = Path::new(dir).join(format!("c13.{ext}"));
		let _ = std::fs::remove_file(&path);
		if src == "pmtiles_leaves" {
			// a PMTiles file whose entries live in many small LEAF directories (the writer only produces them for > 16 k
			// tiles): concurrent callers then work in different leaves
			let raw: Vec<crate::indep::Tile> = tiles.iter().map(|(c, b)| (c.z, c.x, c.y, b.as_slice().to_vec())).collect();
			std::fs::write(&path, crate::indep::encode_pmtiles("pbf", "none", &raw, None, &crate::indep::PmChoices { run_lengths: false, share: false, leaf_levels: 1, leaf_size: 5, mixed_root: false, internal: "gzip", unclustered: false, type_unknown: false })).unwrap();
		} else {
			let mut mem = MemReader::new("c13", TileFormat::PBF, TileCompression::Uncompressed, tiles.clone());
			rt.block_on(write_to_filename(&mut mem, path.to_str().unwrap())).unwrap();
		}
		let location = if src.ends_with("_http") { format!("http://127.0.0.1:{}/c13.{ext}", httpd.port) } else { path.to_str().unwrap().to_string() };
		let reader: Arc<Box<dyn TilesReaderTrait>> = Arc::new(rt.block_on(get_reader(&location)).unwrap());
		// sequential reference on a FRESH reader instance (so caches start cold in the concurrent phase too)
		{
			let seq = rt.block_on(get_reader(&location)).unwrap();
			for c in &coords {
				let h = match rt.block_on(seq.get_tile_data(c)) {
					Ok(Some(b)) => h31(b.as_slice()) as i64,
					Ok(None) => 0,
					Err(_) => -1,
				};
				out.emit(&json!({"ev":"Seq","src":src,"z":c.z,"x":c.x,"y":c.y,"h":h}));
			}
		}
		let rounds = if thorough { 4 } else { 2 };
		let evs: Vec<Value> = rt.block_on(async {
			let mut hs = vec![];
			for t in 0..16usize {
				let reader = reader.clone();
				let coords = coords.clone();
				let mut r = Rng::new(seed ^ 0x100c ^ t as u64);
				hs.push(tokio::spawn(async move {
					let mut evs = vec![];
					// (many more lookups where the per-lookup state is richest: leaf directories)
					let per_task = if src == "pmtiles_leaves" { 4000 * rounds } else { (rounds * coords.len() / 16).max(20) };
					for i in 0..per_task {
						let c = *r.pick(&coords);
						let h = match reader.get_tile_data(&c).await {
							Ok(Some(b)) => h31(b.as_slice()) as i64,
							Ok(None) => 0,
							Err(_) => -1,
						};
						evs.push(json!({"ev":"Conc","src":src,"t":t,"z":c.z,"x":c.x,"y":c.y,"h":h}));
						// now and then the BULK form of a lookup: a box stream around the coordinate, while the other tasks go on
						// with their lookups; every delivered (coordinate, bytes) pair is one more concurrent result
						if i % 40 == 7 {
							let max = ((1u64 << c.z) - 1) as u32;
							let bbox = TileBBox::new(c.z, c.x.saturating_sub(8), c.y.saturating_sub(8), c.x.saturating_add(8).min(max), c.y.saturating_add(8).min(max)).unwrap();
							let bb = bbox.clone();
							let items: Vec<(TileCoord3, Blob)> = match tokio::time::timeout(std::time::Duration::from_secs(120), async { reader.get_bbox_tile_stream(bb).await.collect().await }).await {
								Ok(v) => v,
								Err(_) => {
									evs.push(json!({"ev":"Conc","src":src,"t":t,"z":c.z,"x":c.x,"y":c.y,"h":-1,"via":"stream_hang"}));
									vec![]
								}
							};
							let mut seen: std::collections::HashSet<TileCoord3> = Default::default();
							for (cc, b) in items {
								// (a coordinate delivered twice: the second delivery is reported as a result of its own that no lookup gives)
								let h = if seen.insert(cc) { h31(b.as_slice()) as i64 } else { -2 };
								evs.push(json!({"ev":"Conc","src":src,"t":t,"z":cc.z,"x":cc.x,"y":cc.y,"h":h,"via":"stream"}));
							}
							// a stored tile inside the box that the stream did NOT deliver is a result too: "nothing"
							for cc in coords.iter().filter(|cc| bbox.contains3(cc) && !seen.contains(cc)) {
								evs.push(json!({"ev":"Conc","src":src,"t":t,"z":cc.z,"x":cc.x,"y":cc.y,"h":0,"via":"stream_missing"}));
							}
						}
					}
					evs
				}));
			}
			let mut all = vec![];
			for h in hs {
				match h.await {
					Ok(v) => all.extend(v),
					// a task that DIED (a panic inside the reader) is a concurrent result as well: "no bytes" for a stored tile
					Err(_) => all.push(json!({"ev":"Conc","src":src,"t":999,"z":coords[0].z,"x":coords[0].x,"y":coords[0].y,"h":-1,"via":"task_died"})),
				}
			}
			all
		});
		for e in evs {
			out.emit(&e);
			lookups += 1;
		}
		// many box streams AT THE SAME TIME (a reader may treat a crowd differently from a few): 12 tasks start together and
		// do nothing but stream boxes; every delivered / missing / duplicated tile is a concurrent result as above.  Equal
		// results (same coordinate, same bytes) of a task are logged ONCE with their number of occurrences `n`.
		if !src.ends_with("_http") {
			let barrier = Arc::new(tokio::sync::Barrier::new(12));
			let evs: Vec<Value> = rt.block_on(async {
				let mut hs = vec![];
				for t in 0..12usize {
					let reader = reader.clone();
					let coords = coords.clone();
					let barrier = barrier.clone();
					let mut r = Rng::new(seed ^ 0x57e4 ^ t as u64);
					hs.push(tokio::spawn(async move {
						let mut agg: std::collections::HashMap<(u8, u32, u32, i64, &'static str), u64> = Default::default();
						// (the versatiles reader has a stream implementation of its own that works block-wise: large boxes are cheap
						// there; the other readers look every coordinate of the box up: small boxes, fewer rounds)
						let (rounds, half) = match src {
							"versatiles" => (if thorough { 1500 } else { 500 }, 300u32),
							"versatiles_big" => (if thorough { 36 } else { 12 }, 300u32),
							_ => (if thorough { 90 } else { 30 }, 6u32),
						};
						for round in 0..rounds {
							// (the crowd is re-aligned before every round where a round is long, otherwise every 50 rounds)
							if src == "versatiles_big" || round % 50 == 0 {
								// (a member of the crowd that died never arrives: do not wait for it for ever)
								let _ = tokio::time::timeout(std::time::Duration::from_secs(30), barrier.wait()).await;
							}
							let c = *r.pick(&coords);
							let max = ((1u64 << c.z) - 1) as u32;
							// (a box of 600 x 600 tiles around the coordinate: several blocks, i.e. several chunk reads per stream)
							let bbox = TileBBox::new(c.z, c.x.saturating_sub(half), c.y.saturating_sub(half), c.x.saturating_add(half).min(max), c.y.saturating_add(half).min(max)).unwrap();
							let bb = bbox.clone();
							let items: Vec<(TileCoord3, Blob)> = match tokio::time::timeout(std::time::Duration::from_secs(120), async { reader.get_bbox_tile_stream(bb).await.collect().await }).await {
								Ok(v) => v,
								Err(_) => {
									*agg.entry((c.z, c.x, c.y, -1, "stream_hang")).or_default() += 1;
									vec![]
								}
							};
							let mut seen: std::collections::HashSet<TileCoord3> = Default::default();
							for (cc, b) in items {
								let h = if seen.insert(cc) { h31(b.as_slice()) as i64 } else { -2 };
								*agg.entry((cc.z, cc.x, cc.y, h, "stream_crowd")).or_default() += 1;
							}
							for cc in coords.iter().filter(|cc| bbox.contains3(cc) && !seen.contains(cc)) {
								*agg.entry((cc.z, cc.x, cc.y, 0, "stream_missing")).or_default() += 1;
							}
						}
						let mut keys: Vec<_> = agg.into_iter().collect();
						keys.sort();
						keys.into_iter().map(|((z, x, y, h, via), n)| json!({"ev":"Conc","src":src,"t":200 + t,"z":z,"x":x,"y":y,"h":h,"via":via,"n":n})).collect::<Vec<Value>>()
					}));
				}
				let mut all = vec![];
				for h in hs {
					match h.await {
					Ok(v) => all.extend(v),
					// a task that DIED (a panic inside the reader) is a concurrent result as well: "no bytes" for a stored tile
					Err(_) => all.push(json!({"ev":"Conc","src":src,"t":999,"z":coords[0].z,"x":coords[0].x,"y":coords[0].y,"h":-1,"via":"task_died"})),
				}
				}
				all
			});
			for e in evs {
				out.emit(&e);
				lookups += 1;
			}
		}
		// the same from plain OS threads, each driving its lookups with its own minimal executor (no runtime of its own)
		if !src.ends_with("_http") {
			// (their own sequential reference, obtained the same way -- a plain thread and a minimal executor, on a fresh reader --
			// so that "what the call returns when it runs alone" is measured under the same conditions)
			{
				let seq = rt.block_on(get_reader(&location)).unwrap();
				let coords2 = coords.clone();
				let src2 = format!("{src}@os");
				let evs = std::thread::spawn(move || {
					coords2
						.iter()
						.map(|c| {
							let h = match catch(|| futures::executor::block_on(seq.get_tile_data(c))) {
								Ok(Ok(Some(b))) => h31(b.as_slice()) as i64,
								Ok(Ok(None)) => 0,
								_ => -1,
							};
							json!({"ev":"Seq","src":src2,"z":c.z,"x":c.x,"y":c.y,"h":h})
						})
						.collect::<Vec<_>>()
				})
				.join()
				.unwrap();
				for e in evs {
					out.emit(&e);
				}
			}
			let mut handles = vec![];
			for t in 0..4usize {
				let reader = reader.clone();
				let coords = coords.clone();
				let mut r = Rng::new(seed ^ 0x05e7 ^ t as u64);
				let src = src.to_string();
				handles.push(std::thread::spawn(move || {
					let mut evs = vec![];
					for _ in 0..(if src == "pmtiles_leaves" { 2000 } else if src == "versatiles_big" { 40 } else { 200 }) {
						let c = *r.pick(&coords);
						let h = match catch(|| futures::executor::block_on(reader.get_tile_data(&c))) {
							Ok(Ok(Some(b))) => h31(b.as_slice()) as i64,
							Ok(Ok(None)) => 0,
							_ => -1,
						};
						evs.push(json!({"ev":"Conc","src":format!("{src}@os"),"t":100 + t,"z":c.z,"x":c.x,"y":c.y,"h":h,"via":"os_thread"}));
					}
					evs
				}));
			}
			for h in handles {
				for e in h.join().unwrap() {
					out.emit(&e);
					lookups += 1;
				}
			}
		}
		let _ = std::fs::remove_file(&path);
	}
	let _ = std::fs::remove_file(&p);
	let lines = out.finish();
	json!({"events": lines, "reads": total_reads, "lookups": lookups, "tiles": ntiles, "http_range_requests": httpd.requests.load(std::sync::atomic::Ordering::Relaxed)})
}

// ------------------------------------------------------------------------------------------------------------------
/// Tile-index cache protocol of VersaTilesReader under real concurrency (spec/Reader.tla, trace/Trace_Reader.tla).
/// Hook H2 logs one event per critical section of the cache mutex (Hit / Fill with the cache's key set, taken while the
/// lock is held); the harness logs Start / Done of every lookup into the SAME log, so one lock orders everything.
pub fn cache_trace(output: &str, dir: &str, seed: u64, thorough: bool) -> Value {
	use crate::indep;
	use crate::mem::payload;
	use versatiles_container::{verif_trace, VersaTilesReader};
	use versatiles_core::types::{TileCoord3, TilesReaderTrait};
	let mut out = Out::create(output);
	let d = Path::new(dir);
	std::fs::create_dir_all(d).unwrap();
	// 6 blocks on level 10 (4x4 block grid), 3 tiles each, distinct payloads; one more tile on level 3
	let blocks: [(u32, u32); 6] = [(0, 0), (1, 0), (3, 1), (2, 2), (0, 3), (3, 3)];
	let mut tiles: Vec<(u8, u32, u32, u32)> = vec![(3, 1, 2, 1)];
	let mut pid = 2;
	for (bx, by) in blocks {
		for (dx, dy) in [(0u32, 0u32), (17, 200), (255, 255)] {
			tiles.push((10, bx * 256 + dx, by * 256 + dy, pid));
			pid += 1;
		}
	}
	let raw: Vec<indep::Tile> = tiles.iter().map(|t| (t.0, t.1, t.2, payload(t.3, 64 + t.3 as usize, true))).collect();
	let by_bytes: std::collections::HashMap<Vec<u8>, u32> = raw.iter().zip(tiles.iter()).map(|(r, t)| (r.3.clone(), t.3)).collect();
	let want: std::collections::HashMap<(u8, u32, u32), u32> = tiles.iter().map(|t| ((t.0, t.1, t.2), t.3)).collect();
	let path = d.join("c13_cache.versatiles");
	std::fs::write(&path, indep::encode_versatiles("pbf", "none", &raw, None, &indep::VtChoices { partial_blocks: true, reverse_tiles: false, share_all: false, index_first: false, shuffle_blocks: false, gap: 0 })).unwrap();
	let rt = tokio::runtime::Builder::new_multi_thread().worker_threads(6).enable_all().build().unwrap();
	let per_task = if thorough { 120 } else { 30 };
	let (mut lookups, mut rounds) = (0u64, 0u64);
	for (round, (cap, ntasks)) in [(1usize, 2usize), (2, 4), (2, 8), (3, 8), (1, 8), (100, 8)].into_iter().enumerate() {
		std::env::set_var("VERSATILES_VERIF_INDEX_CACHE", cap.to_string());
		let reader = std::sync::Arc::new(rt.block_on(VersaTilesReader::open_path(&path)).unwrap());
		let _ = verif_trace::take();
		out.emit(&json!({"ev":"Reset","cap":cap,"tasks":ntasks,"blocks":blocks.iter().map(|b| json!([10, b.0, b.1])).chain(std::iter::once(json!([3, 0, 0]))).collect::<Vec<_>>()}));
		rt.block_on(async {
			let mut hs = vec![];
			for t in 0..ntasks {
				let reader = reader.clone();
				let tiles = tiles.clone();
				let want = want.clone();
				let by_bytes = by_bytes.clone();
				let mut r = Rng::new(seed ^ 0xCAC4E ^ ((round as u64) << 16) ^ t as u64);
				hs.push(tokio::spawn(async move {
					for _ in 0..per_task {
						// a stored tile, or an absent coordinate inside a stored block
						let base = tiles[r.below(tiles.len() as u64) as usize];
						// (level 10 only: there the blocks' coverage is the whole block, so the neighbour is inside a stored block)
						let (z, x, y) = if base.0 == 10 && r.chance(1, 4) { (base.0, base.1 ^ 1, base.2) } else { (base.0, base.1, base.2) };
						let blk = if z == 10 { (10u8, x / 256, y / 256) } else { (3u8, 0, 0) };
						verif_trace::emit_raw(format!("{{\"ev\":\"Start\",\"task\":{},\"block\":[{},{},{}],\"tile\":[{z},{x},{y}]}}", t + 1, blk.0, blk.1, blk.2));
						let got: i64 = match reader.get_tile_data(&TileCoord3::new(x, y, z).unwrap()).await {
							Ok(Some(b)) => by_bytes.get(b.as_slice()).map(|p| *p as i64).unwrap_or(-2),
							Ok(None) => 0,
							Err(_) => -1,
						};
						let w = want.get(&(z, x, y)).copied().unwrap_or(0);
						verif_trace::emit_raw(format!("{{\"ev\":\"Done\",\"task\":{},\"block\":[{},{},{}],\"tile\":[{z},{x},{y}],\"got\":{got},\"want\":{w}}}", t + 1, blk.0, blk.1, blk.2));
						if r.chance(1, 3) {
							tokio::task::yield_now().await;
						}
					}
				}));
			}
			for h in hs {
				let _ = h.await;
			}
		});
		for line in verif_trace::take() {
			let v: Value = serde_json::from_str(&line).unwrap();
			lookups += (v["ev"] == "Done") as u64;
			out.emit(&v);
		}
		rounds += 1;
	}
	std::env::remove_var("VERSATILES_VERIF_INDEX_CACHE");
	let _ = std::fs::remove_file(&path);
	let lines = out.finish();
	json!({"events": lines, "lookups": lookups, "rounds": rounds})
}
