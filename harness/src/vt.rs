//! C10 / C11 — vector tile merge and property update, driven through the real PipelineFactory; source tiles
//! are produced by the independent MVT encoder (with table-layout variants), delivered tiles are projected to
//! the semantic view by the independent decoder; Trace_VT judges with VectorTile.tla.
use crate::indep;
use crate::indep_mvt::*;
use crate::mem::MemReader;
use crate::util::*;
use futures::future::BoxFuture;
use serde_json::{json, Value};
use std::collections::HashMap;
use std::path::Path;
use std::sync::{Arc, Mutex};
use versatiles_container::PipelineReader;
use versatiles_core::types::*;
use versatiles_pipeline::PipelineFactory;

const Z: u8 = 3;
const X: u32 = 1;
const Y: u32 = 2;

fn filler(k: usize) -> Vec<u8> {
	encode_tile(&json!([{"name":"fill","extent":4096,"version":2,"feats":[{"id":"none","gt":1,"geom":k + 10,"props":[["src",["n",k.to_string()]]]}]}]), 0)
}

fn factory_for(dir: &Path, sources: Vec<MemReader>) -> PipelineFactory {
	let reg: Arc<Mutex<HashMap<String, MemReader>>> = Arc::new(Mutex::new(sources.into_iter().map(|m| (m.name.clone(), m)).collect()));
	let callback = Box::new(move |filename: String| -> BoxFuture<'static, anyhow::Result<Box<dyn TilesReaderTrait>>> {
		let reg = reg.clone();
		Box::pin(async move {
			let key = Path::new(&filename).file_name().unwrap().to_string_lossy().to_string();
			// "src1" answers lookups after 3 suspensions, "src2" after 2, ...: the first listed source is the slowest
			let idx: usize = key.trim_start_matches(|c: char| !c.is_ascii_digit()).parse().unwrap_or(1);
			match reg.lock().unwrap().get(&key) {
				Some(m) => Ok(Box::new(crate::mem::SlowMemReader { inner: m.clone(), yields: 4usize.saturating_sub(idx) }) as Box<dyn TilesReaderTrait>),
				None => Err(anyhow::anyhow!("unknown source {key}")),
			}
		})
	});
	PipelineFactory::default(dir, callback)
}

/// (lookup, stream) observation of the tile at (Z, X, Y) of an operation, decoded with the declared codec
fn observe_tile(rt: &tokio::runtime::Runtime, reader: &PipelineReader, declared: &str) -> (Value, Value) {
	let dec = |b: &[u8]| -> Value {
		match indep::decode(declared, b).and_then(|raw| decode_tile(&raw)) {
			Ok(t) => json!({"exists":1,"ok":1,"tile":t,"h":crate::mem::h31(b)}),
			Err(e) => json!({"exists":1,"ok":0,"tile":[],"err":e,"h":crate::mem::h31(b)}),
		}
	};
	let c = TileCoord3::new(X, Y, Z).unwrap();
	let lookup = match catch(|| rt.block_on(reader.get_tile_data(&c))) {
		Ok(Ok(Some(b))) => dec(b.as_slice()),
		Ok(Ok(None)) => json!({"exists":0,"ok":0,"tile":[]}),
		Ok(Err(e)) => json!({"exists":1,"ok":0,"tile":[],"err":format!("{e:#}").chars().take(200).collect::<String>()}),
		Err(p) => json!({"exists":1,"ok":0,"tile":[],"err":format!("panic: {p}").chars().take(200).collect::<String>()}),
	};
	let bbox = TileBBox::new(Z, 0, 0, 7, 7).unwrap();
	let stream = match catch(|| rt.block_on(async { tokio::time::timeout(std::time::Duration::from_secs(30), async { reader.get_bbox_tile_stream(bbox).await.collect().await }).await })) {
		Ok(Ok(items)) => {
			let hits: Vec<&(TileCoord3, Blob)> = items.iter().filter(|(cc, _)| *cc == c).collect();
			match hits.len() {
				0 => json!({"exists":0,"ok":0,"tile":[]}),
				1 => dec(hits[0].1.as_slice()),
				_ => json!({"exists":1,"ok":0,"tile":[],"err":"duplicate"}),
			}
		}
		Ok(Err(_)) => json!({"exists":1,"ok":0,"tile":[],"err":"hang"}),
		Err(p) => json!({"exists":1,"ok":0,"tile":[],"err":format!("panic: {p}").chars().take(200).collect::<String>()}),
	};
	(lookup, stream)
}

fn mem_with(name: &str, tc: &str, tile: Option<Vec<u8>>, k: usize) -> MemReader {
	let mut tiles = vec![(TileCoord3::new(5, 5, Z).unwrap(), Blob::from(indep::encode(tc, &filler(k))))];
	if let Some(t) = tile {
		tiles.push((TileCoord3::new(X, Y, Z).unwrap(), Blob::from(indep::encode(tc, &t))));
	}
	MemReader::new(name, TileFormat::PBF, TileCompression::parse_str(tc).unwrap(), tiles)
}

fn merge_case(rt: &tokio::runtime::Runtime, dir: &Path, case: &Value, n: usize) -> Value {
	let tiles = case["tiles"].as_array().unwrap();
	let variants = case["variants"].as_array().unwrap();
	let codecs = ["none", "gzip", "brotli"];
	let mut sources = vec![];
	let mut present = vec![];
	for (k, t) in tiles.iter().enumerate() {
		let bytes = if t["exists"] == 1 {
			present.push(t["tile"].clone());
			Some(encode_tile(&t["tile"], variants[k].as_u64().unwrap()))
		} else {
			None
		};
		sources.push(mem_with(&format!("src{}", k + 1), codecs[k % 3], bytes, k + 1));
	}
	let vpl = format!("from_vectortiles_merged [ {} ]", (1..=tiles.len()).map(|k| format!("from_container filename=\"src{k}\"")).collect::<Vec<_>>().join(", "));
	let mut ev = json!({"ev":"merge","id":n,"present":present,"variants":variants,"vpl":vpl});
	let factory = factory_for(dir, sources);
	match catch(|| rt.block_on(factory.operation_from_vpl(&vpl))) {
		Ok(Ok(op)) => {
			let parameters = op.get_parameters().clone();
			let declared = parameters.tile_compression.as_str().to_string();
			let reader = PipelineReader { name: "merge".into(), operation: op, parameters };
			let (l, s) = observe_tile(rt, &reader, &declared);
			ev["declared_tc"] = json!(declared);
			ev["lookup"] = l;
			ev["stream"] = s;
		}
		other => {
			ev["declared_tc"] = json!("build failed");
			let e = json!({"exists":1,"ok":0,"tile":[],"err":format!("{:?}", other.map(|r| r.map(|_| ()))).chars().take(200).collect::<String>()});
			ev["lookup"] = e.clone();
			ev["stream"] = e;
		}
	}
	ev
}

fn csv_field(s: &str) -> String {
	if s.contains(',') || s.contains('"') || s.contains('\n') {
		format!("\"{}\"", s.replace('"', "\"\""))
	} else {
		s.to_string()
	}
}

fn update_case(rt: &tokio::runtime::Runtime, dir: &Path, case: &Value, n: usize) -> Value {
	let tile = &case["tile"];
	let o = &case["opts"];
	let variant = case["variant"].as_u64().unwrap();
	let bytes = encode_tile(tile, variant);
	// data table -> CSV: the id column "rid" first, then the other property columns
	let rows = case["table"].as_array().unwrap();
	let mut cols: Vec<String> = vec![];
	for r in rows {
		for p in r["props"].as_array().unwrap() {
			let k = p[0].as_str().unwrap().to_string();
			if k != "rid" && !cols.contains(&k) {
				cols.push(k);
			}
		}
	}
	if cols.is_empty() {
		cols.push("k".to_string()); // (an empty table still has its header line)
	}
	let mut csv = format!("rid,{}\n", cols.join(","));
	for r in rows {
		let mut line = vec![csv_field(r["id"].as_str().unwrap())];
		for c in &cols {
			let v = r["props"].as_array().unwrap().iter().find(|p| p[0] == c.as_str()).map(|p| p[1][1].as_str().unwrap().to_string()).unwrap_or_default();
			line.push(csv_field(&v));
		}
		csv += &line.join(",");
		csv += "\n";
	}
	std::fs::write(dir.join("table.csv"), csv).unwrap();
	let vpl = format!(
		"from_container filename=\"src1\" | vectortiles_update_properties data_source_path=\"table.csv\" layer_name=\"{}\" id_field_tiles=\"{}\" id_field_data=\"rid\" replace_properties={} remove_non_matching={} include_id={}",
		o["layer"].as_str().unwrap(), o["idfield"].as_str().unwrap(), o["replace"] == 1, o["remove"] == 1, o["include_id"] == 1
	);
	let mut ev = json!({"ev":"update","id":n,"tile":tile,"table":rows,"opts":o,"variant":variant,"vpl":vpl});
	// decode + re-encode through the library, no changes
	ev["reencoded"] = match catch(|| versatiles_geometry::vector_tile::VectorTile::from_blob(&Blob::from(bytes.clone())).and_then(|t| t.to_blob())) {
		Ok(Ok(b)) => match decode_tile(b.as_slice()) {
			Ok(t) => json!({"ok":1,"tile":t}),
			Err(e) => json!({"ok":0,"tile":[],"err":e}),
		},
		Ok(Err(e)) => json!({"ok":0,"tile":[],"err":format!("{e:#}").chars().take(200).collect::<String>()}),
		Err(p) => json!({"ok":0,"tile":[],"err":format!("panic: {p}").chars().take(200).collect::<String>()}),
	};
	let factory = factory_for(dir, vec![mem_with("src1", "gzip", Some(bytes), 1)]);
	match catch(|| rt.block_on(factory.operation_from_vpl(&vpl))) {
		Ok(Ok(op)) => {
			let parameters = op.get_parameters().clone();
			let declared = parameters.tile_compression.as_str().to_string();
			let reader = PipelineReader { name: "update".into(), operation: op, parameters };
			let (l, s) = observe_tile(rt, &reader, &declared);
			ev["declared_tc"] = json!(declared);
			ev["lookup"] = l;
			ev["stream"] = s;
		}
		other => {
			ev["declared_tc"] = json!("build failed");
			let e = json!({"exists":1,"ok":0,"tile":[],"err":format!("{:?}", other.map(|r| r.map(|_| ()))).chars().take(200).collect::<String>()});
			ev["lookup"] = e.clone();
			ev["stream"] = e;
		}
	}
	ev
}

pub fn replay(input: &str, output: &str, dir: &str) -> Value {
	let cases = read_ndjson(input);
	let mut out = Out::create(output);
	let workers = 10usize.min(cases.len().max(1));
	let results: Vec<Vec<(usize, Value)>> = std::thread::scope(|sc| {
		let cases = &cases;
		let hs: Vec<_> = (0..workers)
			.map(|w| {
				sc.spawn(move || {
					let rt = tokio::runtime::Builder::new_multi_thread().worker_threads(3).enable_all().build().unwrap();
					let d = Path::new(dir).join(format!("vw{w}"));
					std::fs::create_dir_all(&d).unwrap();
					let mut v = vec![];
					let mut i = w;
					while i < cases.len() {
						let e = if cases[i]["k"] == "merge" { merge_case(&rt, &d, &cases[i], i) } else { update_case(&rt, &d, &cases[i], i) };
						v.push((i, e));
						i += workers;
					}
					v
				})
			})
			.collect();
		hs.into_iter().map(|h| h.join().unwrap()).collect()
	});
	let mut slots: Vec<Option<Value>> = vec![None; cases.len()];
	for r in results {
		for (i, e) in r {
			slots[i] = Some(e);
		}
	}
	for s in slots {
		out.emit(&s.unwrap());
	}
	let lines = out.finish();
	json!({"cases": cases.len(), "events": lines})
}
