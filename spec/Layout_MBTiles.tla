--------------------------- MODULE Layout_MBTiles ---------------------------
(***************************************************************************)
(* MBTiles: tiles table with TMS rows (row = 2^z - 1 - y).  Transcription   *)
(* of the reader's bounding-box query plan for one zoom level over an       *)
(* abstract table T = set of <<column, row>>:                                *)
(*   x0, x1 = MIN/MAX(column); xc = (x0 + x1) div 2                          *)
(*   estimate rows over the three columns {x0, xc, x1}                       *)
(*   refine:  MIN(row) over rows <= estimate, MAX(row) over rows >= estimate *)
(* TLC theorem: the refined values are the exact extremes for EVERY table,  *)
(* and the estimate alone is not (those tables are the non-trivial ones).   *)
(***************************************************************************)
EXTENDS Naturals, FiniteSets, FiniteSetsExt

Cols(T) == {t[1] : t \in T}
Rows(T) == {t[2] : t \in T}

Estimate(T) ==
    LET x0 == Min(Cols(T))  x1 == Max(Cols(T))  xc == (x0 + x1) \div 2
        S == {t \in T : t[1] \in {x0, xc, x1}}
    IN << Min(Rows(S)), Max(Rows(S)) >>

Refined(T) ==
    LET e == Estimate(T) IN
    << Min({t[2] : t \in {u \in T : u[2] <= e[1]}}), Max({t[2] : t \in {u \in T : u[2] >= e[2]}}) >>

Exact(T) == << Min(Rows(T)), Max(Rows(T)) >>

ThmRefineExact(T) == T # {} => Refined(T) = Exact(T)
EstimateIsOff(T) == T # {} /\ Estimate(T) # Exact(T)
=============================================================================
