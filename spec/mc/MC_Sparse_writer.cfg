SPECIFICATION Spec
CONSTANTS
  Origins = {"writer"}
  MaxLevel = 31
INVARIANT InvTrue
CHECK_DEADLOCK FALSE
