SPECIFICATION Spec
CONSTANTS
  Total = 12
INVARIANT InvTrue
CHECK_DEADLOCK FALSE
