------------------------------- MODULE MC_VT -------------------------------
(* Case enumeration for the vector-tile operations.                          *)
(*  Mode "merge"  (C10): lists of source tiles (or "no tile") built from a    *)
(*    pool of features with different key/value sets, layers a/b present or   *)
(*    not, x encoding variants of the key/value tables x extent variant.      *)
(*  Mode "update" (C11): a tile (layers a/b, features with and without the id *)
(*    field, ids "none"/0/2^64-1, all geometry types) x data tables x the 8   *)
(*    option combinations x encoding variants (duplicate / unused table       *)
(*    entries, alternative integer wire types).                               *)
(* Design level: Updated() changes nothing but property sets of the layer.    *)
EXTENDS VectorTile, Json

CONSTANTS UDeep, Mode, NSources, PoolSize, Variants, MaxFeats

VARIABLES c
vars == <<c>>

V(t, x) == <<t, x>>
P(k, v) == <<k, v>>
F1 == [id |-> "none", gt |-> 1, geom |-> 1, props |-> << P("k", V("s", "x")) >>]
\* (numbers at the ends of the 64-bit ranges: -2^62 - 1 needs all 64 bits of its zigzag form)
F2 == [id |-> "7", gt |-> 3, geom |-> 2, props |-> << P("j", V("b", "1")), P("k", V("n", "5")), P("m", V("n", "-4611686018427387905")) >>]
F3 == [id |-> "18446744073709551615", gt |-> 0, geom |-> 3, props |-> << P("j", V("n", "-3")), P("m", V("s", "x")) >>]
F0 == [id |-> "0", gt |-> 2, geom |-> 4, props |-> <<>>]          \* a feature without any property, with the EXPLICIT id 0
Pool == IF PoolSize = 2 THEN <<F0, F2>> ELSE IF PoolSize = 3 THEN <<F0, F1, F2>> ELSE <<F0, F1, F2, F3>>
FeatSeqs == {<<>>} \cup { <<Pool[i]>> : i \in 1..Len(Pool) }
            \cup (IF MaxFeats >= 2 THEN { <<Pool[i], Pool[j]>> : i \in 1..Len(Pool), j \in 1..Len(Pool) } ELSE { <<Pool[1], Pool[Len(Pool)]>> })
LayerOpt == {[p |-> 0, f |-> <<>>]} \cup { [p |-> 1, f |-> fs] : fs \in FeatSeqs }
MkTile(la, lb, ext) ==
    (IF la.p = 0 THEN <<>> ELSE <<[name |-> "a", extent |-> ext, version |-> 2, feats |-> la.f]>>) \o
    (IF lb.p = 0 THEN <<>> ELSE <<[name |-> "b", extent |-> ext, version |-> 2, feats |-> lb.f]>>)
TileOpts(ext) == { MkTile(la, lb, ext) : la \in LayerOpt, lb \in LayerOpt }

(* ------------------------------ update ------------------------------ *)
U1 == [id |-> "none", gt |-> 1, geom |-> 1, props |-> << P("id", V("s", "r1")), P("k", V("s", "old")) >>]
U2 == [id |-> "0", gt |-> 2, geom |-> 2, props |-> << P("id", V("n", "5")), P("pop", V("n", "1")) >>]
U3 == [id |-> "18446744073709551615", gt |-> 3, geom |-> 3, props |-> << P("k", V("s", "noid")), P("m", V("n", "-9223372036854775808")), P("u", V("n", "18446744073709551615")) >>]
U4 == [id |-> "4", gt |-> 0, geom |-> 4, props |-> << P("id", V("s", "zz")), P("k", V("b", "0")) >>]
UPool == <<U1, U2, U3, U4>>
USeqs == { <<UPool[i], UPool[j]>> : i \in 1..4, j \in 1..4 } \cup { <<UPool[i]>> : i \in 1..4 } \cup { <<U1, U2, U3, U4>> }
         \cup { <<UPool[i], UPool[j], UPool[k]>> : i \in 1..4, j \in 1..4, k \in 1..4 }
         \cup (IF UDeep = 1 THEN { <<UPool[i], UPool[j], UPool[k], UPool[m]>> : i \in 1..4, j \in 1..4, k \in 1..4, m \in 1..4 } ELSE {})
\* every tile also carries a layer without features (legal, and "every other layer is preserved" includes it)
UTiles == { << [name |-> "a", extent |-> 4096, version |-> 2, feats |-> fa],
               [name |-> "b", extent |-> 512, version |-> 1, feats |-> <<U1, U3>>],
               [name |-> "c", extent |-> 256, version |-> 2, feats |-> <<>>] >> : fa \in USeqs }
\* data table rows (without the id column; the id column is added when include_id is set)
\* (the first table is EMPTY: a data source with a header line and no rows)
Rows == { <<>>,
          << [id |-> "r1", idv |-> V("s", "r1"), props |-> << P("k", V("s", "new")), P("pop", V("n", "9")) >>] >>,
          << [id |-> "r1", idv |-> V("s", "r1"), props |-> << P("k", V("s", "new")), P("pop", V("n", "9")) >>],
             [id |-> "5", idv |-> V("n", "5"), props |-> << P("k", V("s", "five")), P("pop", V("n", "0")) >>] >> }
WithId(rows, inc) == [i \in 1..Len(rows) |->
    [id |-> rows[i].id, props |-> IF inc = 1 THEN <<P("rid", rows[i].idv)>> \o rows[i].props ELSE rows[i].props]]
\* the layer to update: "a"; in the deep tier also "b", the empty layer "c" and a layer the tile does not have
ULayers == IF UDeep = 1 THEN {"a", "b", "c", "zz"} ELSE {"a"}
Opts == { [layer |-> ly, idfield |-> "id", replace |-> a, remove |-> b, include_id |-> i] : ly \in ULayers, a \in {0, 1}, b \in {0, 1}, i \in {0, 1} }

Emit(rec) == PrintT(<<"REPLAY", ToJson(rec)>>)

Init ==
    IF Mode = "merge"
    THEN /\ \E ext2 \in {4096, 512}, vs \in [1..NSources -> Variants] :
              \E ts \in [1..NSources -> ({[exists |-> 0, tile |-> <<>>]} \cup { [exists |-> 1, tile |-> t] : t \in TileOpts(4096) })] :
                 /\ c = [tiles |-> ts, ext2 |-> ext2, variants |-> vs]
                 /\ Emit([k |-> "merge", variants |-> vs,
                          tiles |-> [k \in 1..NSources |->
                                       IF ts[k].exists = 0 THEN ts[k]
                                       ELSE [exists |-> 1,
                                             tile |-> IF k = 2 /\ ext2 # 4096
                                                      THEN [i \in 1..Len(ts[k].tile) |-> [ts[k].tile[i] EXCEPT !.extent = ext2]]
                                                      ELSE ts[k].tile]]])
    ELSE /\ \E t \in UTiles, rows \in Rows, o \in Opts, v \in Variants :
              /\ c = [tile |-> t, rows |-> rows, o |-> o, v |-> v]
              /\ Emit([k |-> "update", tile |-> t, table |-> WithId(rows, o.include_id), opts |-> o, variant |-> v])
Next == UNCHANGED vars
Spec == Init /\ [][Next]_vars

\* the implementation's choice among the open details of the join is one the judging relation admits
InvModelAdmitted ==
    Mode = "update" => UpdateOk(c.tile, Updated(c.tile, WithId(c.rows, c.o.include_id), c.o), WithId(c.rows, c.o.include_id), c.o)
InvUpdateTouchesOnlyProps ==
    Mode = "update" => OnlyPropsChanged(c.tile, Updated(c.tile, WithId(c.rows, c.o.include_id), c.o), c.o)
=============================================================================
