------------------------------ MODULE MC_C18 ------------------------------
(* Syntax trees up to depth 2 x rendering choices; every state emits the TEXT  *)
(* (built by string concatenation in TLA+) and the tree it must parse to.      *)
(* Plus mutations of valid texts that must be rejected and typed-parameter      *)
(* cases for the factory.                                                       *)
EXTENDS VPL, Json

CONSTANTS Depth, Styles, WsOpts

VARIABLES kind, ast, ch, mut
vars == <<kind, ast, ch, mut>>

WsQuick == {"", " ", "\n "}
WsThorough == {"", " ", "\n ", "\t\n\t"}
StylesQuick == {"min", "quoted", "brackets", "split"}
StylesThorough == {"min", "quoted", "brackets", "split"}

Val(s, q, b) == [s |-> s, q |-> q, bare |-> b]
V1 == Val("v1", "v1", TRUE)
V2 == Val("1.5", "1.5", TRUE)
V3 == Val("", "", FALSE)                                  \* the empty string must be written ""
V4 == Val("a b", "a b", FALSE)
V5 == Val("q\"x\\y", "q\\\"x\\\\y", FALSE)                \* contains a quote and a backslash
V6 == Val("x-_.9", "x-_.9", TRUE)
V7 == Val("l1\nl2\tz", "l1\\nl2\\tz", FALSE)              \* newline and tab escapes
V8 == Val("a\r\nb\rc", "a\r\nb\rc", FALSE)                    \* a RAW carriage return + line feed (and a lone CR) inside the quotes
Scalars == {V1, V2, V3, V4, V5, V6, V7, V8}
Lists == { <<V1, V2>>, <<V4, V6, V3>>, <<V5, V1>>, <<>> }        \* incl. the empty list
ValueOpts == { <<v>> : v \in Scalars } \cup Lists

ParamOpts == {<<>>} \cup { << <<"a", vo>> >> : vo \in ValueOpts }
                    \cup { << <<"b_1", <<v>>>>, <<"a", <<w>>>> >> : v \in {V1, V3, V5}, w \in {V2, V4} }
Leaf(name, ps) == [name |-> name, params |-> ps, sources |-> <<>>]
Leaves == { Leaf(nm, ps) : nm \in {"from_x", "tr-y2"}, ps \in ParamOpts }
SmallLeaves == { Leaf("from_x", <<>>), Leaf("s_1", << <<"k", <<V4>>>> >>), Leaf("t", << <<"k", <<V1, V3>>>> >>) }
SmallPipes == { <<l>> : l \in SmallLeaves } \cup { <<Leaf("from_x", <<>>), Leaf("t", << <<"k", <<V5>>>> >>)>> }
SourceOpts == { <<p>> : p \in SmallPipes } \cup { <<p, q>> : p \in SmallPipes, q \in SmallPipes }
Nested == { [name |-> "from_list", params |-> ps, sources |-> ss] : ps \in {<<>>, << <<"a", <<V1>>>> >>}, ss \in SourceOpts }
Asts == { <<l>> : l \in Leaves } \cup { <<l, m>> : l \in Leaves, m \in SmallLeaves }
        \cup (IF Depth >= 2 THEN { <<n>> : n \in Nested } \cup { <<n, m>> : n \in Nested, m \in SmallLeaves } ELSE {})
        \* depth 3: a source list inside a source list (alone, next to a plain pipeline, and followed by a transform)
        \cup (IF Depth >= 3
              THEN LET Inner == { [name |-> "from_list", params |-> <<>>, sources |-> <<p>>] : p \in SmallPipes }
                       Outer == { [name |-> "from_list", params |-> ps, sources |-> ss] :
                                     ps \in {<<>>, << <<"a", <<V1>>>> >>},
                                     ss \in { << <<n>> >> : n \in Inner } \cup { << <<n>>, q >> : n \in Inner, q \in SmallPipes }
                                              \cup { << <<n, m>> >> : n \in Inner, m \in SmallLeaves } }
                   IN { <<o>> : o \in Outer } \cup { <<o, m>> : o \in Outer, m \in SmallLeaves }
              ELSE {})

Choices == { [ws |-> w, gap |-> g, style |-> s] : w \in WsOpts, g \in {" ", "\n\t"}, s \in Styles }

(* mutations of a valid text that leave the documented syntax *)
Base == "from_list a=[v1,\"x y\"] [ from_x k=1 | t, s_1 ]"
Malformed == {
    "from_list a=[v1,\"x y\"] [ from_x k=1 | t, s_1 ",          \* closing bracket of the source list missing
    "from_list a=[v1,\"x y] [ from_x k=1 | t, s_1 ]",           \* closing quote missing
    "from_list a=[v1,\"x y\" [ from_x k=1 | t, s_1 ]",          \* closing bracket of the value list missing
    "from_list a=[v1,\"x y\"] [ from_x k=1 | | t, s_1 ]",       \* stray '|'
    "| from_x",                                                  \* leading '|'
    "from_x |",                                                  \* trailing '|'
    "from_list [ from_x, s_1, ]",                                \* trailing comma
    "from_x k",                                                  \* key without =value
    "from_x k=",                                                 \* '=' without value
    "1from_x k=1",                                               \* illegal identifier start
    "from_x 9k=1",                                               \* illegal key start
    "from_x k=a b",                                              \* unquoted value with a space (second word is no key=value)
    "from_x k=\"a\\qb\"",                                        \* unknown escape
    "",                                                          \* empty text
    "from_x ]" }
BadBuild == {
    "from_nowhere filename=\"src1\"",                                           \* unknown read operation
    "from_container filename=\"src1\" | frobnicate",                            \* unknown transform operation
    "from_container",                                                            \* required parameter missing
    "from_container filename=\"src1\" | filter_zoom min=abc",                   \* non-numeric u8
    "from_container filename=\"src1\" | filter_zoom min=300",                   \* out of range for u8
    "from_container filename=\"src1\" | filter_zoom min=-1",
    "from_container filename=\"src1\" | filter_bbox bbox=[1,2,3]",              \* wrong arity (too few, too many, none, scalar)
    "from_container filename=\"src1\" | filter_bbox bbox=[1,2,3,4,5]",
    "from_container filename=\"src1\" | filter_bbox bbox=[1,2,3,4,5,6,7,8]",
    "from_container filename=\"src1\" | filter_bbox bbox=[]",
    "from_container filename=\"src1\" | filter_bbox bbox=7",
    "from_container filename=\"src1\" | filter_bbox bbox=[1,2] bbox=[3,4,5]",  \* repeated key: five values in all
    "from_container filename=\"src1\" | filter_zoom min=[1,2]",                 \* list where a scalar is required
    "from_container filename=\"src1\" | filter_zoom min=1 min=2",
    "from_container filename=\"src1\" | filter_bbox bbox=[1,2,x,4]",
    "from_container filename=\"src1\" | filter_bbox",                           \* required list missing
    "from_container filename=[\"src1\",\"src2\"]",                              \* list where a scalar is required
    "from_overlayed [ from_container filename=\"src1\" ]",                      \* fewer than two sources
    "filter_zoom min=1" }                                                        \* pipeline must start with a read operation
\* an ill-typed NESTED pipeline makes the whole program ill-typed, wherever it stands in the source list and however many
\* well-typed ones stand next to it (three sources: two remain if one is dropped)
BadNested == { "from_nowhere filename=\"src3\"", "from_container", "from_container filename=\"src3\" | filter_zoom min=abc",
               "from_container filename=\"src3\" | frobnicate", "from_container filename=\"src3\" | filter_bbox bbox=[1,2,3]" }
GoodNested == << "from_container filename=\"src1\"", "from_container filename=\"src2\" | filter_zoom max=3" >>
BadBuildNested == { op \o " [ " \o (IF pos = 1 THEN b \o ", " \o GoodNested[1] \o ", " \o GoodNested[2]
                                     ELSE IF pos = 2 THEN GoodNested[1] \o ", " \o b \o ", " \o GoodNested[2]
                                     ELSE GoodNested[1] \o ", " \o GoodNested[2] \o ", " \o b) \o " ]" :
                    op \in {"from_overlayed", "from_vectortiles_merged"}, b \in BadNested, pos \in 1..3 }
GoodBuild == {
    "from_container filename=\"src1\"",
    "from_container filename=src1 | filter_zoom min=1 max=2",
    "from_container\n\tfilename = \"src1\"\n|\nfilter_bbox bbox = [ -10 , -10.5 , 10 , \"10\" ]",
    "from_overlayed [ from_container filename=\"src1\", from_container filename=\"src2\" | filter_zoom max=3 ]" }

Emit(rec) == PrintT(<<"REPLAY", ToJson(rec)>>)
NoAst == <<>>
NoCh == [ws |-> "", gap |-> " ", style |-> "min"]
Init ==
    \/ /\ kind = "wellformed" /\ ast \in Asts /\ ch \in Choices /\ mut = ""
       /\ Emit([kind |-> "wellformed", text |-> RenderPipeline(ast, ch), ast |-> ast, ch |-> ch])
    \/ /\ kind = "malformed" /\ ast = NoAst /\ ch = NoCh /\ mut \in Malformed
       /\ Emit([kind |-> "malformed", text |-> mut])
    \/ /\ kind = "badbuild" /\ ast = NoAst /\ ch = NoCh /\ mut \in BadBuild \cup BadBuildNested
       /\ Emit([kind |-> "badbuild", text |-> mut])
    \/ /\ kind = "goodbuild" /\ ast = NoAst /\ ch = NoCh /\ mut \in GoodBuild
       /\ Emit([kind |-> "goodbuild", text |-> mut])
Next == UNCHANGED vars
Spec == Init /\ [][Next]_vars
InvTrue == TRUE
=============================================================================
