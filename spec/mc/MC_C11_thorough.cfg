SPECIFICATION Spec
CONSTANTS
  UDeep = 1
  MaxFeats = 3
  Mode = "update"
  NSources = 1
  PoolSize = 3
  Variants = {0, 1, 2, 3, 4}
INVARIANT InvUpdateTouchesOnlyProps
INVARIANT InvModelAdmitted
CHECK_DEADLOCK FALSE
