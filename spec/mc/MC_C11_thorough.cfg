SPECIFICATION Spec
CONSTANTS
  MaxFeats = 2
  Mode = "update"
  NSources = 1
  PoolSize = 2
  Variants = {0, 1, 2, 3, 4}
INVARIANT InvUpdateTouchesOnlyProps
CHECK_DEADLOCK FALSE
