SPECIFICATION Spec
CONSTANTS
  Origins = {"writer"}
  MaxLevel = 31
  Skip = {}
INVARIANT InvTrue
CHECK_DEADLOCK FALSE
