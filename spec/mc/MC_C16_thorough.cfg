SPECIFICATION Spec
CONSTANTS
  PayloadIds = 2
  IndepDepth = 1
  PairMode = "std"
  Universe <- EmptyUniverse
  FormatsUsed <- AllFormats
  Origin = "indep"
INVARIANT InvWriterModel
INVARIANT InvMBTilesPlan
CHECK_DEADLOCK FALSE
