SPECIFICATION Spec
CONSTANTS
  Universe <- UniverseIndepThorough
  FormatsUsed <- AllFormats
  Origin = "indep"
INVARIANT InvWriterModel
CHECK_DEADLOCK FALSE
