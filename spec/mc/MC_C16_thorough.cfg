SPECIFICATION Spec
CONSTANTS
  PairMode = "std"
  Universe <- UniverseIndepThorough
  FormatsUsed <- AllFormats
  Origin = "indep"
INVARIANT InvWriterModel
CHECK_DEADLOCK FALSE
