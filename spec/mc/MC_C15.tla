------------------------------ MODULE MC_C15 ------------------------------
(* Exhaustive small scope for C15: every box (all empty encodings) of levels *)
(* 0..MaxL, every pair of boxes of levels 0..MaxPairL; the laws of BBox.tla *)
(* and Geo.tla are invariants; each state emits one REPLAY case.            *)
EXTENDS Geo, Json

CONSTANTS MaxL, MaxPairL, MaxGeoL, MaxPyrL

VARIABLES kind, a, b, g, pq
vars == <<kind, a, b, g, pq>>

N(l) == MaxIdx(l) + 1
Universe(l) ==
    { Box(l, x0, y0, x1, y1) : x0 \in 0..MaxIdx(l), y0 \in 0..MaxIdx(l), x1 \in 0..MaxIdx(l), y1 \in 0..MaxIdx(l) }
    \cup { NewEmpty(l) }

NoBox == Box(0, 0, 0, 0, 0)
NoGeo == [w |-> <<0, 0>>, n |-> <<0, 0>>, e |-> <<0, 0>>, s |-> <<0, 0>>]

Frac == {0, 1, 4, U \div 2, U - 4, U - 1}
XPos(l) == { <<k, m>> : k \in 0..MaxIdx(l), m \in Frac } \cup { <<N(l), 0>> }
YPos(l) == { <<k, m>> : k \in 0..MaxIdx(l), m \in Frac } \cup { <<N(l), 0>>, <<-1, 0>>, <<N(l), 4>> }
\* the axes are independent in the property and in the code: vary one axis fully, the other over a few pairs
FewX(l) == { << <<0, 0>>, <<N(l), 0>> >>, << <<0, U \div 2>>, <<0, U \div 2>> >>, << <<MaxIdx(l), 0>>, <<MaxIdx(l), 0>> >> }
FewY(l) == { << <<-1, 0>>, <<N(l), 4>> >>, << <<0, 1>>, <<0, 4>> >>, << <<MaxIdx(l), U \div 2>>, <<N(l), 0>> >> }
GeoCases(l) ==
    { [w |-> xp[1], e |-> xp[2], n |-> yp[1], s |-> yp[2]] :
        xp \in { q \in XPos(l) \X XPos(l) : PLeq(q[1], q[2]) }, yp \in FewY(l) }
    \cup
    { [w |-> xp[1], e |-> xp[2], n |-> yp[1], s |-> yp[2]] :
        xp \in FewX(l), yp \in { q \in YPos(l) \X YPos(l) : PLeq(q[1], q[2]) } }

\* pyramids with one box (any encoding) on each of the levels 0..MaxPyrL, all other levels empty
PyrUniverse == IF MaxPyrL = 0 THEN { <<x>> : x \in Universe(0) }
               ELSE { <<x, y>> : x \in Universe(0), y \in Universe(1) }
\* pyramids whose covered levels are NOT contiguous (level 0 or 1, nothing on the next levels, then level 3 and level 6)
GapBoxes3 == { Box(3, 1, 2, 5, 6), Box(3, 0, 0, 7, 7), NewEmpty(3) }
GapBoxes6 == { Box(6, 10, 20, 33, 40), NewEmpty(6) }
GapUniverse == { <<x, y, z>> : x \in { Box(0, 0, 0, 0, 0), NewEmpty(0), Box(1, 0, 1, 1, 1) }, y \in GapBoxes3, z \in GapBoxes6 }

Emit(rec) == PrintT(<<"REPLAY", ToJson(rec)>>)
GeoJson(q) == [w |-> q.w, n |-> q.n, e |-> q.e, s |-> q.s]

Init ==
    \/ /\ kind = "box" /\ \E l \in 0..MaxL : a \in Universe(l)
       /\ b = NoBox /\ g = NoGeo /\ pq = <<>>
       /\ Emit([k |-> "box", a |-> ToSeq(a)])
    \/ /\ kind = "pair" /\ \E l \in 0..MaxPairL : a \in Universe(l) /\ b \in Universe(l)
       /\ g = NoGeo /\ pq = <<>>
       /\ Emit([k |-> "pair", a |-> ToSeq(a), b |-> ToSeq(b)])
    \/ /\ kind = "geo" /\ \E l \in 0..MaxGeoL : a = NewFull(l) /\ g \in GeoCases(l)
       /\ b = NoBox /\ pq = <<>>
       /\ Emit([k |-> "geo", l |-> a.l, g |-> GeoJson(g)])
    \/ /\ kind = "pyr" /\ a = NoBox /\ b = NoBox /\ g = NoGeo
       /\ MaxPyrL >= 0
       /\ pq \in (PyrUniverse \X PyrUniverse) \cup (GapUniverse \X GapUniverse)
       /\ Emit([k |-> "pyr", p |-> [i \in 1..Len(pq[1]) |-> ToSeq(pq[1][i])],
                               q |-> [i \in 1..Len(pq[2]) |-> ToSeq(pq[2][i])]])

Next == UNCHANGED vars
Spec == Init /\ [][Next]_vars

AllCoords(l) == (0..MaxIdx(l)) \X (0..MaxIdx(l))

InvBoxLaws ==
    kind = "box" =>
        /\ LawDenCells(a) /\ LawCountDen(a) /\ LawLimbs(a) /\ LawImplIter(a) /\ LawImplFlipSwap(a)
        /\ \A s \in 1..5 : LawImplGrid(a, s)
        /\ \A c \in AllCoords(a.l) : LawImplContains(a, c[1], c[2]) /\ LawImplIncludeCoord(a, c[1], c[2])
        /\ ImplWidth(a) * ImplHeight(a) = DWidth(Den(a)) * DHeight(Den(a))   \* (width() alone is per-axis; only the count is a set notion)
        /\ LawRoundTrip(a) /\ LawRoundTripUnique(a)
InvPairLaws ==
    kind = "pair" =>
        /\ LawInterDen(a, b) /\ LawHullDen(a, b) /\ LawOverlapsDen(a, b)
        /\ LawImplIntersect(a, b) /\ LawImplInclude(a, b) /\ LawImplOverlaps(a, b)
\* per-level application: a pyramid operation is the box operation on every level
InvPyrLaws ==
    kind = "pyr" =>
        \A i \in 1..Len(pq[1]) : pq[1][i].l = pq[2][i].l => LawImplIntersect(pq[1][i], pq[2][i]) /\ LawImplInclude(pq[1][i], pq[2][i])
InvGeoLaws == kind = "geo" => LawImplFromGeo(g, a.l)
=============================================================================
