------------------------------ MODULE MC_C04 ------------------------------
(* Recompression cases: 3 source codecs x {keep, none, gzip, brotli} x force *)
(* x target container formats x two tile sets whose payloads cover the size  *)
(* and compressibility classes.  Design level: the transcribed recompressor  *)
(* pipeline satisfies ThmRecompress.                                          *)
EXTENDS Converter, Json

VARIABLES src, target, force, fmt, tset
vars == <<src, target, force, fmt, tset>>

ASSUME ThmRecompress

\* payload classes: id -> <<size, kind>>; kind 0 incompressible, 1 compressible, 2 = the payload is itself a gzip stream,
\* 3 = itself a brotli stream (content that looks like an encoding is still content)
\* 4 = the EMPTY payload (a tile of zero bytes is a tile wherever the container can hold one: "empty-ish" in the quantifier)
ClassJson == [i \in {"1", "2", "3", "4", "5", "6", "7", "8", "9"} |->
                 CASE i = "1" -> <<5, 0>> [] i = "2" -> <<1024, 0>> [] i = "3" -> <<2048, 1>>
                   [] i = "4" -> <<70000, 1>> [] i = "5" -> <<40960, 0>> [] i = "6" -> <<999, 1>>
                   [] i = "7" -> <<600, 2>> [] i = "8" -> <<600, 3>> [] OTHER -> <<0, 4>>]
TileSets == {
    << <<0, 0, 0, 1>>, <<1, 0, 0, 2>>, <<1, 1, 0, 3>>, <<1, 0, 1, 4>>, <<1, 1, 1, 5>> >>,
    << <<3, 2, 5, 6>>, <<3, 3, 5, 6>>, <<9, 255, 255, 4>>, <<9, 256, 255, 1>>, <<9, 256, 256, 3>> >>,
    << <<2, 1, 1, 7>>, <<2, 2, 1, 8>>, <<2, 1, 2, 3>> >>,
    << <<1, 0, 0, 6>>, <<1, 1, 0, 9>>, <<2, 3, 3, 1>> >> }
HasEmpty(ts) == \E i \in 1..Len(ts) : ts[i][4] = 9

Expressible(f, out) == f # "mbtiles" \/ out = "gzip"      \* MBTiles holds pbf tiles only gzip-compressed
\* versatiles and PMTiles encode "no tile" as length 0: a zero-byte tile stored uncompressed cannot be expressed there
ExpressibleSet(f, out, ts) == ~(HasEmpty(ts) /\ out = "none" /\ f \in {"versatiles", "pmtiles"})

Emit(rec) == PrintT(<<"REPLAY", ToJson(rec)>>)
Init ==
    /\ src \in Codec /\ target \in Codec \cup {"keep"} /\ force \in {0, 1}
    /\ fmt \in Formats /\ tset \in TileSets
    /\ ExpressibleSet(fmt, DeclaredOut(src, target), tset)
    \* what the target format cannot express (vector tiles in MBTiles other than gzip) has to be REFUSED -- or, if a writer takes
    \* it on, come out right all the same: such cases are emitted with may_refuse = 1
    /\ Emit([k |-> "recomp", src_tc |-> src, target |-> target, force |-> force, fmt |-> fmt, tiles |-> tset, classes |-> ClassJson,
             may_refuse |-> IF Expressible(fmt, DeclaredOut(src, target)) THEN 0 ELSE 1])
Next == UNCHANGED vars
Spec == Init /\ [][Next]_vars
InvTrue == TRUE
=============================================================================
