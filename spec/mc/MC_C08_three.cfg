SPECIFICATION Spec
CONSTANTS
  Universe <- UniverseSmall
  NSources = 3
  CodecLists <- Lists3
  SubBox = 2
  Nested = 0
INVARIANT InvStreamAlgorithm
CHECK_DEADLOCK FALSE
