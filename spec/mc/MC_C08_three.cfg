SPECIFICATION Spec
CONSTANTS
  Universe <- UniverseSmall
  NSources = 3
  CodecLists <- Lists3
  SubBox = 2
INVARIANT InvStreamAlgorithm
CHECK_DEADLOCK FALSE
