SPECIFICATION MCSpec
CONSTANTS
  MaxN = 6
  Ws = {1, 2, 3}
  Bs = {0, 1, 2, 3}
INVARIANT InvAll
CHECK_DEADLOCK FALSE
