SPECIFICATION Spec
CONSTANTS
  MaxLen = 4
INVARIANT InvTrue
CHECK_DEADLOCK FALSE
