SPECIFICATION Spec
CONSTANTS
  MaxLen = 3
INVARIANT InvTrue
CHECK_DEADLOCK FALSE
