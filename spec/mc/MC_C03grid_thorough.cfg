SPECIFICATION Spec
CONSTANTS
  PayloadIds = 1
  IndepDepth = 0
  PairMode = "first"
  Universe <- Grid4x4
  FormatsUsed <- OnlyMBTiles
  Origin = "writer"
INVARIANT InvMBTilesPlan
CHECK_DEADLOCK FALSE
