SPECIFICATION Spec
CONSTANTS
  MaxChain = 2
  ZVals <- ZQuick
  XPairs <- XPQuick
  YPairs <- YPQuick
INVARIANT InvChain
INVARIANT InvSubset
CHECK_DEADLOCK FALSE
