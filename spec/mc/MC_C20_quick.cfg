SPECIFICATION Spec
CONSTANTS
  NK = 3
  MaxCap = 3
  MaxOps = 5
VIEW View
INVARIANT InvBounded
INVARIANT InvStampsBelowLast
PROPERTY Refinement
CHECK_DEADLOCK FALSE
