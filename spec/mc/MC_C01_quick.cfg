SPECIFICATION Spec
CONSTANTS
  Universe <- UniverseQuick
  FormatsUsed <- AllFormats
  Origin = "writer"
INVARIANT InvWriterModel
CHECK_DEADLOCK FALSE
