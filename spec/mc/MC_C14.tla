------------------------------ MODULE MC_C14 ------------------------------
(* All completion orders of N items under window W, all Keep subsets; one  *)
(* REPLAY line per terminal behaviour: the completion order to force onto  *)
(* the real operators.                                                     *)
EXTENDS TileStream, Json

CONSTANTS MaxN, Ws, Bs
VARIABLES emitted

MCInit ==
    /\ N \in 0..MaxN /\ W \in Ws /\ B \in Bs
    /\ Keep \in SUBSET (1..N)
    /\ emitted = FALSE
    /\ InitRun

Emit(rec) == PrintT(<<"REPLAY", ToJson(rec)>>)

Done == Finished /\ buf = <<>>

MCNext ==
    \/ Next /\ UNCHANGED emitted
    \/ /\ Done /\ ~emitted
       /\ emitted' = TRUE
       /\ Emit([p |-> "C14", n |-> N, w |-> W, b |-> B, keep |-> [i \in 1..N |-> IF i \in Keep THEN 1 ELSE 0],
                corder |-> corder, chunks |-> [k \in 1..Len(chunks) |-> Len(chunks[k])]])
       /\ UNCHANGED vars

MCSpec == MCInit /\ [][MCNext]_<<vars, emitted>>

InvAll == InvPaired /\ InvNoDup /\ InvOnlyKept /\ InvWindow /\ InvChunks /\ TermComplete
=============================================================================
