SPECIFICATION Spec
CONSTANTS
  MaxLen = 3
  Win = 24
INVARIANT InvTrue
CHECK_DEADLOCK FALSE
