SPECIFICATION Spec
CONSTANTS
  MaxLen = 3
  RunLens = {20, 70, 150, 300, 1100, 5000, 70000}
  Win = 24
INVARIANT InvTrue
CHECK_DEADLOCK FALSE
