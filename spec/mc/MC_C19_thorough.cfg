SPECIFICATION Spec
CONSTANTS
  MaxLen = 4
  Win = 40
INVARIANT InvTrue
CHECK_DEADLOCK FALSE
