SPECIFICATION Spec
CONSTANTS
  MaxLen = 4
  RunLens = {10, 20, 40, 70, 100, 150, 200, 300, 600, 1100, 2100, 5000, 9000, 17000, 33000, 70000, 140000}
  Win = 40
INVARIANT InvTrue
CHECK_DEADLOCK FALSE
