SPECIFICATION Spec
CONSTANTS
  Origins = {"indep"}
  MaxLevel = 31
  Skip = {}
INVARIANT InvTrue
CHECK_DEADLOCK FALSE
