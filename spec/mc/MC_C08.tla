------------------------------ MODULE MC_C08 ------------------------------
(* Overlay: every list of 2 (or 3) sources over a coordinate universe, each  *)
(* coordinate present/absent per source with source-specific payloads, x     *)
(* codec combinations.  Design level: a transcription of the stream          *)
(* algorithm of from_overlayed (grid of sub-boxes, per sub-box a slot vector, *)
(* per source the bounding box of the still-empty slots is requested -- it    *)
(* may reach beyond that source's tiles -- and only empty slots are filled)   *)
(* delivers exactly Sem(overlay) inside the box.                              *)
EXTENDS Pipeline, Json

CONSTANTS Universe, NSources, CodecLists, SubBox, Nested

VARIABLES pres, codecs
vars == <<pres, codecs>>

UniverseQuick == << <<0, 0, 0>>, <<2, 1, 1>>, <<2, 2, 1>>, <<6, 31, 5>>, <<6, 32, 5>>, <<6, 32, 40>> >>
UniverseSmall == << <<2, 1, 1>>, <<2, 2, 1>>, <<6, 31, 5>>, <<6, 32, 5>> >>
\* a 2x2 square inside one sub-box: the still-empty slots after the first source can form an L-shaped hole whose bounding
\* box contains filled slots (3 sources: who fills what is decided per slot, not per count)
UniverseSquare == << <<2, 0, 0>>, <<2, 1, 0>>, <<2, 0, 1>>, <<2, 1, 1>> >>
ListsPlain3 == { <<"none", "none", "none">> }
Lists2 == { <<a, b>> : a \in Codec, b \in Codec }
Lists2Quick == { <<"none", "none">>, <<"gzip", "gzip">>, <<"none", "gzip">>, <<"gzip", "brotli">>, <<"brotli", "none">> }
\* four sources (the upper end of the property's "lists of 2..4 sources") over a three-coordinate universe
UniverseThree == << <<2, 1, 1>>, <<6, 31, 5>>, <<6, 32, 5>> >>
Lists4 == { <<"none", "gzip", "brotli", "none">>, <<"gzip", "gzip", "gzip", "gzip">>, <<"none", "none", "gzip", "brotli">> }
Lists3 == { <<"none", "gzip", "brotli">>, <<"gzip", "gzip", "gzip">>, <<"brotli", "none", "none">> }

\* payload id of coordinate i in source k: 100 * k + i  (so the winning source is visible)
SrcTiles(k) ==
    LET idx == {i \in 1..Len(Universe) : pres[k][i] = 1}
        RECURSIVE Build(_)
        Build(X) == IF X = {} THEN <<>>
                    ELSE LET i == CHOOSE j \in X : \A m \in X : j <= m
                         IN <<<<Universe[i][1], Universe[i][2], Universe[i][3], 100 * k + i>>>> \o Build(X \ {i})
    IN Build(idx)

CovList(tiles) == \* bounding box per level, as a list of level boxes (what an in-memory source advertises)
    LET ls == SetToSeq(Levels(tiles)) IN
    [j \in 1..Len(ls) |-> LET h == LevelHull(tiles, ls[j]) IN <<ls[j], h[1], h[2], h[3], h[4]>>]

Sources == [k \in 1..NSources |-> [tiles |-> SrcTiles(k), tc |-> codecs[k], cov |-> CovList(SrcTiles(k))]]
\* Nested = 1 (three sources): the first source is itself an overlay of sources 1 and 2 -- its advertised coverage is the
\* hull of both, so it announces tiles it does not have
Tree == IF Nested = 1
        THEN [op |-> "overlay", srcs |-> << [op |-> "overlay", srcs |-> << [op |-> "leaf", i |-> 1], [op |-> "leaf", i |-> 2] >>],
                                            [op |-> "leaf", i |-> 3] >>]
        ELSE [op |-> "overlay", srcs |-> [k \in 1..NSources |-> [op |-> "leaf", i |-> k]]]

Emit(rec) == PrintT(<<"REPLAY", ToJson(rec)>>)
Init ==
    /\ pres \in [1..NSources -> [1..Len(Universe) -> {0, 1}]]
    /\ \A k \in 1..NSources : pres[k] # [i \in 1..Len(Universe) |-> 0]       \* every source has at least one tile
    /\ codecs \in CodecLists
    /\ Emit([k |-> "pipe", tree |-> Tree, invalid |-> 0,
             sources |-> [k \in 1..NSources |-> [tiles |-> SrcTiles(k), tc |-> codecs[k]]]])
Next == UNCHANGED vars
Spec == Init /\ [][Next]_vars

(* ---- transcription of Operation::get_tile_stream of from_overlayed ---- *)
\* tiles of source k inside denotation d at level z (a source answers any box, also beyond its coverage)
Ask(k, z, d) == { x \in SetOf(SrcTiles(k)) : x[1] = z /\ DContains(d, x[2], x[3]) }
SlotCoords(cell) == DenCells(cell)
RECURSIVE Fill(_, _, _, _)
Fill(k, z, cell, slots) ==       \* slots: function coord -> tile or <<>> ; sources k..NSources still to ask
    IF k > NSources THEN slots
    ELSE LET empty == {c \in DOMAIN slots : slots[c] = <<>>}
             left == Hull(empty)                           \* bbox_left: bounding box of the empty slots
         IN IF empty = {} THEN slots
            ELSE LET got == Ask(k, z, left)
                     new == [c \in DOMAIN slots |->
                               IF slots[c] # <<>> THEN slots[c]
                               ELSE LET hit == {x \in got : <<x[2], x[3]>> = c} IN
                                    IF hit = {} THEN <<>> ELSE CHOOSE x \in hit : TRUE]
                 IN Fill(k + 1, z, cell, new)
StreamImpl(z, d) ==
    IF d = <<>> THEN {}
    ELSE UNION { LET cell == DInter(d, DGridCell(z, SubBox, gx, gy))
                     slots == Fill(1, z, cell, [c \in SlotCoords(cell) |-> <<>>])
                 IN {slots[c] : c \in {cc \in DOMAIN slots : slots[cc] # <<>>}} :
                 gx \in (d[1] \div SubBox)..(d[3] \div SubBox), gy \in (d[2] \div SubBox)..(d[4] \div SubBox) }

TestBoxes == { <<2, <<0, 0, 3, 3>>>>, <<2, <<1, 1, 2, 1>>>>, <<2, <<2, 0, 3, 3>>>>, <<0, <<0, 0, 0, 0>>>>, <<2, <<>>>> }
InvStreamAlgorithm ==
    \A tb \in TestBoxes :
        StreamImpl(tb[1], tb[2]) = { x \in Sem(Tree, Sources) : x[1] = tb[1] /\ DContains(tb[2], x[2], x[3]) }
=============================================================================
