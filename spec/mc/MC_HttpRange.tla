----------------------------- MODULE MC_HttpRange -----------------------------
EXTENDS HttpRange, Json
CONSTANTS Total
VARIABLES c
vars == <<c>>
ASSUME ThmClientSafe(Total)
ASSUME WitnessBodyLengthUnchecked
Emit(rec) == PrintT(<<"REPLAY", ToJson(rec)>>)
Init == \E mode \in Modes, off \in 0..(Total - 1), len \in 0..Total :
            /\ off + len <= Total
            /\ (mode \in {"short_body", "shifted"} => len >= 1)
            /\ c = <<mode, off, len>>
            /\ Emit([k |-> "httprange", mode |-> mode, off |-> off, len |-> len, total |-> Total])
Next == UNCHANGED vars
Spec == Init /\ [][Next]_vars
InvTrue == TRUE
=============================================================================
