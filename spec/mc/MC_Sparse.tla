------------------------------ MODULE MC_Sparse ------------------------------
(* Sparse tile sets on deep levels: two or three tiles far apart, so that the   *)
(* bounding box of a level is astronomically larger than the tile set.  C01's   *)
(* quantifier names them ("all finite tile sets, sparse or dense, any zoom      *)
(* levels").  Every format, written by the real writer and by the independent  *)
(* encoder; each case is executed in its own resource-limited process because   *)
(* "needs memory or time proportional to the bounding box" shows as an abort or *)
(* a timeout, not as a wrong answer.                                            *)
EXTENDS Container, Json
CONSTANTS Origins, MaxLevel, Skip
VARIABLES c
vars == <<c>>

Far(z) == MaxIdx(z)
SparseSets == <<
    << <<12, 0, 0, 1>>, <<12, Far(12), Far(12), 2>> >>,
    << <<16, 0, 0, 1>>, <<16, Far(16), Far(16), 2>> >>,
    << <<16, 7, Far(16), 1>>, <<16, Far(16), 3, 2>>, <<3, 1, 1, 3>> >>,
    << <<20, 5, 5, 1>>, <<20, Far(20) - 5, Far(20) - 7, 2>> >>,
    << <<24, 0, 0, 1>>, <<24, Far(24), Far(24), 2>> >>,
    << <<31, 0, 0, 1>>, <<31, Far(31), Far(31), 2>> >>,
    << <<0, 0, 0, 3>>, <<31, Far(31) - 300, Far(31) - 200, 1>>, <<31, Far(31), Far(31), 2>> >> >>
Deepest(s) == CHOOSE z \in Levels(s) : \A y \in Levels(s) : y <= z
Emit(rec) == PrintT(<<"REPLAY", ToJson(rec)>>)
Init == \E i \in 1..Len(SparseSets), f \in Formats, o \in Origins :
           /\ i \notin Skip                                     \* (quick tier: the sets that keep a writer busy for minutes are left out)
           /\ Deepest(SparseSets[i]) <= MaxLevel \/ i = 7        \* set 7: deep but compact next to one far tile on level 0
           /\ c = <<i, f, o>>
           /\ Emit([k |-> "case", sparse |-> 1, origin |-> o, fmt |-> f, tf |-> "pbf", tc |-> "gzip", tiles |-> SparseSets[i],
                    choices |-> [none |-> 1]])
Next == UNCHANGED vars
Spec == Init /\ [][Next]_vars
InvTrue == TRUE
=============================================================================
