------------------------------ MODULE MC_C01 ------------------------------
(* Exhaustive small scope for the container family: every assignment of    *)
(* {absent, payload 1, payload 2} to the coordinates of a universe that    *)
(* straddles the special places of the code (level 0, level borders, the   *)
(* 256-tile block grid at level 9, non-contiguous zoom levels) x every     *)
(* container format x the (tile format, compression) pairs it accepts.     *)
(* Payload 1 is 999 bytes (below the 1000-byte de-duplication threshold),  *)
(* payload 2 is 1000 bytes; with 3 values over >= 6 coordinates duplicates *)
(* are the rule.  Design-level theorems are checked on the abstract writer *)
(* model of Layout_VersaTiles; every state emits one REPLAY case.          *)
EXTENDS Container, Layout_VersaTiles, Layout_MBTiles, Json

CONSTANTS PayloadIds,   \* payload ids 1..PayloadIds (0 = absent)
          IndepDepth,   \* 0: quick per-format universes, 1: thorough
          PairMode,     \* "std": the pairs below; "allcodecs": pbf x {none, gzip, brotli} (C12, C04)
          Universe,     \* sequence of <<z, x, y>>
          FormatsUsed,  \* subset of Formats
          Origin        \* "writer" | "indep"

\* PMTiles: the four level-1 tiles are Hilbert-consecutive (ids 1..4: a run that bends), id 5 is the first level-2 tile
\* (a run crossing a zoom boundary); versatiles: both sides of the block grid; the others: borders and zoom gaps
UniverseIndep(f) ==
    CASE f = "pmtiles" -> << <<1, 0, 0>>, <<1, 0, 1>>, <<1, 1, 1>>, <<1, 1, 0>>, <<9, 256, 255>> >>
                          \o (IF IndepDepth = 1 THEN << <<2, 0, 0>> >> ELSE <<>>)
      [] f = "versatiles" -> << <<0, 0, 0>>, <<9, 255, 255>>, <<9, 256, 255>>, <<9, 256, 256>> >>
                          \o (IF IndepDepth = 1 THEN << <<9, 255, 256>>, <<3, 7, 0>> >> ELSE <<>>)
      [] OTHER -> << <<0, 0, 0>>, <<1, 0, 1>>, <<3, 7, 7>>, <<9, 256, 255>> >>
                          \o (IF IndepDepth = 1 THEN << <<9, 255, 255>> >> ELSE <<>>)

\* the universe may depend on the format (independent-encoder runs use per-format universes)
U(f) == IF Universe = <<>> THEN UniverseIndep(f) ELSE Universe

VARIABLES assign, fmt, par, choice
vars == <<assign, fmt, par, choice>>

Pairs(f) ==
    IF PairMode = "first" THEN {<<"pbf", "gzip">>} ELSE
    IF PairMode = "allcodecs" THEN {<<"pbf", "none">>, <<"pbf", "gzip">>, <<"pbf", "brotli">>} ELSE
    CASE f = "mbtiles" -> {<<"pbf", "gzip">>, <<"png", "none">>}
      [] f = "pmtiles" -> {<<"pbf", "gzip">>, <<"json", "none">>}
      [] OTHER -> {<<"pbf", "gzip">>, <<"png", "none">>, <<"pbf", "brotli">>}

\* layout choices of the independent encoders (C16); the writers of this code base use none of them
Bool == {0, 1}
LayoutChoices(f) ==
    IF Origin = "writer" THEN {[none |-> 1]}
    ELSE CASE f = "versatiles" ->
                 { [partial_blocks |-> a, reverse_tiles |-> b, share_all |-> c, index_first |-> d, shuffle_blocks |-> e, gap |-> g] :
                     a \in Bool, b \in Bool, c \in Bool, d \in Bool, e \in Bool, g \in {0, 3} }
           [] f = "pmtiles" ->
                 { [run_lengths |-> a, share |-> b, leaf_levels |-> l, leaf_size |-> 2, mixed_root |-> m, internal |-> i,
                    unclustered |-> u, type_unknown |-> 0] :
                     a \in Bool, b \in Bool, l \in 0..2, m \in Bool, i \in {"none", "gzip"}, u \in Bool }
           [] f = "mbtiles" -> { [as_view |-> a, extra_metadata |-> b, without_index |-> c] : a \in Bool, b \in Bool, c \in Bool }
           \* member order: sorted, reversed, or INTERLEAVED (the levels take turns: a level comes back after another one, as in an
           \* archive that was appended to)
           [] f = "tar" -> { [dot_prefix |-> a, dir_members |-> b, ustar |-> c, reverse |-> d, interleave |-> 0] : a \in Bool, b \in Bool, c \in Bool, d \in Bool }
                           \cup { [dot_prefix |-> a, dir_members |-> b, ustar |-> c, reverse |-> 0, interleave |-> 1] : a \in Bool, b \in Bool, c \in Bool }
           [] OTHER -> { [extra_files |-> a] : a \in Bool }

TilesOfU(Uv, a) == \* sequence of <<z,x,y,p>> in universe order for the coordinates that have a payload
    LET idx == {i \in 1..Len(Uv) : a[i] # 0}
        RECURSIVE Build(_)
        Build(S) == IF S = {} THEN <<>>
                    ELSE LET i == CHOOSE j \in S : \A k \in S : j <= k
                         IN <<<<Uv[i][1], Uv[i][2], Uv[i][3], a[i]>>>> \o Build(S \ {i})
    IN Build(idx)
TilesOf(a) == TilesOfU(U(fmt), a)

\* three tiles share the single level-3 block (de-duplicated payloads inside one block, stored order vs index order)
UniverseQuick == << <<0, 0, 0>>, <<3, 7, 7>>, <<3, 0, 7>>, <<3, 3, 2>>, <<9, 255, 255>>, <<9, 256, 255>> >>
UniverseThorough == UniverseQuick \o << <<9, 256, 256>>, <<1, 1, 0>> >>
AllFormats == Formats
OnlyMBTiles == {"mbtiles"}
\* a full 4x4 grid at level 2: every table, in particular the ones whose extreme rows are not in the
\* left-most, middle or right-most column
Grid4x4 == [i \in 1..16 |-> <<2, (i - 1) % 4, (i - 1) \div 4>>]
Grid4x3 == [i \in 1..12 |-> <<2, (i - 1) % 4, (i - 1) \div 4>>]
CrashFormats == {"versatiles", "pmtiles"}
UniverseCrashQuick == << <<0, 0, 0>>, <<3, 7, 7>>, <<9, 255, 255>>, <<9, 256, 255>> >>
UniverseCrashThorough == UniverseCrashQuick \o << <<9, 256, 256>>, <<1, 1, 0>> >>
\* universes for the independent-encoder cases (C16): Hilbert-consecutive coordinates at level 1 (run lengths)
\* and both sides of the block grid at level 9
\* (cfg: Universe <- EmptyUniverse selects the per-format universes UniverseIndep(f))
EmptyUniverse == <<>>

Emit(rec) == PrintT(<<"REPLAY", ToJson(rec)>>)

Init ==
    /\ fmt \in FormatsUsed
    /\ assign \in [1..Len(U(fmt)) -> 0..PayloadIds]
    /\ assign # [i \in 1..Len(U(fmt)) |-> 0]              \* no format can express the empty tile set
    /\ par \in Pairs(fmt)
    /\ choice \in LayoutChoices(fmt)
    /\ Emit([k |-> "case", origin |-> Origin, fmt |-> fmt, tf |-> par[1], tc |-> par[2], tiles |-> TilesOf(assign),
             choices |-> choice])
Next == UNCHANGED vars
Spec == Init /\ [][Next]_vars

(* design level: the transcribed versatiles writer (block grid, per-block de-duplication below the
   threshold, offsets relative to the block) produces a layout from which the published decoding
   recovers exactly the source *)
InvWriterModel == fmt = "versatiles" => ThmWriterDecodes(TilesOf(assign))
\* design level: the MBTiles reader's estimate-then-refine query plan yields the exact row range (per level)
TableAt(z) == {<<t[2], MaxIdx(z) - t[3]>> : t \in {TilesOf(assign)[i] : i \in {j \in 1..Len(TilesOf(assign)) : TilesOf(assign)[j][1] = z}}}
InvMBTilesPlan == fmt = "mbtiles" => \A z \in Levels(TilesOf(assign)) : ThmRefineExact(TableAt(z))
=============================================================================
