SPECIFICATION MCSpec
CONSTANTS
  MaxN = 4
  Ws = {1, 2, 3}
  Bs = {0, 1, 2}
INVARIANT InvAll
CHECK_DEADLOCK FALSE
