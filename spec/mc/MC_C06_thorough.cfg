SPECIFICATION Spec
CONSTANTS
  Universe <- UniverseThorough
  ZoomOpts <- ZoomQuick
  XPairs <- XPairsThorough
  YPairs <- YPairsThorough
  Borders <- BordersAll
INVARIANT InvTrue
CHECK_DEADLOCK FALSE
