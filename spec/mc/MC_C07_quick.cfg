SPECIFICATION Spec
CONSTANTS
  Mode = "static"
  MaxSegs = 4
  Renderings = {0}
INVARIANT InvTrue
CHECK_DEADLOCK FALSE
