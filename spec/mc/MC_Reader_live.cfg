SPECIFICATION FairSpec
CONSTANTS
  Procs = {1, 2}
  Blocks = {"a", "b"}
  TilesPerBlock = 1
  Cap = 1
  Variant = "code"
  MaxOps = 1
INVARIANT InvMutex
PROPERTY LiveLookup
CHECK_DEADLOCK FALSE
