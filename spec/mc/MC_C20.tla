------------------------------ MODULE MC_C20 ------------------------------
(* Bounded exploration of the implementation-shaped cache layer; checks    *)
(* that every step refines the abstract step relation and emits one REPLAY *)
(* line per generated transition (history reaching the pre-state + call).  *)
EXTENDS Cache, Json

CONSTANTS NK, MaxCap, MaxOps

VARIABLES cap, e, last, mru, hist, ret

vars == <<cap, e, last, mru, hist, ret>>
View == <<cap, e, last, mru>>

Keys == 1..NK

OpsAt(n) ==
    [op : {"get"}, k : Keys, v : {0}] \cup
    [op : {"gos_err"}, k : Keys, v : {0}] \cup
    { [op |-> o, k |-> k, v |-> 100 * k + n] : o \in {"add", "gos_ok"}, k \in Keys }

Init ==
    /\ cap \in 1..MaxCap
    /\ e = EmptyImpl(NK)
    /\ last = 0
    /\ mru = 0
    /\ hist = <<>>
    /\ ret = 0

Emit(rec) == PrintT(<<"REPLAY", ToJson(rec)>>)

Next ==
    /\ Len(hist) < MaxOps
    /\ \E op \in OpsAt(Len(hist) + 1) :
         LET r == ImplApply(e, last, cap, op) IN
         /\ e' = r.e
         /\ last' = r.last
         /\ ret' = r.ret
         /\ mru' = NewMru(Proj(e), mru, op, Proj(r.e))
         /\ hist' = Append(hist, op)
         /\ cap' = cap
         /\ Emit([p |-> "C20", cap |-> cap, nk |-> NK, hist |-> hist', mru |-> mru,
                  implret |-> r.ret, implpost |-> Proj(r.e)])

Spec == Init /\ [][Next]_vars

(* Refinement: every implementation-shaped step is an abstract step.  The  *)
(* MRU clause is demanded for cap >= 2 (cap 1: see DESIGN.md D16).         *)
StepRefines ==
    Len(hist') > Len(hist) =>
        AbsStepG(Proj(e), mru, cap, hist'[Len(hist')], ret', Proj(e'), cap >= 2)
Refinement == [][StepRefines]_vars

InvBounded == Size(Proj(e)) <= cap
InvStampsBelowLast == \A k \in Keys : e[k].s <= last
=============================================================================
