SPECIFICATION Spec
CONSTANTS
  MaxZ = 4
  MaxId = 5
  MaxRun = 3
INVARIANT InvTrue
CHECK_DEADLOCK FALSE
