SPECIFICATION Spec
CONSTANTS
  Depth = 2
  Styles <- StylesThorough
  WsOpts <- WsThorough
INVARIANT InvTrue
CHECK_DEADLOCK FALSE
