SPECIFICATION Spec
CONSTANTS
  Depth = 3
  Styles <- StylesThorough
  WsOpts <- WsThorough
INVARIANT InvTrue
CHECK_DEADLOCK FALSE
