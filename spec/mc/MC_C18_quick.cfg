SPECIFICATION Spec
CONSTANTS
  Depth = 2
  Styles <- StylesQuick
  WsOpts <- WsQuick
INVARIANT InvTrue
CHECK_DEADLOCK FALSE
