----------------------------- MODULE MC_TileJson -----------------------------
(* The TileJSON document as a state machine: every history of Depth mutator  *)
(* calls from every start document; the laws of TileJson.tla are checked on   *)
(* the document universe; one REPLAY line per complete history.               *)
EXTENDS TileJson, Json

CONSTANTS Depth

(* documents in the serial form of the traces (maps = sequences of pairs sorted by key) *)
TJv == <<"tilejson", "s", "3.0.0">>
SDocs == <<
    [bounds |-> <<>>, center |-> <<>>, vals |-> <<TJv>>, layers |-> <<>>],
    [bounds |-> <<-10, -10, 10, 10>>, center |-> <<0, 0, 3>>,
     vals |-> << <<"maxzoom", "b", 8>>, <<"minzoom", "b", 2>>, <<"name", "s", "two">>, TJv >>,
     layers |-> << <<"roads", << <<"kind", "String">> >>, <<>>, 2, 8>> >>],
    [bounds |-> <<20, 20, 30, 30>>, center |-> <<>>,
     vals |-> << <<"attribution", "s", "x">>, <<"maxzoom", "b", 12>>, <<"minzoom", "b", 5>>, <<"name", "s", "three">>, TJv >>,
     layers |-> << <<"roads", << <<"kind", "Number">>, <<"name", "String">> >>, <<"Roads">>, 5, 12>>,
                   <<"water", <<>>, <<>>, -1, -1>> >>],
    [bounds |-> <<>>, center |-> <<5, 5, 1>>, vals |-> << <<"maxzoom", "b", 6>>, TJv >>, layers |-> <<>>],
    \* a zoom that is not a number (from_object stores whatever string / list / byte it is given)
    [bounds |-> <<0, 0, 50, 50>>, center |-> <<>>,
     vals |-> << <<"maxzoom", "b", 3>>, <<"minzoom", "s", "low">>, <<"tiles", "l", <<"a", "b">> >>, TJv >>, layers |-> <<>>] >>

SOps ==
    [i \in 1..Len(SDocs) |-> [op |-> "merge", doc |-> SDocs[i]]] \o
    << [op |-> "limit_bbox", b |-> <<-5, -5, 5, 5>>], [op |-> "limit_bbox", b |-> <<100, 40, 120, 60>>],
       [op |-> "limit_bbox", b |-> <<0, 0, 25, 25>>],
       [op |-> "limit_min", z |-> 0], [op |-> "limit_min", z |-> 4], [op |-> "limit_min", z |-> 9],
       [op |-> "limit_max", z |-> 3], [op |-> "limit_max", z |-> 7], [op |-> "limit_max", z |-> 30],
       [op |-> "set", k |-> "name", t |-> "s", v |-> "n"], [op |-> "set", k |-> "minzoom", t |-> "s", v |-> "str"],
       [op |-> "set", k |-> "maxzoom", t |-> "b", v |-> 1], [op |-> "set", k |-> "list", t |-> "l", v |-> <<"p", "q">>] >>

Docs == {DocOf(SDocs[i]) : i \in 1..Len(SDocs)}
Boxes == {<<-5, -5, 5, 5>>, <<100, 40, 120, 60>>, <<0, 0, 25, 25>>}

ASSUME \A a \in Docs : LawMergeIdempotent(a)
ASSUME \A a, b, c \in Docs : LawMergeAssociative(a, b, c)
ASSUME \A a, b \in Docs : LawMergeCovers(a, b) /\ LawMergeZoomHull(a, b)
ASSUME \A a \in Docs, b \in Boxes : LawLimitInside(a, b) /\ LawLimitIdempotent(a, b)
ASSUME WitnessLimitBreaksZoomOrder

VARIABLES doc, start, hist
vars == <<doc, start, hist>>

Emit(rec) == PrintT(<<"REPLAY", ToJson(rec)>>)

Init == \E i \in 1..Len(SDocs) : doc = DocOf(SDocs[i]) /\ start = i /\ hist = <<>>
Next ==
    /\ Len(hist) < Depth
    /\ \E j \in 1..Len(SOps) :
         /\ doc' = Apply(doc, OpOf(SOps[j]))
         /\ hist' = Append(hist, j)
         /\ start' = start
         /\ (Len(hist') = Depth => Emit([k |-> "tj", init |-> SDocs[start], ops |-> [n \in 1..Depth |-> SOps[hist'[n]]]]))
Spec == Init /\ [][Next]_vars

\* in every reachable state: never an inverted box; what the mutators write under the zoom keys is a byte unless a Set put a string there
InvBounds == ~Inverted(doc.bounds)
InvTilejsonKept == "tilejson" \in DOMAIN doc.vals
InvLayersGrow == DOMAIN DocOf(SDocs[start]).layers \subseteq DOMAIN doc.layers
=============================================================================
