------------------------------ MODULE MC_Reader ------------------------------
(* Exhaustive exploration of the lookup protocol of Reader.tla for a few tasks, *)
(* blocks and a cache smaller than the number of blocks (evictions and re-fills *)
(* interleave with lookups of other tasks).                                      *)
EXTENDS Reader
=============================================================================
