SPECIFICATION Spec
CONSTANTS
  NK = 4
  MaxCap = 4
  MaxOps = 7
VIEW View
INVARIANT InvBounded
INVARIANT InvStampsBelowLast
PROPERTY Refinement
CHECK_DEADLOCK FALSE
