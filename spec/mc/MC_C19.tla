------------------------------ MODULE MC_C19 ------------------------------
EXTENDS Decode, Json
CONSTANTS MaxLen, Win, RunLens
VARIABLES c
vars == <<c>>
Emit(rec) == PrintT(<<"REPLAY", ToJson(rec)>>)
Formats == {"versatiles", "pmtiles", "mbtiles", "tar", "dir", "mvt"}
Init ==
    \/ \E ctx \in JsonContexts, s \in Seqs(JsonBytes, MaxLen) : c = <<"json", ctx, s>> /\ Emit([k |-> "text", dec |-> "json", bytes |-> ctx \o s])
    \/ \E ctx \in VplContexts, s \in Seqs(VplBytes, MaxLen) : c = <<"vpl", ctx, s>> /\ Emit([k |-> "text", dec |-> "vpl", bytes |-> ctx \o s])
    \/ \E ctx \in CsvContexts, s \in Seqs(CsvBytes, MaxLen + 1) : c = <<"csv", ctx, s>> /\ Emit([k |-> "text", dec |-> "csv", bytes |-> ctx \o s])
    \/ \E i \in 0..Win, j \in 0..Win, d \in {"json", "csv", "vpl"} : c = <<"ring", d, i, j>> /\ Emit([k |-> "ring", dec |-> d, before |-> i, after |-> j])
    \* runs of multi-byte characters (width 2..4) at every alignment (shift) before / around / after an error site, long enough to
    \* cross every fixed-size window or truncation of an error context (the quantifier's "multi-byte UTF-8 at every position
    \* relative to error sites")
    \/ \E d \in {"json", "csv", "vpl"}, w \in 2..4, sh \in 0..3, n \in RunLens, site \in {"start", "middle", "end"} :
            c = <<"mbrun", d, w, sh, n, site>> /\ Emit([k |-> "mbrun", dec |-> d, width |-> w, shift |-> sh, len |-> n, site |-> site])
    \* numbers that are no ordinary numbers, in every numeric argument position of the filters (NaN compares false with
    \* everything: a range check written with the wrong polarity lets it through)
    \/ \E tok \in {"NaN", "nan", "inf", "-inf", "infinity", "1e999", "-1e999", "-0", "0x10", "1_0", "1e-400", "+5"}, pos \in 1..6 :
            c = <<"vplnum", tok, pos>> /\ Emit([k |-> "vplnum", tok |-> tok, pos |-> pos])
    \* CSV tables by their SHAPE: a header of h fields followed by 1..4 rows of 0..4 fields each (ragged rows in every order:
    \* a reader that carries state from row to row sees every succession of lengths)
    \/ \E h \in 1..3, rows \in UNION { [1..n -> 0..4] : n \in 1..4 } : c = <<"csvrows", h, rows>> /\ Emit([k |-> "csvrows", header |-> h, rows |-> rows])
    \/ \E f \in Formats : \E fld \in Fields[f], cl \in Classes : c = <<"bin", f, fld, cl>> /\ Emit([k |-> "bin", fmt |-> f, field |-> fld, class |-> cl])
    \/ \E d \in {"json", "vpl", "tilejson"}, depth \in {16, 64, 256} : c = <<"nest", d, depth>> /\ Emit([k |-> "nest", dec |-> d, depth |-> depth])
Next == UNCHANGED vars
Spec == Init /\ [][Next]_vars
InvTrue == TRUE
=============================================================================
