SPECIFICATION Spec
CONSTANTS
  Depth = 2
INVARIANT InvBounds
INVARIANT InvTilejsonKept
INVARIANT InvLayersGrow
CHECK_DEADLOCK FALSE
