------------------------------ MODULE MC_C17 ------------------------------
(* JSON values: every string of length <= MaxLen over an alphabet of         *)
(* representative code points (quote, backslash, slash, NUL, BS, LF, FF, US,  *)
(* DEL, a C1 control, e-acute, U+2028, U+FFFF, a non-BMP character, a letter, *)
(* a digit), number shapes, and arrays / objects of depth <= 2 over a leaf    *)
(* sample.  TileJSON documents x container formats x coverage classes.        *)
EXTENDS Json17, Json

CONSTANTS MaxLen

VARIABLES c
vars == <<c>>

Alphabet == {34, 92, 47, 0, 8, 10, 12, 31, 127, 133, 233, 8232, 65535, 128512, 97, 48}
Strs(n) == UNION { [1..k -> Alphabet] : k \in 0..n }
S(cps) == [t |-> "s", v |-> cps]
Num(x) == [t |-> "n", v |-> x]
Numbers == { "0", "-0", "1", "-1", "0.5", "-12.25", "1e21", "1e-7", "123456789012345680000", "1.7976931348623157e308", "5e-324", "255", "4294967296.5" }
Leaves == { S(<<>>), S(<<97>>), S(<<34, 92>>), S(<<0, 128512>>), Num("1"), Num("-0.5"), Num("1e21"),
            [t |-> "b", v |-> 1], [t |-> "b", v |-> 0], [t |-> "z", v |-> 0] }
Keys == { <<>>, <<97>>, <<34>>, <<233, 10>> }
Arr(vs) == [t |-> "a", v |-> vs]
Obj(es) == [t |-> "o", v |-> es]
Flat == { Arr(<<>>), Obj(<<>>) } \cup { Arr(<<a>>) : a \in Leaves } \cup { Arr(<<a, b>>) : a \in Leaves, b \in Leaves }
        \cup { Obj(<< <<k, a>> >>) : k \in Keys, a \in Leaves }
        \cup { Obj(<< <<<<97>>, a>>, <<<<98>>, b>> >>) : a \in Leaves, b \in {S(<<127>>), Num("1")} }
Deep == { Arr(<<x, y>>) : x \in {Arr(<<S(<<92>>)>>), Obj(<< <<<<97>>, Num("1")>> >>)}, y \in {Arr(<<>>), Obj(<< <<<<34>>, S(<<34>>)>> >>), Num("0.5")} }
        \cup { Obj(<< <<<<97>>, x>> >>) : x \in {Arr(<<S(<<10>>), Num("-1")>>), Obj(<< <<<<>>, [t |-> "z", v |-> 0]>> >>)} }
Values == { S(s) : s \in Strs(MaxLen) } \cup { Num(x) : x \in Numbers } \cup Leaves \cup Flat \cup Deep

(* TileJSON documents: name (string), list value, byte values, optional bounds / center / vector_layers;
   bounds: 0 none, 1 a box containing the stored tiles, 2 a POINT and 3 a meridian LINE inside the stored tiles (zero area) *)
Names == { <<110, 97, 109, 101>>, <<34, 92, 233, 10>>, <<>> }
\* a byte value (any other numeric key of the document): the boundaries of the byte range are part of the model
ByteOf(mn, li) == IF li = 1 THEN 255 ELSE IF mn = 0 THEN 0 ELSE IF mn = 3 THEN 254 ELSE 7
Docs == { [name |-> nm, minzoom |-> mn, maxzoom |-> mx, bounds |-> b, center |-> ct, vl |-> vl, list |-> li, byte |-> ByteOf(mn, li)] :
            nm \in Names, mn \in {-1, 0, 3}, mx \in {-1, 2, 9}, b \in {0, 1, 2, 3}, ct \in {0, 1}, vl \in {0, 1}, li \in {0, 1} }
CovClasses == { <<0, 2>>, <<2, 2>>, <<1, 9>> }      \* zoom range of the stored tiles
Fmts == {"versatiles", "pmtiles", "tar", "directory"}

Emit(rec) == PrintT(<<"REPLAY", ToJson(rec)>>)
Init ==
    \/ \E v \in Values : c = [k |-> "json", v |-> v] /\ Emit([k |-> "json", value |-> v])
    \/ \E d \in Docs, cv \in CovClasses, f \in Fmts :
          /\ (d.minzoom = -1 \/ d.maxzoom = -1 \/ d.minzoom <= d.maxzoom)
          /\ c = [k |-> "tilejson", v |-> <<d, cv, f>>] /\ Emit([k |-> "tilejson", doc |-> d, cov |-> cv, fmt |-> f])
Next == UNCHANGED vars
Spec == Init /\ [][Next]_vars

(* design level: the automaton accepts the minimal legal escaping of every alphabet string and rejects raw specials *)
MinEsc(ch) == CASE ch = 34 -> <<92, 34>> [] ch = 92 -> <<92, 92>> [] ch = 8 -> <<92, 98>> [] ch = 12 -> <<92, 102>>
                [] ch = 10 -> <<92, 110>> [] ch = 0 -> <<92, 117, 48, 48, 48, 48>> [] ch = 31 -> <<92, 117, 48, 48, 49, 102>>
                [] OTHER -> <<ch>>
ASSUME \A a \in Alphabet, b \in Alphabet : ValidStringText(<<34>> \o MinEsc(a) \o MinEsc(b) \o <<34>>, <<a, b>>)
ASSUME \A a \in {34, 0, 8, 10, 12, 31} : ~ValidStringText(<<34, a, 34>>, <<a>>)
ASSUME ValidStringText(<<34, 92, 117, 100, 56, 51, 100, 92, 117, 100, 101, 48, 48, 34>>, <<128512>>)   \* "😀"
InvTrue == TRUE
=============================================================================
