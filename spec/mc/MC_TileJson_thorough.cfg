SPECIFICATION Spec
CONSTANTS
  Depth = 3
INVARIANT InvBounds
INVARIANT InvTilejsonKept
INVARIANT InvLayersGrow
CHECK_DEADLOCK FALSE
