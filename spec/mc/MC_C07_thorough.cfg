SPECIFICATION Spec
CONSTANTS
  Mode = "static"
  MaxSegs = 5
  Renderings = {0}
INVARIANT InvTrue
CHECK_DEADLOCK FALSE
