SPECIFICATION Spec
CONSTANTS
  Universe <- UniverseQuick
  NSources = 2
  CodecLists <- Lists2
  SubBox = 2
  Nested = 0
INVARIANT InvStreamAlgorithm
CHECK_DEADLOCK FALSE
