------------------------------ MODULE MC_PMTiles ------------------------------
(* TLC evaluates the theorems of Layout_PMTiles.tla: Hilbert bijection and adjacency *)
(* on levels 0..MaxZ, directory search on EVERY directory over the id space 0..MaxId  *)
(* with run lengths 0..MaxRun (sorted, disjoint runs).  In replay mode the cases are   *)
(* printed for the real code (hook H4).                                                *)
EXTENDS Layout_PMTiles, Json, SequencesExt, FiniteSetsExt
CONSTANTS MaxZ, MaxId, MaxRun
VARIABLE c
vars == <<c>>

RECURSIVE DirOf(_, _)
DirOf(S, run) == IF S = {} THEN <<>>
                 ELSE LET m == CHOOSE v \in S : \A w \in S : v <= w IN <<[id |-> m, run |-> run[m]]>> \o DirOf(S \ {m}, run)
Dirs == { es \in UNION { { DirOf(S, run) : run \in [S -> 0..MaxRun] } : S \in SUBSET (0..MaxId) } : SortedDisjoint(es) }

ASSUME ThmBijection(MaxZ)
ASSUME ThmAdjacent(MaxZ)
ASSUME ThmEndPointsNotEnough
ASSUME \A es \in Dirs : ThmFindTile(es, 0..(MaxId + MaxRun + 1))

Emit(rec) == PrintT(<<"REPLAY", ToJson(rec)>>)
Init ==
    \/ \E z \in 0..MaxZ : c = <<"level", z>> /\ Emit([k |-> "level", z |-> z, first |-> Acc(z), count |-> Pow4(z),
                                                      ids |-> [i \in 1..Pow4(z) |-> D2XY(Acc(z) + i - 1)]])
    \/ \E es \in Dirs : Len(es) >= 1 /\ c = <<"dir", es>> /\
          Emit([k |-> "dir", entries |-> es, queries |-> [i \in 1..(MaxId + MaxRun + 2) |-> [id |-> i - 1, want |-> Covering(es, i - 1)]]])
Next == UNCHANGED vars
Spec == Init /\ [][Next]_vars
InvTrue == TRUE
=============================================================================
