SPECIFICATION Spec
CONSTANTS
  Mode = "tiles"
  MaxSegs = 0
  Renderings = {0, 2, 3}
INVARIANT InvTrue
CHECK_DEADLOCK FALSE
