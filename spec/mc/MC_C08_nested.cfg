SPECIFICATION Spec
CONSTANTS
  Universe <- UniverseSquare
  NSources = 3
  CodecLists <- ListsPlain3
  SubBox = 2
  Nested = 1
CHECK_DEADLOCK FALSE
