SPECIFICATION Spec
CONSTANTS
  UDeep = 0
  MaxFeats = 2
  Mode = "update"
  NSources = 1
  PoolSize = 2
  Variants = {0, 2, 4}
INVARIANT InvUpdateTouchesOnlyProps
INVARIANT InvModelAdmitted
CHECK_DEADLOCK FALSE
