SPECIFICATION Spec
CONSTANTS
  PairMode = "allcodecs"
  Universe <- UniverseCrashThorough
  FormatsUsed <- CrashFormats
  Origin = "writer"
INVARIANT InvWriterModel
CHECK_DEADLOCK FALSE
