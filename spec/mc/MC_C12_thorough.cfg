SPECIFICATION Spec
CONSTANTS
  PayloadIds = 2
  IndepDepth = 0
  PairMode = "allcodecs"
  Universe <- UniverseCrashThorough
  FormatsUsed <- CrashFormats
  Origin = "writer"
INVARIANT InvWriterModel
INVARIANT InvMBTilesPlan
CHECK_DEADLOCK FALSE
