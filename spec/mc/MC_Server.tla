------------------------------ MODULE MC_Server ------------------------------
(* Request enumeration for the real `versatiles serve` binary.               *)
(*  Mode "tiles" (C05): sources (tile format x stored codec x container) x    *)
(*    coordinate classes x all 32 subsets of {gzip, br, deflate, identity,    *)
(*    zstd} x header renderings x server instances (best/fast, flip, swap).   *)
(*  Mode "static" (C07): all segment sequences up to MaxSegs over 16 classes  *)
(*    x mounts (folder at /, folder at /pre/, tar at /tar/).                  *)
EXTENDS Server, Json, SequencesExt

CONSTANTS Mode, MaxSegs, Renderings

VARIABLES c
vars == <<c>>

(* ------------------------------ tiles ------------------------------ *)
\* source tiles: level 0, level 2 (asymmetric), level 31 corner; payload ids distinct
\* payload 7 is a BIG tile (17 MiB of compressible content): whatever the server does to a tile, it does to all of it
SrvTiles == { <<0, 0, 0, 1>>, <<2, 1, 0, 2>>, <<2, 3, 2, 3>>, <<2, 0, 3, 4>>, <<31, 2147483647, 2147483647, 5>>, <<9, 256, 255, 6>>, <<3, 1, 1, 7>> }
BigCoords == { <<"3", "1", "1">>, <<"3", "1", "6">> }         \* where the big tile is found without / with --flip-y
\* kind = how the source is named on the command line; sid = the id requests have to use (ServedId)
RawSources == <<
    [id |-> "vpn", fmt |-> "versatiles", tf |-> "pbf", tc |-> "none", kind |-> "prefix"],
    [id |-> "vpg", fmt |-> "versatiles", tf |-> "pbf", tc |-> "gzip", kind |-> "suffix"],
    [id |-> "vpb", fmt |-> "versatiles", tf |-> "pbf", tc |-> "brotli", kind |-> "hash"],
    [id |-> "vpng", fmt |-> "versatiles", tf |-> "png", tc |-> "none", kind |-> "plain"],
    [id |-> "vjpg", fmt |-> "versatiles", tf |-> "jpg", tc |-> "none", kind |-> "prefix"],
    [id |-> "vwebp", fmt |-> "versatiles", tf |-> "webp", tc |-> "none", kind |-> "hash"],
    \* raster tiles stored compressed (unusual, but every stored compression x raster/vector is quantified over)
    [id |-> "vpngg", fmt |-> "versatiles", tf |-> "png", tc |-> "gzip", kind |-> "prefix"],
    [id |-> "vjpgb", fmt |-> "versatiles", tf |-> "jpg", tc |-> "brotli", kind |-> "suffix"],
    [id |-> "twebpg", fmt |-> "tar", tf |-> "webp", tc |-> "gzip", kind |-> "prefix"],
    [id |-> "mb", fmt |-> "mbtiles", tf |-> "pbf", tc |-> "gzip", kind |-> "plain"],
    [id |-> "pm", fmt |-> "pmtiles", tf |-> "pbf", tc |-> "gzip", kind |-> "suffix"],
    [id |-> "tarsrc", fmt |-> "tar", tf |-> "pbf", tc |-> "brotli", kind |-> "hash"],
    \* ids that a client has to percent-encode in the request target
    [id |-> "zürich", fmt |-> "versatiles", tf |-> "pbf", tc |-> "gzip", kind |-> "prefix"],
    [id |-> "a b", fmt |-> "versatiles", tf |-> "pbf", tc |-> "none", kind |-> "hash"],
    [id |-> "q\"x", fmt |-> "versatiles", tf |-> "pbf", tc |-> "none", kind |-> "prefix"] >>
Sources == [i \in 1..Len(RawSources) |->
              [id |-> RawSources[i].id, fmt |-> RawSources[i].fmt, tf |-> RawSources[i].tf, tc |-> RawSources[i].tc,
               kind |-> RawSources[i].kind, sid |-> ServedId(RawSources[i].kind, RawSources[i].id, "c_" \o RawSources[i].id)]]
Instances == << [fast |-> 0, flip |-> 0, swap |-> 0], [fast |-> 1, flip |-> 0, swap |-> 0],
                [fast |-> 0, flip |-> 1, swap |-> 0], [fast |-> 1, flip |-> 1, swap |-> 1] >>

NumS(t, v) == [txt |-> t, kind |-> "num", v |-> v]
Bad(t) == [txt |-> t, kind |-> "bad", v |-> 0]
Big(t) == [txt |-> t, kind |-> "big", v |-> 0]
\* <<z, x, y>> classes: present, absent in range, x / y beyond the level, level 31 corner, z in 32..255, z = 256,
\* non-numeric parts, y with extension, non-ASCII digits
ReqCoords == {
    <<NumS("3", 3), NumS("1", 1), NumS("1", 1)>>, <<NumS("3", 3), NumS("1", 1), NumS("6", 6)>>,
    <<NumS("0", 0), NumS("0", 0), NumS("0", 0)>>, <<NumS("2", 2), NumS("1", 1), NumS("0", 0)>>, <<NumS("2", 2), NumS("3", 3), NumS("2", 2)>>,
    <<NumS("2", 2), NumS("0", 0), NumS("3", 3)>>, <<NumS("2", 2), NumS("0", 0), NumS("1", 1)>>, <<NumS("2", 2), NumS("2", 2), NumS("3", 3)>>,
    <<NumS("2", 2), NumS("1", 1), NumS("3", 3)>>, <<NumS("2", 2), NumS("3", 3), NumS("0", 0)>>,
    <<NumS("1", 1), NumS("0", 0), NumS("0", 0)>>,
    <<NumS("2", 2), NumS("4", 4), NumS("0", 0)>>, <<NumS("2", 2), NumS("1", 1), NumS("9", 9)>>, <<NumS("0", 0), NumS("0", 0), NumS("1", 1)>>,
    <<NumS("2", 2), NumS("4294967295", 0), NumS("0", 0)>>,
    <<NumS("31", 31), NumS("2147483647", 2147483647), NumS("2147483647", 2147483647)>>, <<NumS("31", 31), NumS("0", 0), NumS("0", 0)>>,
    <<NumS("9", 9), NumS("256", 256), NumS("255", 255)>>, <<NumS("9", 9), NumS("255", 255), NumS("256", 256)>>,
    <<NumS("40", 40), NumS("0", 0), NumS("0", 0)>>, <<NumS("255", 255), NumS("1", 1), NumS("1", 1)>>, <<Big("256"), NumS("0", 0), NumS("0", 0)>>,
    <<Bad("a"), NumS("0", 0), NumS("0", 0)>>, <<NumS("2", 2), Bad("x"), NumS("0", 0)>>, <<NumS("2", 2), NumS("1", 1), Bad("y")>>,
    <<NumS("2", 2), Bad("-1"), NumS("0", 0)>>, <<NumS("2", 2), Big("4294967296"), NumS("0", 0)>>,
    <<NumS("2", 2), NumS("1", 1), NumS("0.pbf", 0)>>, <<NumS("2", 2), NumS("3", 3), NumS("2.png", 2)>>, <<NumS("2", 2), NumS("1", 1), NumS("00", 0)>>,
    <<NumS("2", 2), NumS("1", 1), Bad("٣")>>,
    \* z / x that only START with digits (the digits alone address a stored tile): not numbers, hence 400
    <<NumS("2", 2), Bad("1x"), NumS("0", 0)>>, <<Bad("2z"), NumS("1", 1), NumS("0", 0)>>, <<NumS("2", 2), Bad("1.5"), NumS("0", 0)>>,
    <<Bad("2.5"), NumS("1", 1), NumS("0", 0)>>, <<NumS("2", 2), Bad("1e0"), NumS("0.pbf", 0)>> }
\* 4294967295 is numeric for u32 but out of range for the level: class "num" with an irrelevant value > MaxIdx
CoordFix(q) == IF q[2].txt = "4294967295" THEN <<q[1], [q[2] EXCEPT !.v = 2147483647], q[3]>> ELSE q

Tokens == <<"gzip", "br", "deflate", "identity", "zstd">>
Subsets == SUBSET (1..5)
RECURSIVE Join(_, _)
Join(ts, sep) == IF ts = <<>> THEN "" ELSE IF Len(ts) = 1 THEN ts[1] ELSE ts[1] \o sep \o Join(Tail(ts), sep)
TokSeq(S, rev) == LET idx == IF rev THEN <<5, 4, 3, 2, 1>> ELSE <<1, 2, 3, 4, 5>> IN
                  SelectSeq([i \in 1..5 |-> Tokens[idx[i]]], LAMBDA t : \E j \in S : Tokens[j] = t)
\* rendering 0: "a, b"; 1: reversed order, no spaces; 2: positive weights and extra spaces; 3: upper / mixed case tokens
\* (content-coding names are case-insensitive: the client has LISTED gzip when it writes GZIP)
UpTok(t) == CASE t = "gzip" -> "GZIP" [] t = "br" -> "Br" [] t = "deflate" -> "DEFLATE" [] t = "identity" -> "Identity" [] OTHER -> "ZStd"
Render(S, rd) ==
    CASE rd = 0 -> Join(TokSeq(S, FALSE), ", ")
      [] rd = 3 -> Join([i \in 1..Len(TokSeq(S, FALSE)) |-> UpTok(TokSeq(S, FALSE)[i])], ", ")
      [] rd = 1 -> Join(TokSeq(S, TRUE), ",")
      [] OTHER -> Join([i \in 1..Len(TokSeq(S, FALSE)) |-> TokSeq(S, FALSE)[i] \o ";q=0." \o (IF i % 2 = 0 THEN "5" ELSE "9")], " ,  ")

(* ------------------------------ static ------------------------------ *)
\* c.txt exists inside the root only as c.txt.br, d.txt only as d.txt.gz; secret.txt exists outside (in <parent>) only as
\* secret.txt.br / in <parent2> only as secret.txt.gz; <parent2> has only index.html.gz
SegClasses == {"a.txt", "sub", "index.html", "b.txt", ".", "..", "", "%2e%2e", "%2f", "canary.txt", "canary2.txt", "root", "parent",
               "c.txt", "d.txt", "secret.txt"}
\* sequences longer than 4 are built over the classes that move the walk (16^5 requests would not add behaviour)
CoreClasses == {"sub", ".", "..", "", "%2e%2e", "root", "parent", "canary.txt", "secret.txt", "a.txt"}
SegSeqs == UNION { [1..n -> SegClasses] : n \in 0..(IF MaxSegs < 4 THEN MaxSegs ELSE 4) }
           \cup UNION { [1..n -> CoreClasses] : n \in 5..MaxSegs }
\* absolute components (C07 names them): the absolute path of the directory ABOVE the root's parent, after 0..3 empty
\* segments (a doubled / tripled slash is what makes the remainder of a target an absolute path) and after a plain name
AbsTails == { <<"canary2.txt">>, <<"secret.txt">>, <<"parent", "canary.txt">>, <<"parent", "secret.txt">>, <<"parent", "index.html">>,
              <<"parent", "root", "a.txt">>, <<"parent", "..", "canary2.txt">> }
AbsHeads == { <<>>, <<"">>, <<"", "">>, <<"", "", "">>, <<"sub", "", "">>, <<"..", "", "">>, <<".", "", "">> }
AbsSeqs == { h \o <<"ABS">> \o t : h \in AbsHeads, t \in AbsTails }
\* the tar root also holds members whose recorded NAMES point out of the archive ("../zz_out.txt", "../../zz_out2.txt")
OutMemberSeqs == { <<"..", "zz_out.txt">>, <<"", "..", "zz_out.txt">>, <<".", "..", "zz_out.txt">>, <<"sub", "..", "..", "zz_out.txt">>,
                   <<"..", "..", "zz_out2.txt">>, <<"..", "", "..", "zz_out2.txt">>, <<"%2e%2e", "zz_out.txt">> }
Mounts == {"", "pre", "tar"}
\* the file a plain request must be answered with (only stated for paths without dot / empty / encoded segments)
Target(segs) ==
    CASE segs = <<>> -> "in:index.html" [] segs = <<"a.txt">> -> "in:a.txt" [] segs = <<"index.html">> -> "in:index.html"
      [] segs = <<"sub", "b.txt">> -> "in:sub/b.txt" [] segs = <<"sub", "index.html">> -> "in:sub/index.html"
      [] segs = <<"sub", "">> -> "in:sub/index.html"
      [] segs = <<"c.txt">> -> "in:c.txt" [] segs = <<"sub", "d.txt">> -> "in:sub/d.txt"
      [] OTHER -> ""

Emit(rec) == PrintT(<<"REPLAY", ToJson(rec)>>)
Init ==
    IF Mode = "tiles"
    THEN \E i \in 1..Len(Instances), s \in 1..Len(Sources), q \in ReqCoords, S \in Subsets, rd \in Renderings :
            \* (the big tile is asked for by three kinds of client only: no header, gzip, identity -- 17 MiB per answer)
            /\ (<<q[1].txt, q[2].txt, q[3].txt>> \in BigCoords => (S \in {{}, {1}, {4}} /\ rd = 0))
            /\ c = <<i, s, q, S, rd>>
            /\ Emit([k |-> "tile", inst |-> i, flags |-> Instances[i], src |-> Sources[s], tiles |-> SetToSeq(SrvTiles),
                     z |-> CoordFix(q)[1], x |-> CoordFix(q)[2], y |-> CoordFix(q)[3],
                     accept |-> TokSeq(S, FALSE), header |-> Render(S, rd)])
    ELSE \E m \in Mounts, segs \in SegSeqs \cup AbsSeqs \cup OutMemberSeqs :
            /\ c = <<m, segs>>
            /\ Emit([k |-> "static", mount |-> m, segs |-> segs, target |-> Target(segs)])
Next == UNCHANGED vars
Spec == Init /\ [][Next]_vars

ASSUME ThmOptimize
\* sanity of the path-walk model on known sequences
ASSUME Walk(<<"..", "canary.txt">>, 1, 0) = "outside" /\ Walk(<<"sub", "..", "..", "canary.txt">>, 1, 0) = "outside"
ASSUME Walk(<<"sub", "..", "a.txt">>, 1, 0) = "inside" /\ Walk(<<"..", "root", "a.txt">>, 1, 0) = "inside"
ASSUME Walk(<<"..", "..", "canary2.txt">>, 1, 0) = "outside" /\ Walk(<<"%2e%2e", "canary.txt">>, 1, 0) = "inside"
ASSUME Walk(<<"..", "..", "parent", "root">>, 1, 0) = "inside" /\ Walk(<<"..", "..", "parent", "canary.txt">>, 1, 0) = "outside"
ASSUME Walk(<<"..", "..", "..", "parent">>, 1, 0) = "outside" /\ Walk(<<"..", ".", "root", "sub">>, 1, 0) = "inside"
\* lexically back inside although the kernel finds nothing (a.txt is no directory): no 404 is demanded
ASSUME Walk(<<"..", "a.txt", "..", "root">>, 1, 0) = "inside" /\ Walk(<<"..", "a.txt", "..", "canary.txt">>, 1, 0) = "outside"
InvTrue == TRUE
SetupTiles == SrvTiles
=============================================================================
