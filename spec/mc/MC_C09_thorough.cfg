SPECIFICATION Spec
CONSTANTS
  MaxChain = 2
  ZVals <- ZThorough
  XPairs <- XPThorough
  YPairs <- YPThorough
INVARIANT InvChain
INVARIANT InvSubset
CHECK_DEADLOCK FALSE
