SPECIFICATION Spec
CONSTANTS
  Universe <- UniverseThree
  NSources = 4
  CodecLists <- Lists4
  SubBox = 2
  Nested = 0
INVARIANT InvStreamAlgorithm
CHECK_DEADLOCK FALSE
