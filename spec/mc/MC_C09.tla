------------------------------ MODULE MC_C09 ------------------------------
(* Filter programs: chains of up to MaxChain filters (filter_zoom with        *)
(* min/max from ZVals, filter_bbox with boxes from the half-tile grid) over   *)
(* a leaf or an overlay of two leaves, x a few source tile sets on levels     *)
(* 0..3; plus invalid filter_bbox arguments that must be reported at build    *)
(* time.  Design level: chained filters are intersections (LawChain).         *)
EXTENDS Pipeline, Json

CONSTANTS MaxChain, ZVals, XPairs, YPairs

VARIABLES tree, srcsel, invalid
vars == <<tree, srcsel, invalid>>

ZQuick == {-1, 0, 2, 40}
ZThorough == {-1, 0, 1, 2, 3, 40}
\* <<8, 8>>: degenerate ON the antimeridian (lon = +180 on both sides); <<0, 0>> in Y: degenerate on the northern limit
XPQuick == { <<0, 8>>, <<1, 3>>, <<4, 4>>, <<8, 8>> }
YPQuick == { <<0, 8>>, <<3, 3>>, <<2, 6>>, <<0, 0>> }
XPThorough == XPQuick \cup { <<5, 8>>, <<2, 6>>, <<3, 3>>, <<0, 0>> }
YPThorough == YPQuick \cup { <<4, 4>>, <<1, 3>>, <<8, 8>> }

GeoOpts == { [L0 |-> 2, w |-> xp[1], e |-> xp[2], n |-> yp[1], s |-> yp[2]] : xp \in XPairs, yp \in YPairs }
Filters == ({ [op |-> "zoom", min |-> a, max |-> b] : a \in ZVals, b \in ZVals } \ { [op |-> "zoom", min |-> -1, max |-> -1] })
           \cup { [op |-> "bbox", geo |-> g] : g \in GeoOpts }

Leaf(i) == [op |-> "leaf", i |-> i]
Bases == { Leaf(1), [op |-> "overlay", srcs |-> <<Leaf(1), Leaf(2)>>] }
Wrap(f, t) == IF f.op = "zoom" THEN [op |-> "zoom", min |-> f.min, max |-> f.max, src |-> t]
              ELSE [op |-> "bbox", geo |-> f.geo, src |-> t]
Chains1 == { Wrap(f, b) : f \in Filters, b \in Bases }
Chains2 == { Wrap(f, t) : f \in Filters, t \in Chains1 }
\* overlays whose sources are themselves filtered (a filtered source advertises EMPTY levels, in whatever internal
\* representation the filter leaves them; the overlay's coverage must still be the union)
SmallFilters == { [op |-> "zoom", min |-> -1, max |-> 1], [op |-> "zoom", min |-> 2, max |-> -1], [op |-> "zoom", min |-> 3, max |-> 2],
                  [op |-> "bbox", geo |-> [L0 |-> 2, w |-> 4, e |-> 8, n |-> 3, s |-> 8]], [op |-> "bbox", geo |-> [L0 |-> 2, w |-> 0, e |-> 1, n |-> 0, s |-> 1]] }
OverFiltered == { [op |-> "overlay", srcs |-> << Wrap(f1, Leaf(1)), Wrap(f2, Leaf(2)) >>] : f1 \in SmallFilters, f2 \in SmallFilters }
                \cup { [op |-> "overlay", srcs |-> << Wrap(f1, Leaf(1)), Leaf(2) >>] : f1 \in SmallFilters }
                \cup { [op |-> "overlay", srcs |-> << Wrap(f2, Wrap(f1, Leaf(1))), Leaf(2) >>] : f1 \in SmallFilters, f2 \in SmallFilters }
Programs == Chains1 \cup (IF MaxChain >= 2 THEN Chains2 ELSE {}) \cup OverFiltered

\* invalid filter_bbox arguments (raw VPL value text): reversed, out of range, wrong arity, not numbers
\* ... and systematically: every array of 0..5 entries over {0, 20, x} that is NOT four numbers with west <= east and
\* south <= north (wrong arity with and without non-numbers, non-numbers in every position, reversed boxes)
Elems == {"0", "20", "x"}
NumOf(e) == IF e = "0" THEN 0 ELSE IF e = "20" THEN 20 ELSE -1
RECURSIVE Join(_, _)
Join(sq, i) == IF i > Len(sq) THEN "" ELSE (IF i > 1 THEN "," ELSE "") \o sq[i] \o Join(sq, i + 1)
ValidSeq(sq) == Len(sq) = 4 /\ (\A i \in 1..4 : NumOf(sq[i]) >= 0) /\ NumOf(sq[1]) <= NumOf(sq[3]) /\ NumOf(sq[2]) <= NumOf(sq[4])
InvalidGen == { "[" \o Join(sq, 1) \o "]" : sq \in { q \in UNION { [1..n -> Elems] : n \in 0..5 } : ~ValidSeq(q) } }
\* "numbers" that are no ordinary numbers in every position: NaN compares false with everything, so a range check written with
\* the wrong polarity lets it through; infinities are out of range
InvalidSpecial == { "[NaN,0,10,10]", "[0,NaN,10,10]", "[0,0,NaN,10]", "[0,0,10,NaN]", "[nan,0,10,10]", "[0,0,10,nan]", "[NaN,NaN,NaN,NaN]",
                    "[inf,0,10,10]", "[0,0,inf,10]", "[-inf,0,10,10]", "[0,-inf,10,10]", "[0,0,10,inf]", "[1e999,0,10,10]", "[0,0,10,1e999]" }
InvalidRaw == InvalidGen \cup InvalidSpecial \cup { "[10,10,-10,-10]", "[-200,0,10,10]", "[0,-100,10,10]", "[0,0,10]", "[0,0,10,10,20]", "[a,b,c,d]", "[0,0,190,10]", "[0,0,10,95]" }

SourceSets == {
    << [tiles |-> << <<0,0,0,101>>, <<1,0,0,102>>, <<1,1,1,103>>, <<2,1,1,104>>, <<2,2,1,105>>, <<2,3,3,106>>, <<3,0,7,107>>, <<3,4,3,108>> >>, tc |-> "none"],
       [tiles |-> << <<1,1,1,201>>, <<2,2,1,202>>, <<2,0,2,203>>, <<3,4,4,204>> >>, tc |-> "gzip"] >>,
    << [tiles |-> << <<2,0,0,101>>, <<2,1,2,102>>, <<2,3,1,103>>, <<3,5,5,104>> >>, tc |-> "gzip"],
       [tiles |-> << <<0,0,0,201>>, <<2,1,2,202>>, <<3,5,5,203>>, <<3,6,2,204>> >>, tc |-> "gzip"] >> }

\* the deepest levels: zoom limits at and beyond level 31 (the argument is a u8: 32 and 255 are valid values that select nothing
\* as a minimum and everything as a maximum) over sources with tiles on levels 30 and 31; zoom filters only (the half-tile
\* arithmetic of the geographic clauses does not fit TLC's 32-bit integers at level 31)
ZHigh == {-1, 30, 31, 32, 255}
HighFilters == { [op |-> "zoom", min |-> a, max |-> b] : a \in ZHigh, b \in ZHigh } \ { [op |-> "zoom", min |-> -1, max |-> -1] }
HighChains1 == { Wrap(f, b) : f \in HighFilters, b \in Bases }
HighPrograms == HighChains1 \cup (IF MaxChain >= 2 THEN { Wrap(f, t) : f \in HighFilters, t \in HighChains1 } ELSE {})
HighSourceSets == {
    << [tiles |-> << <<2,1,1,101>>, <<30,5,7,102>>, <<31,0,0,103>>, <<31,2147483647,2147483647,104>> >>, tc |-> "none"],
       [tiles |-> << <<2,1,1,201>>, <<31,0,0,202>>, <<31,2147483646,1,203>> >>, tc |-> "none"] >> }

\* from_debug as the source (C02 names it): filter chains over a generated pyramid; two tile formats
DebugBases == { [op |-> "debug", format |-> "pbf"], [op |-> "debug", format |-> "png"] }
DebugChains1 == { Wrap(f, b) : f \in Filters, b \in DebugBases }
DebugPrograms == DebugBases \cup { [op |-> "overlay", srcs |-> << [op |-> "debug", format |-> "pbf"], [op |-> "debug", format |-> "pbf"] >>] }
                 \cup DebugChains1 \cup { Wrap([op |-> "zoom", min |-> a, max |-> 3], t) : a \in {-1, 2}, t \in { x \in DebugChains1 : x.op = "bbox" } }

CovList(tiles) ==
    LET ls == SetToSeq(Levels(tiles)) IN
    [j \in 1..Len(ls) |-> LET h == LevelHull(tiles, ls[j]) IN <<ls[j], h[1], h[2], h[3], h[4]>>]
WithCov(ss) == [k \in 1..Len(ss) |-> [tiles |-> ss[k].tiles, tc |-> ss[k].tc, cov |-> CovList(ss[k].tiles)]]

Emit(rec) == PrintT(<<"REPLAY", ToJson(rec)>>)
Init ==
    \/ /\ invalid = 0 /\ tree \in Programs /\ srcsel \in SourceSets
       /\ Emit([k |-> "pipe", tree |-> tree, invalid |-> 0, sources |-> srcsel])
    \/ /\ invalid = 0 /\ tree \in HighPrograms /\ srcsel \in HighSourceSets
       /\ Emit([k |-> "pipe", tree |-> tree, invalid |-> 0, sources |-> srcsel])
    \/ /\ invalid = 0 /\ tree \in DebugPrograms /\ srcsel = <<>>
       /\ Emit([k |-> "pipe", tree |-> tree, invalid |-> 0, debug |-> 1, sources |-> <<>>])
    \/ /\ invalid = 1 /\ srcsel \in SourceSets
       /\ \E raw \in InvalidRaw, b \in Bases :
             /\ tree = [op |-> "bbox", raw |-> raw, geo |-> [L0 |-> 0, w |-> 0, n |-> 0, e |-> 0, s |-> 0], src |-> b]
             /\ Emit([k |-> "pipe", tree |-> tree, invalid |-> 1, sources |-> srcsel])
Next == UNCHANGED vars
Spec == Init /\ [][Next]_vars

IsDebugTree == srcsel = <<>>
InvChain == (invalid = 0 /\ ~IsDebugTree) => LawChain(tree, WithCov(srcsel))
\* a filter never invents tiles and never changes a payload
InvSubset == (invalid = 0 /\ ~IsDebugTree) => Sem(tree, WithCov(srcsel)) \subseteq
                 (SetOf(srcsel[1].tiles) \cup SetOf(srcsel[2].tiles))
=============================================================================
