SPECIFICATION Spec
INVARIANT InvTrue
CHECK_DEADLOCK FALSE
