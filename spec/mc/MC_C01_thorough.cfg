SPECIFICATION Spec
CONSTANTS
  Universe <- UniverseThorough
  FormatsUsed <- AllFormats
  Origin = "writer"
INVARIANT InvWriterModel
CHECK_DEADLOCK FALSE
