SPECIFICATION Spec
CONSTANTS
  PayloadIds = 2
  IndepDepth = 0
  PairMode = "std"
  Universe <- UniverseThorough
  FormatsUsed <- AllFormats
  Origin = "writer"
INVARIANT InvWriterModel
INVARIANT InvMBTilesPlan
CHECK_DEADLOCK FALSE
