SPECIFICATION Spec
CONSTANTS
  PairMode = "std"
  Universe <- UniverseThorough
  FormatsUsed <- AllFormats
  Origin = "writer"
INVARIANT InvWriterModel
CHECK_DEADLOCK FALSE
