SPECIFICATION Spec
CONSTANTS
  Universe <- UniverseQuick
  ZoomOpts <- ZoomQuick
  XPairs <- XPairsQuick
  YPairs <- YPairsQuick
  Borders <- BordersAll
INVARIANT InvTrue
CHECK_DEADLOCK FALSE
