SPECIFICATION Spec
CONSTANTS
  PairMode = "std"
  Universe <- UniverseIndepQuick
  FormatsUsed <- AllFormats
  Origin = "indep"
INVARIANT InvWriterModel
CHECK_DEADLOCK FALSE
