SPECIFICATION Spec
CONSTANTS
  Universe <- UniverseIndepQuick
  FormatsUsed <- AllFormats
  Origin = "indep"
INVARIANT InvWriterModel
CHECK_DEADLOCK FALSE
