SPECIFICATION Spec
CONSTANTS
  Universe <- UniverseQuick
  NSources = 2
  CodecLists <- Lists2Quick
  SubBox = 2
INVARIANT InvStreamAlgorithm
CHECK_DEADLOCK FALSE
