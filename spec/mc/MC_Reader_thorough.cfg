SPECIFICATION Spec
CONSTANTS
  Procs = {1, 2, 3}
  Blocks = {"a", "b", "c"}
  TilesPerBlock = 2
  Cap = 2
  MaxOps = 2
INVARIANT InvMutex
INVARIANT InvBounded
INVARIANT InvOwnTile
INVARIANT InvCounts
INVARIANT InvIndexOwn
CHECK_DEADLOCK FALSE
