SPECIFICATION Spec
CONSTANTS
  Universe <- UniverseSquare
  NSources = 3
  CodecLists <- ListsPlain3
  SubBox = 2
INVARIANT InvStreamAlgorithm
CHECK_DEADLOCK FALSE
