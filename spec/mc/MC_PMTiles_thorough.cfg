SPECIFICATION Spec
CONSTANTS
  MaxZ = 6
  MaxId = 6
  MaxRun = 3
INVARIANT InvTrue
CHECK_DEADLOCK FALSE
