SPECIFICATION Spec
CONSTANTS
  Origins = {"indep"}
  MaxLevel = 31
INVARIANT InvTrue
CHECK_DEADLOCK FALSE
