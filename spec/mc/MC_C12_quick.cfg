SPECIFICATION Spec
CONSTANTS
  PairMode = "allcodecs"
  Universe <- UniverseCrashQuick
  FormatsUsed <- CrashFormats
  Origin = "writer"
INVARIANT InvWriterModel
CHECK_DEADLOCK FALSE
