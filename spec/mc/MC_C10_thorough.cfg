SPECIFICATION Spec
CONSTANTS
  UDeep = 0
  MaxFeats = 2
  Mode = "merge"
  NSources = 2
  PoolSize = 3
  Variants = {0, 2, 4}
INVARIANT InvUpdateTouchesOnlyProps
CHECK_DEADLOCK FALSE
