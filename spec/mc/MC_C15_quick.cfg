SPECIFICATION Spec
CONSTANTS
  MaxL = 3
  MaxPairL = 2
  MaxGeoL = 3
  MaxPyrL = 1
INVARIANT InvBoxLaws
INVARIANT InvPairLaws
INVARIANT InvGeoLaws
INVARIANT InvPyrLaws
CHECK_DEADLOCK FALSE
