SPECIFICATION Spec
CONSTANTS
  UDeep = 0
  MaxFeats = 1
  Mode = "merge"
  NSources = 2
  PoolSize = 4
  Variants = {0, 4}
INVARIANT InvUpdateTouchesOnlyProps
CHECK_DEADLOCK FALSE
