SPECIFICATION Spec
CONSTANTS
  Mode = "merge"
  NSources = 2
  PoolSize = 2
  Variants = {0, 4}
INVARIANT InvUpdateTouchesOnlyProps
CHECK_DEADLOCK FALSE
