SPECIFICATION Spec
CONSTANTS
  Procs = {1, 2}
  Blocks = {"a", "b", "c"}
  TilesPerBlock = 1
  Cap = 2
  Variant = "bypass"
  MaxOps = 2
INVARIANT InvMutex
INVARIANT InvBounded
INVARIANT InvOwnTile
INVARIANT InvCounts
INVARIANT InvIndexOwn
CHECK_DEADLOCK FALSE
