SPECIFICATION Spec
CONSTANTS
  Origins = {"writer"}
  MaxLevel = 31
  Skip = {2, 3, 4}
INVARIANT InvTrue
CHECK_DEADLOCK FALSE
