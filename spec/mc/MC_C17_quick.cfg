SPECIFICATION Spec
CONSTANTS
  MaxLen = 2
INVARIANT InvTrue
CHECK_DEADLOCK FALSE
