------------------------------ MODULE MC_C06 ------------------------------
(* Case enumeration for the converting reader: tile subsets (distinct payload *)
(* per coordinate, asymmetric positions so that any wrong mapping shows) x   *)
(* flag combinations x zoom limits x geographic boxes x border.  Design      *)
(* level: the transcribed lookup / stream coordinate handling of the code    *)
(* agrees with T / Tinv.                                                     *)
EXTENDS Converter, Json

CONSTANTS Universe, ZoomOpts, XPairs, YPairs, Borders

VARIABLES present, flip, swap, zo, geo, border
vars == <<present, flip, swap, zo, geo, border>>

NoGeo == [L0 |-> 0, w |-> 0, n |-> 0, e |-> 0, s |-> 0]
\* boxes that are degenerate ON the antimeridian (lon = +180 / -180 on both sides) or on the northern / southern limit of the
\* projection: the quantifier names "boxes touching the antimeridian" and "degenerate points" (8 = +180 deg / southern limit)
EdgePairs == { <<<<8, 8>>, <<0, 8>>>>, <<<<8, 8>>, <<3, 3>>>>, <<<<0, 0>>, <<0, 8>>>>, <<<<0, 0>>, <<3, 3>>>>,
               <<<<0, 8>>, <<0, 0>>>>, <<<<4, 4>>, <<0, 0>>>>, <<<<0, 8>>, <<8, 8>>>>, <<<<4, 4>>, <<8, 8>>>>, <<<<7, 8>>, <<2, 6>>>> }
GeoOpts == {NoGeo} \cup { [L0 |-> 2, w |-> xp[1], e |-> xp[2], n |-> yp[1], s |-> yp[2]] : xp \in XPairs, yp \in YPairs }
                   \cup { [L0 |-> 2, w |-> p[1][1], e |-> p[1][2], n |-> p[2][1], s |-> p[2][2]] : p \in EdgePairs }

UniverseQuick == << <<0, 0, 0>>, <<1, 1, 0>>, <<2, 0, 1>>, <<2, 3, 1>>, <<2, 1, 2>>, <<2, 2, 3>> >>
UniverseThorough == UniverseQuick \o << <<1, 0, 0>>, <<2, 3, 3>> >>
ZoomQuick == { <<-1, -1>>, <<1, 1>>, <<0, 1>>, <<2, 5>>, <<1, -1>> }
XPairsQuick == { <<0, 8>>, <<1, 3>>, <<4, 4>>, <<5, 8>> }
YPairsQuick == { <<0, 8>>, <<3, 3>>, <<2, 6>> }
XPairsThorough == XPairsQuick \cup { <<2, 6>>, <<3, 3>>, <<0, 1>> }
YPairsThorough == YPairsQuick \cup { <<4, 4>>, <<1, 3>>, <<7, 8>> }
BordersAll == {0, 1}

TilesOf(pr) ==
    LET idx == {i \in 1..Len(Universe) : pr[i] = 1}
        RECURSIVE Build(_)
        Build(S) == IF S = {} THEN <<>>
                    ELSE LET i == CHOOSE j \in S : \A k \in S : j <= k
                         IN <<<<Universe[i][1], Universe[i][2], Universe[i][3], i>>>> \o Build(S \ {i})
    IN Build(idx)

Emit(rec) == PrintT(<<"REPLAY", ToJson(rec)>>)

Init ==
    /\ present \in [1..Len(Universe) -> {0, 1}]
    /\ present # [i \in 1..Len(Universe) |-> 0]
    /\ flip \in {0, 1} /\ swap \in {0, 1}
    /\ zo \in ZoomOpts
    /\ geo \in GeoOpts
    /\ border \in (IF geo = NoGeo THEN {0} ELSE Borders)
    /\ Emit([k |-> "conv", tiles |-> TilesOf(present),
             opts |-> [flip |-> flip, swap |-> swap, zmin |-> zo[1], zmax |-> zo[2],
                       hasgeo |-> (IF geo = NoGeo THEN 0 ELSE 1), geo |-> geo, border |-> border]])
Next == UNCHANGED vars
Spec == Init /\ [][Next]_vars

(* implementation-shaped coordinate handling of TilesConvertReader (after fix D3):
   lookup: swap then flip of the requested coordinate; stream: swap then flip of the box, flip then swap of results *)
ImplLookupCoord(f, s, c) == LET a == IF s = 1 THEN SwapC(c) ELSE c IN IF f = 1 THEN FlipC(a) ELSE a
ImplStreamBox(f, s, d, z) == LET a == IF s = 1 THEN DSwapXY(d) ELSE d IN IF f = 1 THEN DFlipY(a, z) ELSE a
ImplStreamCoord(f, s, c) == T(f, s, c)
ASSUME ThmTinv
ASSUME ThmCliExpected
ASSUME \A f \in {0, 1}, s \in {0, 1}, z \in 0..2 : \A x \in 0..MaxIdx(z), y \in 0..MaxIdx(z) :
          ImplLookupCoord(f, s, <<z, x, y>>) = Tinv(f, s, <<z, x, y>>)
ASSUME \A f \in {0, 1}, s \in {0, 1}, z \in 0..2 :
          \A x0 \in 0..MaxIdx(z), x1 \in 0..MaxIdx(z), y0 \in 0..MaxIdx(z), y1 \in 0..MaxIdx(z) :
             (x0 <= x1 /\ y0 <= y1) =>
                LET d == <<x0, y0, x1, y1>> IN
                { ImplStreamCoord(f, s, <<z, c[1], c[2]>>) : c \in DenCells(ImplStreamBox(f, s, d, z)) }
                   = { <<z, c[1], c[2]>> : c \in DenCells(d) }
InvTrue == TRUE
=============================================================================
