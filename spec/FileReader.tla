----------------------------- MODULE FileReader -----------------------------
(***************************************************************************)
(* C13 -- concurrent byte-range reads on ONE opened file-backed reader.     *)
(*                                                                         *)
(* The model is parameterised by the step structure of one read call,      *)
(* `Steps', which the check EXTRACTS FROM THE REAL CODE (strace of a        *)
(* single-threaded run): a sequence over                                    *)
(*   "dup"   duplicate the reader's descriptor (shares the OPEN FILE        *)
(*           DESCRIPTION and therefore the file offset with every other     *)
(*           duplicate)                                                     *)
(*   "open"  open the file again (private description, private offset)      *)
(*   "seek"  lseek to the wanted offset on the descriptor in use            *)
(*   "read"  read(2) at the description's current offset, advancing it      *)
(*   "pread" positional read: offset passed explicitly, nothing shared      *)
(* TLC explores every interleaving of the readers' steps.                   *)
(*                                                                         *)
(* The file holds distinct content at every offset, so "the bytes a call    *)
(* gets" is identified by the offset the kernel actually read from.         *)
(***************************************************************************)
EXTENDS Naturals, Integers, Sequences, FiniteSets, TLC

CONSTANTS Steps,      \* e.g. <<"dup", "seek", "read">>  or  <<"pread">>
          Readers,    \* set of concurrent callers
          Want        \* [Readers -> offsets]: the range start each caller asks for (one block each)

VARIABLES pos,        \* pos[d]: offset of open file description d; d = 0 is the reader's own (shared by dup)
          pc,         \* pc[r] \in 1..Len(Steps)+1
          desc,       \* desc[r]: description the caller's working descriptor refers to
          got         \* got[r]: offset the caller's data was read from, or -1 (nothing yet)

vars == <<pos, pc, desc, got>>

Descs == {0} \cup Readers     \* description r is private to caller r (if it re-opens the file)
Done(r) == pc[r] = Len(Steps) + 1
BlockLen == 1                 \* every call reads one block; offsets are in blocks

Init ==
    /\ pos = [d \in Descs |-> 0]
    /\ pc = [r \in Readers |-> 1]
    /\ desc = [r \in Readers |-> 0]
    /\ got = [r \in Readers |-> -1]

Step(r) ==
    /\ ~Done(r)
    /\ LET s == Steps[pc[r]] IN
       /\ pc' = [pc EXCEPT ![r] = @ + 1]
       /\ CASE s = "dup"   -> desc' = [desc EXCEPT ![r] = 0] /\ UNCHANGED <<pos, got>>
            [] s = "open"  -> desc' = [desc EXCEPT ![r] = r] /\ pos' = [pos EXCEPT ![r] = 0] /\ UNCHANGED got
            [] s = "seek"  -> pos' = [pos EXCEPT ![desc[r]] = Want[r]] /\ UNCHANGED <<desc, got>>
            [] s = "read"  -> /\ got' = [got EXCEPT ![r] = IF @ = -1 THEN pos[desc[r]] ELSE @]
                              /\ pos' = [pos EXCEPT ![desc[r]] = @ + BlockLen]
                              /\ UNCHANGED desc
            [] s = "pread" -> got' = [got EXCEPT ![r] = Want[r]] /\ UNCHANGED <<pos, desc>>
            [] OTHER       -> UNCHANGED <<pos, desc, got>>

Next == \E r \in Readers : Step(r)
Spec == Init /\ [][Next]_vars

(* THE PROPERTY: every finished call got exactly the bytes it would have    *)
(* got running alone, i.e. the bytes at the offset it asked for.            *)
InvOwnBytes == \A r \in Readers : Done(r) => got[r] = Want[r]

\* a call run alone is correct (sanity of the extracted step structure)
RECURSIVE SoloRun(_, _, _, _)
SoloRun(i, p, g, want) ==
    IF i > Len(Steps) THEN g
    ELSE LET s == Steps[i] IN
         CASE s = "seek"  -> SoloRun(i + 1, want, g, want)
           [] s = "read"  -> SoloRun(i + 1, p + BlockLen, IF g = -1 THEN p ELSE g, want)
           [] s = "pread" -> SoloRun(i + 1, p, want, want)
           [] OTHER       -> SoloRun(i + 1, p, g, want)
SoloCorrect == \A w \in {3, 7} : SoloRun(1, 0, -1, w) = w
=============================================================================
