--------------------------- MODULE Trace_TileJson ---------------------------
(* Validates recorded histories of the real TileJSON object against the      *)
(* state machine of TileJson.tla.  Events:                                    *)
(*   {"ev":"Init","case":c,"ok":1,"want":<serial doc>,"doc":<observed doc>}   *)
(*   {"ev":"Op","case":c,"op":<op>,"ok":1,"doc":<observed doc after the call>} *)
(* A step that is not the documented step is reported (FAIL line) and the     *)
(* trace goes on from the OBSERVED document, so the rest is still checked.    *)
EXTENDS TileJson, Json, IOUtils, SequencesExt

Rec == ndJsonDeserialize(IOEnv.TRACE)
Scale == 1000000

VARIABLES l, cur
vars == <<l, cur>>
ViewL == l

Unscale(b) == IF \A i \in 1..Len(b) : b[i] % Scale = 0 THEN [i \in 1..Len(b) |-> b[i] \div Scale] ELSE b
ObsDoc(j) ==
    LET c == j.center IN
    DocOf([bounds |-> Unscale(j.bounds),
           center |-> IF Len(c) = 3 THEN Unscale(<<c[1], c[2]>>) \o <<c[3]>> ELSE c,
           vals |-> j.vals, layers |-> j.layers])
Nothing == [bounds |-> NoBox, center |-> <<>>, vals |-> EmptyMap, layers |-> EmptyMap]

\* which parts of two documents differ (for the report)
Diff(a, b) == {f \in {"bounds", "center", "vals", "layers"} : a[f] # b[f]}

Init == l = 1 /\ cur = Nothing
Next ==
    /\ l <= Len(Rec)
    /\ l' = l + 1
    /\ LET r == Rec[l] IN
       IF r.ev = "Init"
       THEN IF r.ok # 1
            THEN /\ PrintT(<<"FAIL", l, ToJson([clauses |-> <<"tj_parse">>, case |-> r.case, op |-> "parse", err |-> r.err, differs |-> <<>>])>>)
                 /\ cur' = DocOf(r.want)
            ELSE /\ cur' = ObsDoc(r.doc)
                 /\ (ObsDoc(r.doc) = DocOf(r.want) \/
                     PrintT(<<"FAIL", l, ToJson([clauses |-> <<"tj_parse">>, case |-> r.case, op |-> "parse", err |-> "",
                                                 differs |-> SetToSeq(Diff(ObsDoc(r.doc), DocOf(r.want))), observed |-> r.doc])>>))
       ELSE LET want == Apply(cur, OpOf(r.op))
                got == ObsDoc(r.doc) IN
            /\ cur' = got
            /\ ((r.ok = 1 /\ got = want) \/
                PrintT(<<"FAIL", l, ToJson([clauses |-> <<"tj_" \o r.op.op>>, case |-> r.case, op |-> r.op, err |-> r.err,
                                            differs |-> SetToSeq(Diff(got, want)), observed |-> r.doc])>>))
Spec == Init /\ [][Next]_vars

AllConsumed ==
    \/ TLCGet("stats").diameter - 1 = Len(Rec)
    \/ PrintT(<<"NOT_CONSUMED", TLCGet("stats").diameter - 1, Len(Rec)>>) /\ FALSE
=============================================================================
