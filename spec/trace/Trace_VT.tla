------------------------------- MODULE Trace_VT -------------------------------
(* Judges observed vector-tile merges (C10) and property updates / re-encodes (C11) *)
EXTENDS VectorTile, Json, IOUtils

Rec == ndJsonDeserialize(IOEnv.TRACE)
VARIABLES l
vars == <<l>>

Init == l = 1
Next ==
    /\ l <= Len(Rec)
    /\ l' = l + 1
    /\ LET r == Rec[l]
           f == IF r.ev = "merge" THEN MergeFails(r) ELSE UpdateFails(r) \cup ReencodeFails(r)
       IN IF f = {} THEN TRUE
          ELSE PrintT(<<"FAIL", l, ToJson([clauses |-> SetToSeq(f), case |-> r])>>)
Spec == Init /\ [][Next]_vars

AllConsumed ==
    \/ TLCGet("stats").diameter - 1 = Len(Rec)
    \/ PrintT(<<"NOT_CONSUMED", TLCGet("stats").diameter - 1, Len(Rec)>>) /\ FALSE
=============================================================================
