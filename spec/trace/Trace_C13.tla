----------------------------- MODULE Trace_C13 -----------------------------
(* Validates recorded concurrent calls against "what the call returns when  *)
(* it runs alone".  The opened file/container is immutable, so every event  *)
(* is judged on its own -- no cross-thread ordering is assumed.             *)
(*   {"ev":"File","words":n}                 data file of n 8-byte counters  *)
(*   {"ev":"Read","mode":..,"t":..,"off":..,"len":..,"first":..,"last":..,   *)
(*    "contig":0|1,"ok":0|1}                 one read_range call (words)     *)
(*   {"ev":"Seq","src":..,"z","x","y","h":..}  sequential lookup (reference) *)
(*   {"ev":"Conc","src":..,"t":..,"z","x","y","h":..}  concurrent lookup     *)
EXTENDS Naturals, Integers, Sequences, FiniteSets, TLC, Json, IOUtils

Rec == ndJsonDeserialize(IOEnv.TRACE)

VARIABLES l, words, ref
vars == <<l, words, ref>>

Init == l = 1 /\ words = 0 /\ ref = <<>>

Key(r) == <<r.src, r.z, r.x, r.y>>

ReadOK(r) ==
    /\ r.ok = 1
    /\ r.contig = 1
    /\ r.first = r.off
    /\ r.last = r.off + r.len - 1

Next ==
    /\ l <= Len(Rec)
    /\ l' = l + 1
    /\ LET r == Rec[l] IN
       CASE r.ev = "File" -> words' = r.words /\ ref' = <<>>
         [] r.ev = "Read" ->
              /\ UNCHANGED <<words, ref>>
              /\ IF ReadOK(r) THEN TRUE
                 ELSE PrintT(<<"FAIL", l, ToJson([clauses |-> <<"own_bytes">>, ev |-> r])>>)
         [] r.ev = "Seq" -> words' = words /\ ref' = (Key(r) :> r.h) @@ ref
         [] r.ev = "Conc" ->
              /\ UNCHANGED <<words, ref>>
              /\ IF Key(r) \in DOMAIN ref /\ ref[Key(r)] = r.h THEN TRUE
                 ELSE PrintT(<<"FAIL", l, ToJson([clauses |-> <<"lookup_eq_sequential">>, ev |-> r])>>)
Spec == Init /\ [][Next]_vars

\* validation is deterministic: the position in the log identifies the state (TLC fingerprints one integer instead of the
\* growing reference map)
ViewL == l
AllConsumed ==
    \/ TLCGet("stats").diameter - 1 = Len(Rec)
    \/ PrintT(<<"NOT_CONSUMED", TLCGet("stats").diameter - 1, Len(Rec)>>) /\ FALSE
=============================================================================
