--------------------------- MODULE Trace_Container ---------------------------
(* Judges observed container cases (one self-contained record per line)     *)
(* with the relations of Container.tla.  Failing clauses are reported with  *)
(* the case's identifying fields; the check attributes clauses to the       *)
(* property it is run for.                                                  *)
EXTENDS Container, Json, IOUtils

Rec == ndJsonDeserialize(IOEnv.TRACE)
VARIABLES l
vars == <<l>>

Brief(r) == [id |-> r.id, origin |-> r.origin, fmt |-> r.fmt, tf |-> r.tf, tc |-> r.tc, n_tiles |-> Len(r.tiles),
             levels |-> SetToSeq(Levels(r.tiles)), write_ok |-> r.write_ok, write_err |-> r.write_err,
             open_err |-> (IF r.opened.ok = 1 THEN "" ELSE r.opened.err), choices |-> r.choices,
             decode_err |-> (IF r.decoded.skip = 1 \/ r.decoded.ok = 1 THEN "" ELSE r.decoded.err),
             sparse |-> (IF "sparse" \in DOMAIN r THEN r.sparse ELSE 0),
             via |-> (IF "via" \in DOMAIN r THEN r.via ELSE "file"),
             tiles_head |-> SubSeq(r.tiles, 1, IF Len(r.tiles) < 8 THEN Len(r.tiles) ELSE 8)]

BadStreams(r) ==
    IF r.opened.ok = 0 THEN <<>>
    ELSE SelectSeq(r.streams, LAMBDA s : ~(s.status = "ok" /\ s.res = TilesInBox(r.expect, s.box)))

CaseFails(r) ==
    Fails("write", r.write_ok = 1) \cup
    (IF r.write_ok = 0 THEN {} ELSE RoundTripFails(r) \cup StreamFails(r) \cup CoverageFails(r))

Init == l = 1
Next ==
    /\ l <= Len(Rec)
    /\ l' = l + 1
    /\ LET r == Rec[l]  f == CaseFails(r) IN
       IF f = {} THEN TRUE
       ELSE LET bs == BadStreams(r) IN
            PrintT(<<"FAIL", l, ToJson([clauses |-> SetToSeq(f), case |-> Brief(r),
                     bad_streams |-> [i \in 1..(IF Len(bs) < 3 THEN Len(bs) ELSE 3) |->
                                        [box |-> bs[i].box, status |-> bs[i].status, got |-> Len(bs[i].res),
                                         want |-> Len(TilesInBox(r.expect, bs[i].box))]],
                     n_bad_streams |-> Len(bs)])>>)
Spec == Init /\ [][Next]_vars

AllConsumed ==
    \/ TLCGet("stats").diameter - 1 = Len(Rec)
    \/ PrintT(<<"NOT_CONSUMED", TLCGet("stats").diameter - 1, Len(Rec)>>) /\ FALSE
=============================================================================
