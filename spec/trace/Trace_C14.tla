----------------------------- MODULE Trace_C14 -----------------------------
(* Validates recorded runs of the real parallel stream operators against    *)
(* TileStream.tla.  Events are in real order (one lock-protected log):      *)
(*  Case{op,n,b,keep,fh,coords}  Start{i}  End{i}  Out{z,x,y,h}  Chunk{len}  *)
(*  EndCase{hang}.                                                          *)
(* The window W is NOT constrained here (the property does not fix it) and  *)
(* neither is the emission order; judged are: every Out is the result of    *)
(* the item whose coordinate it carries, computed by a task that has        *)
(* finished, for a retained item, at most once; at the end nothing is lost. *)
EXTENDS TileStream, Json, IOUtils, Integers

Rec == ndJsonDeserialize(IOEnv.TRACE)

VARIABLES l, spawned, yielded, fh, coords, caseNo
tvars == <<l, spawned, yielded, fh, coords, caseNo>>

Init ==
    /\ l = 1 /\ spawned = {} /\ yielded = {} /\ fh = <<>> /\ coords = <<>> /\ caseNo = 0
    /\ N = 0 /\ W = 1 /\ Keep = {} /\ B = 1 /\ InitRun

Fail(clause, r) == PrintT(<<"FAIL", l, ToJson([clauses |-> <<clause>>, caseNo |-> caseNo, n |-> N, ev |-> r])>>)

\* the item a delivered coordinate belongs to (the drivers number coordinates by their x, which is tried first; the
\* search over all items is the general rule)
ItemOf(r) == IF r.x \in 1..N /\ coords[r.x] = <<r.z, r.x, r.y>> THEN {r.x}
             ELSE {i \in 1..N : coords[i] = <<r.z, r.x, r.y>>}

TNext ==
    /\ l <= Len(Rec)
    /\ l' = l + 1
    /\ LET r == Rec[l] IN
       CASE r.ev = "Case" ->
              /\ N' = r.n /\ W' = r.n + 1 /\ B' = r.b
              /\ Keep' = {i \in 1..r.n : r.keep[i] = 1}
              /\ fh' = r.fh /\ coords' = r.coords /\ caseNo' = caseNo + 1
              /\ spawned' = {} /\ yielded' = {}
              /\ nextIn' = r.n + 1 /\ inflight' = {} /\ ready' = {} /\ out' = <<>>
              /\ buf' = <<>> /\ chunks' = <<>> /\ corder' = <<>>
         [] r.ev = "Start" ->
              /\ IF r.i \in 1..N /\ r.i \notin spawned THEN TRUE ELSE Fail("task_started_twice_or_unknown", r)
              /\ spawned' = spawned \cup {r.i}
              /\ inflight' = inflight \cup {r.i}
              /\ UNCHANGED <<params, nextIn, ready, out, buf, chunks, corder, yielded, fh, coords, caseNo>>
         [] r.ev = "End" ->
              /\ IF r.i \in inflight THEN Complete(r.i)
                 ELSE Fail("end_without_start", r) /\ UNCHANGED vars
              /\ UNCHANGED <<spawned, yielded, fh, coords, caseNo>>
         [] r.ev = "Out" ->
              LET cand == ItemOf(r) IN
              IF cand = {} THEN Fail("unknown_coordinate", r) /\ UNCHANGED <<vars, spawned, yielded, fh, coords, caseNo>>
              ELSE LET i == CHOOSE j \in cand : TRUE IN
                   /\ IF i \in yielded THEN Fail("duplicate", r)
                      ELSE IF i \notin ready THEN Fail("emitted_before_its_task_finished", r)
                      ELSE IF i \notin Keep THEN Fail("dropped_item_emitted", r)
                      ELSE IF r.h # fh[i] THEN Fail("wrong_pairing", r)
                      ELSE TRUE
                   /\ IF i \in ready /\ i \in Keep THEN Yield(i) ELSE UNCHANGED vars
                   /\ yielded' = yielded \cup {i}
                   /\ UNCHANGED <<spawned, fh, coords, caseNo>>
         [] r.ev = "Chunk" ->
              \* a buffered consumer is handed non-empty chunks of at most B items (B = 0: single items)
              /\ IF r.len >= 1 /\ r.len <= (IF B = 0 THEN 1 ELSE B) THEN TRUE ELSE Fail("chunk_size", r)
              /\ UNCHANGED <<vars, spawned, yielded, fh, coords, caseNo>>
         [] r.ev = "EndCase" ->
              /\ IF r.hang = 1 THEN Fail("hang", r)
                 \* the whole stream was given up because a worker failed (only the failing generator callbacks of the drivers do
                 \* that): C14 does not say whether a failure is swallowed or propagated -- reported, not judged
                 ELSE IF r.aborted = 1 THEN Fail("aborted_on_worker_failure", r)
                 ELSE IF Keep \ yielded # {} THEN Fail("lost", [r EXCEPT !.ev = "EndCase"] @@ [missing |-> Keep \ yielded])
                 ELSE IF ~InvPaired \/ ~InvNoDup \/ ~InvOnlyKept THEN Fail("invariant", r)
                 ELSE TRUE
              /\ UNCHANGED <<vars, spawned, yielded, fh, coords, caseNo>>
Spec == Init /\ [][TNext]_<<vars, tvars>>

\* validation is deterministic: the position in the log identifies the state (TLC then fingerprints one integer instead
\* of sets and sequences that grow with the stream)
ViewL == l
AllConsumed ==
    \/ TLCGet("stats").diameter - 1 = Len(Rec)
    \/ PrintT(<<"NOT_CONSUMED", TLCGet("stats").diameter - 1, Len(Rec)>>) /\ FALSE
=============================================================================
