------------------------------ MODULE Trace_C17 ------------------------------
EXTENDS Json17, Json, IOUtils, SequencesExt
Rec == ndJsonDeserialize(IOEnv.TRACE)
VARIABLES l
vars == <<l>>
Init == l = 1
Next ==
    /\ l <= Len(Rec)
    /\ l' = l + 1
    /\ LET r == Rec[l]
           f == IF r.ev = "json" THEN JsonFails(r) ELSE TileJsonFails(r)
       IN IF f = {} THEN TRUE
          ELSE PrintT(<<"FAIL", l, ToJson([clauses |-> SetToSeq(f), case |-> r])>>)
Spec == Init /\ [][Next]_vars
AllConsumed ==
    \/ TLCGet("stats").diameter - 1 = Len(Rec)
    \/ PrintT(<<"NOT_CONSUMED", TLCGet("stats").diameter - 1, Len(Rec)>>) /\ FALSE
=============================================================================
