----------------------------- MODULE Trace_C20 -----------------------------
(* Validates recorded steps of the real LimitedCache against the ABSTRACT   *)
(* step relation of Cache.tla.  Events:                                     *)
(*   {"ev":"Init","cap":c,"entries":[..],"mru":m}   sets the abstract state  *)
(*   {"ev":"Op","op":..,"k":..,"v":..,"ret":..,"post":[..]}  one real call   *)
(* A step that is not an AbsStep is reported (FAIL line) and the trace goes *)
(* on from the recorded post-state, so that the rest is still checked.      *)
EXTENDS Cache, Json, IOUtils

Rec == ndJsonDeserialize(IOEnv.TRACE)

VARIABLES l, entries, mru, cap
vars == <<l, entries, mru, cap>>

Init == l = 1 /\ entries = <<>> /\ mru = 0 /\ cap = 0

Report(r, failed) ==
    IF failed = {} THEN TRUE ELSE PrintT(<<"FAIL", l, ToJson([clauses |-> SetToSeq(failed), cap |-> cap,
                                                 mru |-> mru, pre |-> entries, ev |-> r])>>)

Next ==
    /\ l <= Len(Rec)
    /\ l' = l + 1
    /\ LET r == Rec[l] IN
       IF r.ev = "Init"
       THEN /\ entries' = r.entries /\ mru' = r.mru /\ cap' = r.cap
       ELSE LET op == [op |-> r.op, k |-> r.k, v |-> r.v] IN
            /\ Report(r, FailedClauses(entries, mru, cap, op, r.ret, r.post))
            /\ entries' = r.post
            /\ mru' = NewMru(entries, mru, op, r.post)
            /\ cap' = cap

Spec == Init /\ [][Next]_vars

AllConsumed ==
    \/ TLCGet("stats").diameter - 1 = Len(Rec)
    \/ PrintT(<<"NOT_CONSUMED", TLCGet("stats").diameter - 1, Len(Rec)>>) /\ FALSE
=============================================================================
