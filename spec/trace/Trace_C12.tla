----------------------------- MODULE Trace_C12 -----------------------------
(* Judges every materialised crash cut of the RECORDED operation sequences  *)
(* (CutSafe) and compares the real outcome with the abstract crash model.   *)
EXTENDS Crash, Json, IOUtils, SequencesExt

Rec == ndJsonDeserialize(IOEnv.TRACE)
VARIABLES l, caseLine
vars == <<l, caseLine>>

Init == l = 1 /\ caseLine = 0

Agree(pred, real) ==
    CASE pred = "fail" -> real \in {"fail", "panic"}
      [] pred = "view" -> real = "view"
      [] OTHER -> TRUE

Next ==
    /\ l <= Len(Rec)
    /\ l' = l + 1
    /\ LET r == Rec[l] IN
       IF r.ev = "case"
       THEN /\ caseLine' = l
            /\ IF r.write_ok = 1 /\ r.final_decodes = 1 THEN TRUE
               ELSE PrintT(<<"FAIL", l, ToJson([clauses |-> <<"writer_failed">>, case |-> [id |-> r.id, fmt |-> r.fmt, tc |-> r.tc, tiles |-> r.tiles]])>>)
            /\ IF CommitLast(r.ops) THEN TRUE
               ELSE PrintT(<<"DESIGN_UNSAFE", l, ToJson([id |-> r.id, fmt |-> r.fmt, ops |-> r.ops])>>)
       ELSE LET c == Rec[caseLine]
                pred == AbsOutcome(c.ops, r.k, r.b)
            IN /\ caseLine' = caseLine
               /\ IF CutSafe(c.tiles, r) THEN TRUE
                  ELSE PrintT(<<"FAIL", l, ToJson([clauses |-> <<"valid_but_wrong">>,
                         case |-> [id |-> c.id, fmt |-> c.fmt, tc |-> c.tc, tiles |-> c.tiles],
                         cut |-> [k |-> r.k, b |-> r.b, image_len |-> r.image_len,
                                  op |-> (IF r.k < Len(c.ops) THEN c.ops[r.k + 1] ELSE [kind |-> "end", label |-> "end", pos |-> 0, len |-> 0]),
                                  predicted |-> pred, lookups |-> r.lookups, stream_status |-> r.stream.status]])>>)
               /\ IF Agree(pred, r.outcome) THEN TRUE
                  ELSE PrintT(<<"MODEL_DISAGREES", l, pred, r.outcome, r.k, r.b>>)
Spec == Init /\ [][Next]_vars

AllConsumed ==
    \/ TLCGet("stats").diameter - 1 = Len(Rec)
    \/ PrintT(<<"NOT_CONSUMED", TLCGet("stats").diameter - 1, Len(Rec)>>) /\ FALSE
=============================================================================
