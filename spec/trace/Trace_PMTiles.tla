---------------------------- MODULE Trace_PMTiles ----------------------------
(* Judges the real PMTiles addressing functions (tile id <-> coordinate, directory *)
(* search) on TLC-enumerated cases with the transcriptions / the declarative rule   *)
(* of Layout_PMTiles.tla.                                                           *)
EXTENDS Layout_PMTiles, Json, IOUtils, SequencesExt
Rec == ndJsonDeserialize(IOEnv.TRACE)
VARIABLE l
vars == <<l>>
Fails(name, ok) == IF ok THEN {} ELSE {name}
LevelFails(r) ==
    Fails("id_of_coord", \A i \in 1..Len(r.ids_of_coords) :
              LET a == r.ids_of_coords[i] IN a[3] = XY2D(r.z, a[1], a[2])) \cup
    Fails("coord_of_id", \A i \in 1..Len(r.coords_of_ids) :
              LET a == r.coords_of_ids[i] IN
              IF a[1] < r.first \/ a[1] >= r.first + r.count
              THEN a[2] # r.z \/ a[2] = -1                       \* ids next to the level belong to another level
              ELSE <<a[2], a[3], a[4]>> = D2XY(a[1]))
DirFails(r) ==
    Fails("find_tile", \A i \in 1..Len(r.answers) : r.answers[i][2] = Covering(r.entries, r.answers[i][1]))
Init == l = 1
Next ==
    /\ l <= Len(Rec)
    /\ l' = l + 1
    /\ LET r == Rec[l]  f == IF r.ev = "level" THEN LevelFails(r) ELSE DirFails(r) IN
       IF f = {} THEN TRUE
       ELSE PrintT(<<"FAIL", l, ToJson([clauses |-> SetToSeq(f), ev |-> r.ev, id |-> r.id,
                     case |-> IF r.ev = "dir" THEN [entries |-> r.entries, answers |-> r.answers,
                                                    want |-> [i \in 1..Len(r.answers) |-> Covering(r.entries, r.answers[i][1])]]
                              ELSE [z |-> r.z]])>>)
Spec == Init /\ [][Next]_vars
AllConsumed ==
    \/ TLCGet("stats").diameter - 1 = Len(Rec)
    \/ PrintT(<<"NOT_CONSUMED", TLCGet("stats").diameter - 1, Len(Rec)>>) /\ FALSE
=============================================================================
