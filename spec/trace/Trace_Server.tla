----------------------------- MODULE Trace_Server -----------------------------
(* Judges recorded HTTP exchanges with the real `versatiles serve` binary (C05 tiles, C07 static) *)
EXTENDS Server, Json, IOUtils, SequencesExt
Rec == ndJsonDeserialize(IOEnv.TRACE)
VARIABLES l
vars == <<l>>
Init == l = 1
TileSetOf(q) == {q.tiles[i] : i \in 1..Len(q.tiles)}
Next ==
    /\ l <= Len(Rec)
    /\ l' = l + 1
    /\ LET r == Rec[l]
           f == IF r.ev = "tile"
                THEN TileFails(r.q, [tf |-> r.q.src.tf, tc |-> r.q.src.tc, tiles |-> TileSetOf(r.q)], r.q.flags, r.resp)
                ELSE IF r.ev = "tilesjson" THEN TilesJsonFails(r)
                ELSE IF r.ev = "api" THEN ApiFails(r)
                ELSE StaticFails(r.q, r.resp)
       IN IF f = {} THEN TRUE
          ELSE PrintT(<<"FAIL", l, ToJson([clauses |-> SetToSeq(f), target |-> r.target, resp |-> r.resp,
                    q |-> (IF r.ev = "api" THEN [src |-> r.q.src, flags |-> r.q.flags, z |-> [txt |-> "api"], x |-> [txt |-> ""], y |-> [txt |-> ""], header |-> "",
                                                     ids |-> r.ids, index |-> r.index, status |-> r.status, unknown |-> r.unknown]
                           ELSE IF r.ev = "tilesjson" THEN [src |-> r.q.src, flags |-> r.q.flags, z |-> [txt |-> "tiles.json"], x |-> [txt |-> ""], y |-> [txt |-> ""], header |-> ""]
                           ELSE IF r.ev = "tile" THEN [src |-> r.q.src, flags |-> r.q.flags, z |-> r.q.z, x |-> r.q.x, y |-> r.q.y, header |-> r.q.header]
                           ELSE [src |-> [id |-> r.q.mount], segs |-> r.q.segs])])>>)
Spec == Init /\ [][Next]_vars
AllConsumed ==
    \/ TLCGet("stats").diameter - 1 = Len(Rec)
    \/ PrintT(<<"NOT_CONSUMED", TLCGet("stats").diameter - 1, Len(Rec)>>) /\ FALSE
=============================================================================
