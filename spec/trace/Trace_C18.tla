------------------------------ MODULE Trace_C18 ------------------------------
EXTENDS VPL, Json, IOUtils, SequencesExt
Rec == ndJsonDeserialize(IOEnv.TRACE)
VARIABLES l
vars == <<l>>
Init == l = 1
Next ==
    /\ l <= Len(Rec)
    /\ l' = l + 1
    /\ LET r == Rec[l]  f == VplFails(r) IN
       IF f = {} THEN TRUE
       ELSE PrintT(<<"FAIL", l, ToJson([clauses |-> SetToSeq(f), case |-> [id |-> r.id, kind |-> r.kind, text |-> r.text,
                                                                            parsed |-> r.parsed, built |-> r.built,
                                                                            after |-> (IF "after_40_rejections_of" \in DOMAIN r THEN r.after_40_rejections_of ELSE "")]])>>)
Spec == Init /\ [][Next]_vars
AllConsumed ==
    \/ TLCGet("stats").diameter - 1 = Len(Rec)
    \/ PrintT(<<"NOT_CONSUMED", TLCGet("stats").diameter - 1, Len(Rec)>>) /\ FALSE
=============================================================================
