------------------------------ MODULE Trace_C19 ------------------------------
(* Every decoding call must end in an outcome the specification has: a value or an error *)
EXTENDS Decode, Json, IOUtils
Rec == ndJsonDeserialize(IOEnv.TRACE)
VARIABLES l
vars == <<l>>
Init == l = 1
Next ==
    /\ l <= Len(Rec)
    /\ l' = l + 1
    /\ LET r == Rec[l] IN
       /\ (OutcomeOK(r.outcome) \/ PrintT(<<"FAIL", l, ToJson([clauses |-> <<r.outcome>>, case |-> r.case, msg |-> r.msg])>>))
       /\ (AllocOK(r.max_alloc_kib, r.input_len) \/
           PrintT(<<"FAIL", l, ToJson([clauses |-> <<"alloc_out_of_proportion">>, case |-> r.case,
                                       msg |-> ToString(r.max_alloc_kib) \o " KiB requested at once for an input of " \o ToString(r.input_len) \o " bytes"])>>))
Spec == Init /\ [][Next]_vars
AllConsumed ==
    \/ TLCGet("stats").diameter - 1 = Len(Rec)
    \/ PrintT(<<"NOT_CONSUMED", TLCGet("stats").diameter - 1, Len(Rec)>>) /\ FALSE
=============================================================================
