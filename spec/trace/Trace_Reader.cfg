SPECIFICATION TSpec
CONSTANTS
  Procs <- TraceProcs
  Blocks <- TraceBlocks
  TilesPerBlock = 1
  Cap = 1
  Variant = "code"
  Strict = TRUE
  MaxOps = 1000000
POSTCONDITION AllConsumed
CHECK_DEADLOCK FALSE
