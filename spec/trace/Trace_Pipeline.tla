---------------------------- MODULE Trace_Pipeline ----------------------------
(* Judges observed pipeline operations (C08 overlay, C09 filters) with Pipeline.tla *)
EXTENDS Pipeline, Json, IOUtils

Rec == ndJsonDeserialize(IOEnv.TRACE)
VARIABLES l
vars == <<l>>

Brief(r) == [id |-> r.id, vpl |-> r.vpl, invalid |-> r.invalid, built |-> r.built, panic |-> r.panic, files |-> r.files,
             sources |-> [k \in 1..Len(r.sources) |-> [tiles |-> r.sources[k].tiles, tc |-> r.sources[k].tc]],
             declared |-> r.declared, cov |-> r.cov,
             err |-> (IF r.built = 1 THEN "" ELSE r.err),
             bad_lookups |-> (IF r.built = 0 \/ r.invalid = 1 THEN <<>> ELSE
                 SelectSeq(r.lookups, LAMBDA a :
                    LET want == Sem(r.tree, r.sources) IN
                    ~(IF a[4] = 0 THEN \A x \in want : CoordOf(x) # <<a[1], a[2], a[3]>> ELSE a \in want))),
             bad_streams |-> (IF r.built = 0 \/ r.invalid = 1 THEN <<>> ELSE
                 LET bs == SelectSeq(r.streams, LAMBDA s :
                        ~(s.status = "ok" /\ SameBag(s.res, {x \in Sem(r.tree, r.sources) : InBox(x, s.box)})))
                 IN [i \in 1..(IF Len(bs) < 2 THEN Len(bs) ELSE 2) |-> bs[i]])]

Init == l = 1
Next ==
    /\ l <= Len(Rec)
    /\ l' = l + 1
    /\ LET r == Rec[l]
           isdebug == "debug" \in DOMAIN r /\ r.debug = 1
           f == IF isdebug THEN DebugFails(r) ELSE PipeFails(r) IN
       IF f = {} THEN TRUE
       ELSE PrintT(<<"FAIL", l, ToJson([clauses |-> SetToSeq(f),
                     case |-> IF isdebug THEN [id |-> r.id, vpl |-> r.vpl, invalid |-> 0, built |-> r.built, panic |-> r.panic, files |-> "",
                                               declared |-> r.declared, cov |-> r.cov, lookups |-> r.lookups,
                                               err |-> (IF r.built = 1 THEN "" ELSE r.err)]
                              ELSE Brief(r)])>>)
Spec == Init /\ [][Next]_vars

AllConsumed ==
    \/ TLCGet("stats").diameter - 1 = Len(Rec)
    \/ PrintT(<<"NOT_CONSUMED", TLCGet("stats").diameter - 1, Len(Rec)>>) /\ FALSE
=============================================================================
