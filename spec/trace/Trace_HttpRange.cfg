SPECIFICATION Spec
POSTCONDITION AllConsumed
CHECK_DEADLOCK FALSE
VIEW ViewL
