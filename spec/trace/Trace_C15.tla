----------------------------- MODULE Trace_C15 -----------------------------
(* Judges recorded calls on the real TileBBox / TileBBoxPyramid / from_geo  *)
(* against the denotational relations of BBox.tla / Geo.tla.  Every event   *)
(* is self-contained.  Result encodings: a box is a 5-tuple, <<>> = the     *)
(* call returned Err, <<-1>> = it panicked, <<-2>> = not representable.     *)
EXTENDS Geo, Json, IOUtils

Rec == ndJsonDeserialize(IOEnv.TRACE)

VARIABLES l
vars == <<l>>

IsBox(v) == Len(v) = 5
D(v) == Den(FromSeq(v))                      \* denotation of a logged box
Fails(name, ok) == IF ok THEN {} ELSE {name}

(* ------------------------------- box ---------------------------------- *)
GridOK(d, lev, gr) ==
    LET s == gr.s  parts == gr.parts IN
    /\ \A i \in 1..Len(parts) : IsBox(parts[i]) /\ parts[i][1] = lev
    /\ DIsGridPartition(d, lev, s, [i \in 1..Len(parts) |-> D(parts[i])])

ContainsOK(d, c) ==          \* c = <<x, y, contains2, contains3 same level, contains3 other level>>
    LET exp == IF DContains(d, c[1], c[2]) THEN 1 ELSE 0 IN
    c[3] = exp /\ c[4] = exp /\ c[5] = 0

IndexOK(d, c) ==             \* c = <<x, y, index2 limbs, index3 limbs>>
    IF DContains(d, c[1], c[2])
    THEN c[3] = DIndex(d, c[1], c[2]) /\ c[4] = c[3]
    ELSE c[3] = <<>> /\ c[4] = <<>>

CbiOK(d, lev, c) ==          \* c = <<i, coord2, coord3>>
    IF d # <<>> /\ LimbsLess(Pad5(Limbs3(c[1])), DCount(d))
    THEN c[2] = DCoordAt(d, c[1]) /\ c[3] = DCoordAt(d, c[1]) \o <<lev>>
    ELSE c[2] = <<>> /\ c[3] = <<>>

IterOK(d, lev, it) ==
    IF d = <<>> THEN it = <<>>
    ELSE /\ Len(it) = DWidth(d) * DHeight(d)
         /\ \A i \in 1..Len(it) : it[i] = DCoordAt(d, i - 1) \o <<lev>>

AtOK(d, c) == d # <<>> /\ <<c[2], c[3]>> = DCoordAt(d, c[1])

BoxFails(r) ==
    LET a == FromSeq(r.a)  d == Den(a)  lev == a.l IN
    Fails("emptiness", r.empty = (IF d = <<>> THEN 1 ELSE 0)) \cup
    Fails("count", r.count = DCount(d)) \cup
    Fails("flip", IsBox(r.flip) /\ r.flip[1] = lev /\ D(r.flip) = DFlipY(d, lev)) \cup
    Fails("swap", IsBox(r.swap) /\ r.swap[1] = lev /\ D(r.swap) = DSwapXY(d)) \cup
    Fails("involution", IsBox(r.flip2) /\ IsBox(r.swap2) /\ D(r.flip2) = d /\ D(r.swap2) = d) \cup
    Fails("iter", r.iter_full = 0 \/ (IterOK(d, lev, r.iter) /\ r.into_iter_same = 1)) \cup
    Fails("iter_at", \A i \in 1..Len(r.at) : AtOK(d, r.at[i])) \cup
    Fails("grid", \A i \in 1..Len(r.grids) : GridOK(d, lev, r.grids[i])) \cup
    Fails("contains", \A i \in 1..Len(r.contains) : ContainsOK(d, r.contains[i])) \cup
    Fails("index", \A i \in 1..Len(r.index) : IndexOK(d, r.index[i])) \cup
    Fails("coord_by_index", \A i \in 1..Len(r.cbi) : CbiOK(d, lev, r.cbi[i]))

(* ------------------------------- pair --------------------------------- *)
PairFails(r) ==
    LET da == D(r.a)  db == D(r.b) IN
    Fails("intersect", IsBox(r.inter) /\ r.inter[1] = r.a[1] /\ D(r.inter) = DInter(da, db)) \cup
    Fails("include", IsBox(r.incl) /\ r.incl[1] = r.a[1] /\ D(r.incl) = DHull(da, db)) \cup
    Fails("overlaps", r.ovl = (IF DOverlaps(da, db) THEN 1 ELSE 0))

IncCoordFails(r) ==
    LET exp == DHull(D(r.a), <<r.x, r.y, r.x, r.y>>) IN
    Fails("include_coord", IsBox(r.res) /\ D(r.res) = exp /\ IsBox(r.res3) /\ D(r.res3) = exp)

CoordFails(r) ==
    Fails("coord_flip", r.flip = <<r.x, MaxIdx(r.z) - r.y, r.z>>) \cup
    Fails("coord_swap", r.swap = <<r.y, r.x, r.z>>) \cup
    Fails("coord_involution", r.flip2 = <<r.x, r.y, r.z>> /\ r.swap2 = <<r.x, r.y, r.z>>)

(* -------------------------------- geo --------------------------------- *)
GeoFails(r) ==
    LET g == r.g IN
    IF ~GeoValid(g) THEN {}
    ELSE IF ~IsBox(r.res) THEN {"geo_nonempty"}
    ELSE LET d == D(r.res) IN
         Fails("geo_nonempty", d # <<>>) \cup
         Fails("geo_covers", d = <<>> \/ GeoCovers(g, r.l, d)) \cup
         Fails("geo_tight", d = <<>> \/ GeoTight(g, r.l, d))

RtFails(r) == Fails("geo_roundtrip", IsBox(r.res) /\ D(r.res) = D(r.a))

(* ------------------------------ pyramids ------------------------------ *)
\* a pyramid is logged as the 32 level boxes; <<<<-1>>>> = panic
IsPyr(p) == Len(p) = 32 /\ \A i \in 1..32 : IsBox(p[i]) /\ p[i][1] = i - 1
PD(p) == [i \in 1..32 |-> D(p[i])]
PyrEq(p, f(_)) == IsPyr(p) /\ \A i \in 1..32 : D(p[i]) = f(i)
Add5(a, b) ==
    LET s0 == a[1] + b[1]
        s1 == a[2] + b[2] + (s0 \div LB)
        s2 == a[3] + b[3] + (s1 \div LB)
        s3 == a[4] + b[4] + (s2 \div LB)
        s4 == a[5] + b[5] + (s3 \div LB)
    IN << s0 % LB, s1 % LB, s2 % LB, s3 % LB, s4 >>
RECURSIVE SumCounts(_, _)
SumCounts(pd, i) == IF i = 0 THEN <<0, 0, 0, 0, 0>> ELSE Add5(SumCounts(pd, i - 1), DCount(pd[i]))

PyrFails(r) ==
    LET p == PD(r.p)  q == PD(r.q)
        NonEmptyLevels == {i \in 1..32 : p[i] # <<>>}
    IN
    Fails("pyr_intersect", PyrEq(r.inter, LAMBDA i : DInter(p[i], q[i]))) \cup
    Fails("pyr_include", PyrEq(r.incl, LAMBDA i : DHull(p[i], q[i]))) \cup
    Fails("pyr_flip", PyrEq(r.flip, LAMBDA i : DFlipY(p[i], i - 1))) \cup
    Fails("pyr_swap", PyrEq(r.swap, LAMBDA i : DSwapXY(p[i]))) \cup
    Fails("pyr_zoom_min", \A k \in 1..Len(r.setmin) :
            PyrEq(r.setmin[k].res, LAMBDA i : IF i - 1 < r.setmin[k].z THEN <<>> ELSE p[i])) \cup
    Fails("pyr_zoom_max", \A k \in 1..Len(r.setmax) :
            PyrEq(r.setmax[k].res, LAMBDA i : IF i - 1 > r.setmax[k].z THEN <<>> ELSE p[i])) \cup
    Fails("pyr_contains", \A k \in 1..Len(r.contains) :
            LET c == r.contains[k] IN c[4] = (IF DContains(p[c[1] + 1], c[2], c[3]) THEN 1 ELSE 0)) \cup
    Fails("pyr_include_coord", \A k \in 1..Len(r.inccoord) :
            LET c == r.inccoord[k] IN
            PyrEq(c.res, LAMBDA i : IF i - 1 = c.z THEN DHull(p[i], <<c.x, c.y, c.x, c.y>>) ELSE p[i])) \cup
    Fails("pyr_overlaps", \A k \in 1..Len(r.overlaps) :
            LET o == r.overlaps[k] IN o.res = (IF DOverlaps(p[o.b[1] + 1], D(o.b)) THEN 1 ELSE 0)) \cup
    Fails("pyr_include_bbox", \A k \in 1..Len(r.incbox) :
            LET o == r.incbox[k] IN
            PyrEq(o.res, LAMBDA i : IF i - 1 = o.b[1] THEN DHull(p[i], D(o.b)) ELSE p[i])) \cup
    Fails("pyr_zoom_range",
            /\ r.zmin = (IF NonEmptyLevels = {} THEN -1 ELSE Min(NonEmptyLevels) - 1)
            /\ r.zmax = (IF NonEmptyLevels = {} THEN -1 ELSE Max(NonEmptyLevels) - 1)
            /\ r.empty = (IF NonEmptyLevels = {} THEN 1 ELSE 0)) \cup
    Fails("pyr_count", r.count = SumCounts(p, 32))

FailsOf(r) ==
    CASE r.ev = "box" -> BoxFails(r)
      [] r.ev = "pair" -> PairFails(r)
      [] r.ev = "inccoord" -> IncCoordFails(r)
      [] r.ev = "coord" -> CoordFails(r)
      [] r.ev = "geo" -> GeoFails(r)
      [] r.ev = "rt" -> RtFails(r)
      [] r.ev = "pyr" -> PyrFails(r)

Init == l = 1
Next ==
    /\ l <= Len(Rec)
    /\ l' = l + 1
    /\ LET r == Rec[l]  f == FailsOf(r) IN
       IF f = {} THEN TRUE
       ELSE PrintT(<<"FAIL", l, ToJson([clauses |-> SetToSeq(f), ev |-> r])>>)
Spec == Init /\ [][Next]_vars

AllConsumed ==
    \/ TLCGet("stats").diameter - 1 = Len(Rec)
    \/ PrintT(<<"NOT_CONSUMED", TLCGet("stats").diameter - 1, Len(Rec)>>) /\ FALSE
=============================================================================
