---------------------------- MODULE Trace_Convert ----------------------------
(* Judges observed converting readers / conversions (C06: "conv" events,      *)
(* C04: "recomp" events) with the relations of Converter.tla.                 *)
EXTENDS Converter, Json, IOUtils

Rec == ndJsonDeserialize(IOEnv.TRACE)
VARIABLES l
vars == <<l>>

Brief(r) ==
    IF r.ev = "conv"
    THEN [ev |-> "conv", id |-> r.id, tiles |-> r.tiles, opts |-> r.opts, cov |-> r.cov,
          want_cov |-> [z \in 0..r.maxlevel |-> CovOut(r.opts, r.srccov, z)],
          walk |-> r.walk, want_out |-> SetToSeq(ExpectedOut(r.opts, r.srccov, r.tiles)),
          file |-> r.file,
          bad_lookups |-> SelectSeq(r.lookups, LAMBDA a :
                DContains(CovAt(r.cov, a[1]), a[2], a[3]) /\ a[4] # SrcAt(r.opts, r.tiles, <<a[1], a[2], a[3]>>))]
    ELSE IF r.ev = "cli"
    THEN [ev |-> "cli", id |-> r.id, tiles |-> r.tiles, opts |-> r.opts, fmt |-> r.fmt, exit |-> r.exit, args |-> r.args, err |-> r.err,
          file |-> r.file, want_out |-> SetToSeq(CliExpected(r.opts, r.tiles))]
    ELSE IF r.ev = "clirecomp"
    THEN [ev |-> "clirecomp", id |-> r.id, src_tc |-> r.src_tc, target |-> r.target, force |-> r.force, fmt |-> r.fmt, exit |-> r.exit,
          override |-> r.override,
          args |-> r.args, err |-> r.err, tiles |-> r.tiles, file |-> r.file]
    ELSE [ev |-> "recomp", id |-> r.id, src_tc |-> r.src_tc, target |-> r.target, force |-> r.force, fmt |-> r.fmt,
          declared |-> r.declared, tiles |-> r.tiles, lookups |-> r.lookups, walk |-> r.walk, file |-> r.file,
          lookup_raw |-> r.lookup_raw, walk_raw |-> r.walk_raw]

Init == l = 1
Next ==
    /\ l <= Len(Rec)
    /\ l' = l + 1
    /\ LET r == Rec[l]
           f == CASE r.ev = "conv" -> ConvFails(r) [] r.ev = "cli" -> CliFails(r)
                  [] r.ev = "clirecomp" -> CliRecompFails(r) [] OTHER -> RecompFails(r)
       IN IF f = {} THEN TRUE
          ELSE PrintT(<<"FAIL", l, ToJson([clauses |-> SetToSeq(f), case |-> Brief(r)])>>)
Spec == Init /\ [][Next]_vars

AllConsumed ==
    \/ TLCGet("stats").diameter - 1 = Len(Rec)
    \/ PrintT(<<"NOT_CONSUMED", TLCGet("stats").diameter - 1, Len(Rec)>>) /\ FALSE
=============================================================================
