----------------------------- MODULE Trace_Reader -----------------------------
(* Validates a recorded concurrent execution of VersaTilesReader lookups against  *)
(* Reader.tla.  The log (hook H2 + harness, ONE lock orders all records) holds     *)
(*   Reset{cap, tasks, blocks}   a new reader                                      *)
(*   Start{task, block, tile}    a lookup begins                                   *)
(*   Hit{block, keys, cap}       one critical section of the cache mutex that      *)
(*   Fill{block, keys, cap}      found / inserted the block's index; keys = the    *)
(*                               cache's key set when the section ended            *)
(*   Done{task, tile, got, want} the lookup returned                               *)
(* Hit / Fill do not say WHICH task ran the critical section: TLC infers it (any   *)
(* task waiting for that block).  One logged section is the composition            *)
(* Acquire.Hit resp. Acquire.BeginFill.EndFill of the specification's steps; the   *)
(* logged key set binds the specification's cache variable.  A record that no      *)
(* step of the specification explains ends the behaviour: the trace is rejected.   *)
(*                                                                                  *)
(* Strict = TRUE accepts exactly the protocol of Reader.tla (what the code does      *)
(* today).  C13 / C20 themselves do not prescribe the protocol: with Strict = FALSE  *)
(* two harmless deviations are additional, NAMED steps -- a fill of a block that is  *)
(* already cached (index read outside the lock: two tasks may both miss) and a       *)
(* lookup that obtains its index without a critical section.  A log the strict       *)
(* specification rejects and the tolerant one accepts is a design drift (reported as *)
(* an observation); a log both reject breaks the cache's contract (hit of something  *)
(* that is not cached, entries appearing from nowhere, capacity exceeded, a result   *)
(* for a lookup that never started) and is a violation.                              *)
EXTENDS Reader, Json, IOUtils, SequencesExt
CONSTANT Strict

Rec == ndJsonDeserialize(IOEnv.TRACE)
VARIABLE l
tvars == <<st, l>>

\* constants of Reader.tla for this trace (substituted in the .cfg)
TraceProcs == 1..16
TraceBlocks == LET R == Rec IN       \* (bound once: the log is parsed a single time)
               UNION { {r.blocks[i] : i \in 1..Len(r.blocks)} : r \in {R[k] : k \in {j \in 1..Len(R) : R[j].ev = "Reset"}} }
KeySet(r) == {r.keys[i] : i \in 1..Len(r.keys)}

\* the capacity is a property of the reader under test: taken from the latest Reset
RECURSIVE CapAt(_)
CapAt(k) == IF k = 0 THEN 1 ELSE IF Rec[k].ev = "Reset" THEN Rec[k].cap ELSE CapAt(k - 1)
EvictionsCap(cache, b, cap) == { S \cup {b} : S \in { T \in SUBSET cache : Cardinality(T \cup {b}) <= cap } }

TInit == st = InitState /\ l = 1
Fail(clause, r) == PrintT(<<"FAIL", l, ToJson([clauses |-> <<clause>>, ev |-> r])>>)

TNext ==
    /\ l <= Len(Rec)
    /\ l' = l + 1
    /\ LET r == Rec[l] IN
       CASE r.ev = "Reset" -> st' = InitState
         [] r.ev = "Start" ->
              /\ CanStart(st, r.task)
              /\ st' = DoStart(st, r.task, r.block, r.tile)
         [] r.ev = "Hit" ->
              \E p \in TraceProcs :
                  /\ CanAcquire(st, p) /\ Blk(st, p) = r.block
                  /\ LET s1 == DoAcquire(st, p) IN
                     /\ CanHit(s1, p)
                     /\ KeySet(r) = s1.cache                          \* a hit does not change what is cached
                     /\ st' = DoHit(s1, p)
         [] r.ev = "Fill" ->
              \E p \in TraceProcs :
                  /\ CanAcquire(st, p) /\ Blk(st, p) = r.block
                  /\ LET s1 == DoAcquire(st, p) IN
                     /\ (CanBeginFill(s1, p)                          \* only a block that is NOT cached is filled
                         \/ (~Strict /\ CanHit(s1, p)))               \* (tolerant: redundant fill after a race outside the lock)
                     /\ LET s2 == [s1 EXCEPT !.pc[p] = "fill"] IN
                        /\ CanEndFill(s2, p)
                        /\ KeySet(r) \in EvictionsCap(s2.cache, r.block, CapAt(l))
                        /\ st' = DoEndFill(s2, p, KeySet(r))
         [] r.ev = "Done" ->
              /\ st.tgt[r.task] = <<r.block, r.tile>>
              /\ \/ CanRead(st, r.task) /\ st' = DoRead(st, r.task)
                 \/ /\ ~Strict /\ st.pc[r.task] = "want"              \* (tolerant: index obtained without a critical section)
                    /\ st' = DoRead([st EXCEPT !.pc[r.task] = "have", !.idx[r.task] = Blk(st, r.task),
                                               !.indexed[Blk(st, r.task)] = @ + 1], r.task)
              /\ IF r.got = r.want THEN TRUE ELSE Fail("lookup_eq_sequential", r)
    \* the specification's invariants hold in every state of the recorded behaviour
    /\ IF InvMutex' /\ InvCounts' /\ InvIndexOwn' THEN TRUE ELSE Fail("invariant", Rec[l])
TSpec == TInit /\ [][TNext]_tvars

\* accepted iff some behaviour of the specification consumes every record
AllConsumed ==
    \/ TLCGet("stats").diameter - 1 = Len(Rec)
    \/ PrintT(<<"NOT_CONSUMED", TLCGet("stats").diameter - 1, Len(Rec),
                ToJson(Rec[IF TLCGet("stats").diameter > Len(Rec) THEN Len(Rec) ELSE TLCGet("stats").diameter])>>) /\ FALSE
=============================================================================
