--------------------------- MODULE Trace_HttpRange ---------------------------
EXTENDS HttpRange, Json, IOUtils, SequencesExt
Rec == ndJsonDeserialize(IOEnv.TRACE)
VARIABLES l
vars == <<l>>
ViewL == l
Init == l = 1
Next ==
    /\ l <= Len(Rec)
    /\ l' = l + 1
    /\ LET r == Rec[l]  f == HttpFails(r) IN
       IF f = {} THEN TRUE ELSE PrintT(<<"FAIL", l, ToJson([clauses |-> SetToSeq(f), case |-> r])>>)
Spec == Init /\ [][Next]_vars
AllConsumed ==
    \/ TLCGet("stats").diameter - 1 = Len(Rec)
    \/ PrintT(<<"NOT_CONSUMED", TLCGet("stats").diameter - 1, Len(Rec)>>) /\ FALSE
=============================================================================
