-------------------------- MODULE Trace_PipelineTj --------------------------
(* The TileJSON document of a pipeline operation (Pipeline.tla TjOk), judged  *)
(* in a pass of its own over the SAME recorded trace: it is beyond the listed  *)
(* properties, and nothing that happens here (not even an evaluation error)    *)
(* may touch the verdict of a property.                                        *)
EXTENDS Pipeline, Json, IOUtils

Rec == ndJsonDeserialize(IOEnv.TRACE)
VARIABLES l
vars == <<l>>
ViewL == l

Init == l = 1
Next ==
    /\ l <= Len(Rec)
    /\ l' = l + 1
    /\ LET r == Rec[l] IN
       IF "built" \notin DOMAIN r \/ r.built # 1 \/ ~HasTj(r) \/ TjOk(r) THEN TRUE
       ELSE PrintT(<<"FAIL", l, ToJson([clauses |-> <<"tilejson_of_operation">>, case |-> [id |-> r.id, vpl |-> r.vpl]])>>)
Spec == Init /\ [][Next]_vars

AllConsumed ==
    \/ TLCGet("stats").diameter - 1 = Len(Rec)
    \/ PrintT(<<"NOT_CONSUMED", TLCGet("stats").diameter - 1, Len(Rec)>>) /\ FALSE
=============================================================================
