------------------------------ MODULE Converter ------------------------------
(***************************************************************************)
(* C06 / C04 -- the converting reader and conversions.                      *)
(*                                                                         *)
(* Transform T = swap^s o flip^f (flip applied first): a SOURCE tile at c   *)
(* appears in the output at T(c); the output tile at c is the source tile   *)
(* at Tinv(c).  Selection Sel(z) = zoom range /\ tile box of the geographic *)
(* bbox at z, widened by the border.  Output coverage = T(source coverage)  *)
(* /\ Sel.  Conversion output = walk of the output coverage.                *)
(*                                                                         *)
(* Geographic corners are given in HALF TILES of a reference level L0 (so   *)
(* every corner is either on a tile boundary or in the middle of a tile at  *)
(* L0, and an exact rational at every other level; nothing comes within the *)
(* 1e-6 guard of a boundary without being exactly on it).                   *)
(***************************************************************************)
EXTENDS Container, Compression

FlipC(c) == <<c[1], c[2], MaxIdx(c[1]) - c[3]>>
SwapC(c) == <<c[1], c[3], c[2]>>
T(f, s, c)    == LET a == IF f = 1 THEN FlipC(c) ELSE c IN IF s = 1 THEN SwapC(a) ELSE a
Tinv(f, s, c) == LET a == IF s = 1 THEN SwapC(c) ELSE c IN IF f = 1 THEN FlipC(a) ELSE a
DT(f, s, d, z) == LET a == IF f = 1 THEN DFlipY(d, z) ELSE d IN IF s = 1 THEN DSwapXY(a) ELSE a

ThmTinv == \A f \in {0, 1}, s \in {0, 1}, z \in 0..2 : \A x \in 0..MaxIdx(z), y \in 0..MaxIdx(z) :
              Tinv(f, s, T(f, s, <<z, x, y>>)) = <<z, x, y>> /\ T(f, s, Tinv(f, s, <<z, x, y>>)) = <<z, x, y>>

(* geographic box in half tiles of level L0: g = [L0, w, n, e, s] (x grows east, y grows SOUTH) *)
Pow2(k) == 2^k
ClampI(v, z) == Max2(0, Min2(v, MaxIdx(z)))
\* floor(pos + guard) and floor(pos - guard) of the position h half-tiles@L0 seen at level z
FloorUp(h, L0, z)   == (h * Pow2(z)) \div Pow2(L0 + 1)
FloorDown(h, L0, z) == IF (h * Pow2(z)) % Pow2(L0 + 1) = 0 THEN FloorUp(h, L0, z) - 1 ELSE FloorUp(h, L0, z)
\* An edge that lies EXACTLY on a tile boundary of level z touches two tiles; C15 admits either (the documented 1e-6 guard
\* decides in the code).  A geo record may carry the choice ch = [w, n, e, s] with 1 = "take the outer, merely touched tile";
\* without it the guard's choice (the inner tile) is taken.  Judging tries the guard's choice first and accepts an
\* observation if ONE uniform choice explains it (ConvFails / PipeFails below).
NoCh == [w |-> 0, n |-> 0, e |-> 0, s |-> 0]
GeoChoices == { [w |-> a, n |-> b, e |-> c, s |-> d] : a \in {0, 1}, b \in {0, 1}, c \in {0, 1}, d \in {0, 1} }
ChOf(g) == IF "ch" \in DOMAIN g THEN g.ch ELSE NoCh
OnBoundary(h, L0, z) == (h * Pow2(z)) % Pow2(L0 + 1) = 0
GeoBoxAt(g, z) ==
    LET c == ChOf(g)
        out(flag, h) == IF flag = 1 /\ OnBoundary(h, g.L0, z) THEN 1 ELSE 0
        x0 == ClampI(FloorUp(g.w, g.L0, z) - out(c.w, g.w), z)  y0 == ClampI(FloorUp(g.n, g.L0, z) - out(c.n, g.n), z)
        x1 == ClampI(FloorDown(g.e, g.L0, z) + out(c.e, g.e), z)  y1 == ClampI(FloorDown(g.s, g.L0, z) + out(c.s, g.s), z)
    IN << x0, y0, Max2(x0, x1), Max2(y0, y1) >>
WithChoice(g, c) == [L0 |-> g.L0, w |-> g.w, n |-> g.n, e |-> g.e, s |-> g.s, ch |-> c]

DBorder(d, b, z) == IF d = <<>> THEN <<>>
                    ELSE << Max2(0, d[1] - b), Max2(0, d[2] - b), Min2(MaxIdx(z), d[3] + b), Min2(MaxIdx(z), d[4] + b) >>
DFull(z) == <<0, 0, MaxIdx(z), MaxIdx(z)>>

\* opts = [flip, swap, zmin, zmax (-1 = unset), geo (0 or record), border]
Sel(o, z) ==
    IF (o.zmin >= 0 /\ z < o.zmin) \/ (o.zmax >= 0 /\ z > o.zmax) THEN <<>>
    ELSE IF o.hasgeo = 0 THEN DFull(z)
    ELSE DBorder(GeoBoxAt(o.geo, z), o.border, z)

CovOut(o, srccov, z) == DInter(DT(o.flip, o.swap, CovAt(srccov, z), z), Sel(o, z))

\* the set of output tiles: source tiles moved by T that fall into the output coverage
ExpectedOut(o, srccov, tiles) ==
    { LET c == T(o.flip, o.swap, <<tiles[i][1], tiles[i][2], tiles[i][3]>>) IN <<c[1], c[2], c[3], tiles[i][4]>> :
        i \in { j \in 1..Len(tiles) :
                  LET c == T(o.flip, o.swap, <<tiles[j][1], tiles[j][2], tiles[j][3]>>)
                  IN DContains(CovOut(o, srccov, c[1]), c[2], c[3]) } }

SeqSet(s) == {s[i] : i \in 1..Len(s)}
SameBag(s, S) == Len(s) = Cardinality(S) /\ SeqSet(s) = S

\* source payload at the pre-image of c (0 = none)
SrcAt(o, tiles, c) ==
    LET pre == Tinv(o.flip, o.swap, c)
        hit == {i \in 1..Len(tiles) : <<tiles[i][1], tiles[i][2], tiles[i][3]>> = pre}
    IN IF hit = {} THEN 0 ELSE tiles[CHOOSE i \in hit : TRUE][4]

\* clauses that are reported but never demanded (see the drivers): they do not stand in the way of an admissible choice
ObservationOnly == {"coverage", "declared"}
(* judging one observed converting reader *)
ConvFails1(r) ==
    LET o == r.opts  tiles == r.tiles  exp == ExpectedOut(o, r.srccov, tiles) IN
    Fails("open", r.ok = 1) \cup
    (IF r.ok = 0 THEN {} ELSE
     \* advertised coverage = T(source coverage) /\ selection, on every level
     Fails("coverage", \A z \in 0..r.maxlevel : CovAt(r.cov, z) = CovOut(o, r.srccov, z)) \cup
     \* conversion output (walk of the advertised coverage) = exactly the selected, relocated source tiles
     Fails("output", r.walk_ok = 1 /\ SameBag(r.walk, exp)) \cup
     \* the lookup path agrees: inside the coverage every lookup is the source tile at the pre-image
     Fails("lookup", \A i \in 1..Len(r.lookups) :
              LET a == r.lookups[i] IN
              ~DContains(CovAt(r.cov, a[1]), a[2], a[3]) \/ a[4] = SrcAt(o, tiles, <<a[1], a[2], a[3]>>)) \cup
     \* stream = lookups inside any box (C02 for the converting reader)
     Fails("stream", \A i \in 1..Len(r.streams) :
              r.streams[i].status = "ok" /\ r.streams[i].res = TilesInBox(r.expect, r.streams[i].box)) \cup
     \* the file written through the real writer holds exactly the expected output
     \* (an empty output has no decodable tile members in some formats: then "no tiles" is the right reading)
     Fails("file", r.file.skip = 1 \/ (SameBag(r.file.tiles, exp) /\ (r.file.ok = 1 \/ exp = {}))))

\* judged with the guard's choice at exact tile boundaries; failing that, with any one uniform admissible choice
ConvFails(r) ==
    LET f0 == ConvFails1(r) IN
    IF f0 = {} \/ r.opts.hasgeo = 0 THEN f0
    ELSE LET alts == { ConvFails1([r EXCEPT !.opts.geo = WithChoice(r.opts.geo, c)]) : c \in GeoChoices \ {NoCh} }
             ok == { a \in alts : a \subseteq ObservationOnly }
         IN IF ok # {} THEN CHOOSE a \in ok : TRUE ELSE f0

(* the same through the real command line (`versatiles convert <options> in out`): the options as a user types them select
   and relocate exactly the tiles of the model.  Every source tile lies in the source coverage, so the expected output is the
   moved tiles that fall into the selection.  Named deviation: no writer stores an EMPTY tile set through the command line
   (versatiles: "invalid minzoom"; PMTiles / MBTiles: D22) -- an error exit is accepted exactly when the expected output is
   empty; it is an error, not a wrong output. *)
CliExpected(o, tiles) ==
    { LET c == T(o.flip, o.swap, <<tiles[i][1], tiles[i][2], tiles[i][3]>>) IN <<c[1], c[2], c[3], tiles[i][4]>> :
        i \in { j \in 1..Len(tiles) :
                  LET c == T(o.flip, o.swap, <<tiles[j][1], tiles[j][2], tiles[j][3]>>)
                  IN DContains(Sel(o, c[1]), c[2], c[3]) } }
CliFails1(r) ==
    LET exp == CliExpected(r.opts, r.tiles) IN
    Fails("cli_exit", r.exit = 0 \/ exp = {}) \cup
    (IF r.exit # 0 THEN {} ELSE
     Fails("cli_output", SameBag(r.file.tiles, exp) /\ (r.file.ok = 1 \/ exp = {})))
CliFails(r) ==
    LET f0 == CliFails1(r) IN
    IF f0 = {} \/ r.opts.hasgeo = 0 THEN f0
    ELSE IF \E c \in GeoChoices \ {NoCh} : CliFails1([r EXCEPT !.opts.geo = WithChoice(r.opts.geo, c)]) = {} THEN {} ELSE f0
\* the model's output does not depend on the source coverage as long as it contains the tiles
ThmCliExpected ==
    \A f \in {0, 1}, s \in {0, 1}, zmin \in {-1, 1}, b \in {0, 1} :
        LET o == [flip |-> f, swap |-> s, zmin |-> zmin, zmax |-> -1, hasgeo |-> 1, border |-> b,
                  geo |-> [L0 |-> 2, w |-> 1, n |-> 2, e |-> 5, s |-> 7]]
            tiles == << <<1, 0, 1, 1>>, <<2, 0, 3, 2>>, <<2, 3, 1, 3>>, <<2, 1, 1, 4>> >>
            cov == << <<1, 0, 1, 0, 1>>, <<2, 0, 1, 3, 3>> >>
        IN ExpectedOut(o, cov, tiles) = CliExpected(o, tiles)

\* a conversion the target format cannot express may be refused (an error, no output); if it is carried out it is judged like any other
MayRefuse(r) == "may_refuse" \in DOMAIN r /\ r.may_refuse = 1
RecompMetaName == "c04 name é"          \* the `name` of the source metadata in the recompression cases
CliRecompFails(r) ==
    LET want == DeclaredOut(r.src_tc, r.target) IN
    Fails("cli_exit", r.exit = 0 \/ MayRefuse(r)) \cup
    (IF r.exit # 0 THEN {} ELSE
     Fails("cli_file_payload", r.file.ok = 1 /\ r.file.tiles = r.tiles) \cup
     Fails("cli_file_declared", r.file.ok = 0 \/ r.file.tc = want) \cup
     Fails("cli_file_meta", r.file.ok = 0 \/ r.file.meta_name = RecompMetaName))

(* C04: recompression.  ids in `lookups'/`walk'/`file' were obtained by decoding the delivered bytes with
   the DECLARED output codec and comparing with the raw source payload. *)
RecompFails(r) ==
    LET want == DeclaredOut(r.src_tc, r.target) IN
    Fails("open", r.ok = 1) \cup
    (IF r.ok = 0 THEN {} ELSE
     Fails("declared", r.declared = want) \cup
     Fails("lookup_payload", r.lookups = r.tiles) \cup
     Fails("stream_payload", r.walk_ok = 1 /\ r.walk = r.tiles) \cup
     \* C02 for the (re)compressing reader: the stream delivers the very bytes the lookups deliver
     Fails("stream_bytes_eq_lookup", r.walk_ok = 0 \/ r.walk_raw = r.lookup_raw) \cup
     Fails("file_payload", r.file.skip = 1 \/ (MayRefuse(r) /\ r.file.ok = 0 /\ "refused" \in DOMAIN r.file /\ r.file.refused = 1)
                           \/ (r.file.ok = 1 /\ r.file.tiles = r.tiles)) \cup
     \* WHICH compression is declared (clauses declared / file_declared) is reported, not demanded: C04 asks for identity
     \* under whatever the output declares
     Fails("file_declared", r.file.skip = 1 \/ r.file.ok = 0 \/ r.file.tc = want) \cup
     Fails("file_meta", r.file.skip = 1 \/ r.file.ok = 0 \/ r.file.meta_name = RecompMetaName))
=============================================================================
