-------------------------------- MODULE HttpRange --------------------------------
(***************************************************************************)
(* Range reads over HTTP (versatiles_core::io::DataReaderHttp::read_range;  *)
(* what `get_reader("http://...")` is built on).  Beyond the listed          *)
(* properties -- C13 and C16 speak of file-backed readers --, part of the    *)
(* system's behaviour; failing clauses are observations.                     *)
(*                                                                         *)
(* A request asks for bytes off..off+len-1 of a file.  The SERVER is not     *)
(* trusted: besides the exact answer it may send the whole file with 200,    *)
(* another range, a body shorter or longer than announced, an error status,  *)
(* no or an unparsable Content-Range.  THE PROPERTY (safety): the call       *)
(* returns an error or exactly the requested bytes -- never other bytes;     *)
(* (liveness of the happy path): the exact answer is accepted.               *)
(***************************************************************************)
EXTENDS Naturals, Integers, Sequences, FiniteSets, TLC

Modes == {"exact", "full200", "shifted", "wider", "short_body", "long_body", "status416", "status500",
          "no_content_range", "bad_content_range", "wrong_end"}

FileByte(i) == (i * 7 + 3) % 251                        \* the content of the test file, byte i (0-based)
Slice(off, len) == [k \in 1..len |-> FileByte(off + k - 1)]

(* what the misbehaving server sends: [status, cr (<<>> = none, <<-1>> = unparsable, <<a, b>>), body] *)
Answer(mode, off, len, total) ==
    LET last == off + len - 1 IN
    CASE mode = "exact" -> [status |-> 206, cr |-> <<off, last>>, body |-> Slice(off, len)]
      [] mode = "full200" -> [status |-> 200, cr |-> <<>>, body |-> Slice(0, total)]
      [] mode = "shifted" -> LET o2 == IF off + len < total THEN off + 1 ELSE off - 1 IN        \* another range, honestly labelled
                             [status |-> 206, cr |-> <<o2, o2 + len - 1>>, body |-> Slice(o2, len)]
      [] mode = "wider" -> [status |-> 206, cr |-> <<off, total - 1>>, body |-> Slice(off, total - off)]
      [] mode = "short_body" -> [status |-> 206, cr |-> <<off, last>>, body |-> Slice(off, len - 1)]  \* label right, body one short
      [] mode = "long_body" -> [status |-> 206, cr |-> <<off, last>>, body |-> Slice(off, len) \o <<0>>]
      [] mode = "status416" -> [status |-> 416, cr |-> <<>>, body |-> <<>>]
      [] mode = "status500" -> [status |-> 500, cr |-> <<>>, body |-> Slice(off, len)]
      [] mode = "no_content_range" -> [status |-> 206, cr |-> <<>>, body |-> Slice(off, len)]
      [] mode = "bad_content_range" -> [status |-> 206, cr |-> <<-1>>, body |-> Slice(off, len)]
      [] mode = "wrong_end" -> [status |-> 206, cr |-> <<off, last + 1>>, body |-> Slice(off, len)]

(* the client as implemented (transcription of read_range): result [ok, bytes] *)
ClientModel(a, off, len) ==
    IF len = 0 THEN [ok |-> 1, bytes |-> <<>>]                                   \* no request is made for an empty range
    ELSE IF a.status # 206 \/ a.cr = <<>> \/ a.cr = <<-1>> THEN [ok |-> 0, bytes |-> <<>>]
    ELSE IF a.cr[1] # off \/ a.cr[2] # off + len - 1 THEN [ok |-> 0, bytes |-> <<>>]
    ELSE [ok |-> 1, bytes |-> a.body]                                             \* (the body's length is not compared with len)

Safe(res, off, len) == res.ok = 0 \/ res.bytes = Slice(off, len)
Live(mode, res) == mode = "exact" => res.ok = 1

\* design level: the transcribed client is safe against every answer whose body has the announced length ...
ThmClientSafe(total) ==
    \A mode \in Modes \ {"short_body", "long_body"}, off \in 0..(total - 1), len \in 1..total :
        off + len <= total => Safe(ClientModel(Answer(mode, off, len, total), off, len), off, len)
                              /\ Live(mode, ClientModel(Answer(mode, off, len, total), off, len))
\* ... and NOT against a body that is shorter / longer than the range it is labelled with (a witness, recorded)
WitnessBodyLengthUnchecked ==
    ~Safe(ClientModel(Answer("short_body", 2, 4, 12), 2, 4), 2, 4) /\ ~Safe(ClientModel(Answer("long_body", 2, 4, 12), 2, 4), 2, 4)

Fails(name, ok) == IF ok THEN {} ELSE {name}
(* judging an observed call: r = [mode, off, len, ok, bytes] *)
HttpFails(r) ==
    LET res == [ok |-> r.ok, bytes |-> r.bytes] IN
    Fails("http_range_safe", Safe(res, r.off, r.len)) \cup Fails("http_range_live", Live(r.mode, res))
    \* (does the real client do what its transcription does?  a difference means the model needs an update)
    \cup Fails("http_range_model", r.len = 0 \/ res = ClientModel(Answer(r.mode, r.off, r.len, r.total), r.off, r.len))
=============================================================================
