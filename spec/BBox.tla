-------------------------------- MODULE BBox --------------------------------
(***************************************************************************)
(* C15 -- tile bounding boxes as the sets of tiles they denote.            *)
(*                                                                         *)
(* A box is the record the code uses: [l, x0, y0, x1, y1] (level, x_min,   *)
(* y_min, x_max, y_max).  "Empty" has several encodings (new_empty: min =  *)
(* 2^l, max = 0; set_empty: 1,1,0,0; a disjoint intersect leaves one axis  *)
(* inverted).  Three layers:                                               *)
(*   Cells(b)   the set of tiles the box denotes          (the property)   *)
(*   Den(b)     the same denotation as a product of intervals, usable at   *)
(*              zoom 30 where Cells cannot be enumerated; TLC checks       *)
(*              Cells-level = interval-level on the exhaustive small scope *)
(*   Impl*      transcriptions of the code's min/max arithmetic; TLC       *)
(*              checks they refine the interval level                      *)
(* The conformance oracle (trace/Trace_C15) uses Den-level relations only. *)
(***************************************************************************)
EXTENDS Naturals, Integers, FiniteSets, Sequences, TLC, SequencesExt, FiniteSetsExt

Min2(a, b) == IF a < b THEN a ELSE b
Max2(a, b) == IF a > b THEN a ELSE b

\* 2^l - 1 without ever forming 2^31 (TLC integers are 32-bit)
MaxIdx(l) == IF l = 31 THEN 2147483647 ELSE 2^l - 1

Box(l, x0, y0, x1, y1) == [l |-> l, x0 |-> x0, y0 |-> y0, x1 |-> x1, y1 |-> y1]
FromSeq(s) == Box(s[1], s[2], s[3], s[4], s[5])
ToSeq(b) == <<b.l, b.x0, b.y0, b.x1, b.y1>>

IsEmpty(b) == b.x1 < b.x0 \/ b.y1 < b.y0
NewEmpty(l) == Box(l, MaxIdx(l) + 1, MaxIdx(l) + 1, 0, 0)      \* l <= 30 only
NewFull(l)  == Box(l, 0, 0, MaxIdx(l), MaxIdx(l))
SetEmpty(b) == Box(b.l, 1, 1, 0, 0)

(******************************* Cells level ******************************)
Cells(b) == IF IsEmpty(b) THEN {} ELSE (b.x0 .. b.x1) \X (b.y0 .. b.y1)

\* bounding box of a set of cells as a denotation
Hull(S) == IF S = {} THEN <<>>
           ELSE << Min({c[1] : c \in S}), Min({c[2] : c \in S}),
                   Max({c[1] : c \in S}), Max({c[2] : c \in S}) >>

(***************************** interval level *****************************)
\* Den(b): <<>> for empty, else <<x0, y0, x1, y1>>
Den(b) == IF IsEmpty(b) THEN <<>> ELSE <<b.x0, b.y0, b.x1, b.y1>>
DenCells(d) == IF d = <<>> THEN {} ELSE (d[1] .. d[3]) \X (d[2] .. d[4])

DInter(d, e) ==
    IF d = <<>> \/ e = <<>> THEN <<>>
    ELSE LET r == << Max2(d[1], e[1]), Max2(d[2], e[2]), Min2(d[3], e[3]), Min2(d[4], e[4]) >>
         IN IF r[3] < r[1] \/ r[4] < r[2] THEN <<>> ELSE r
DHull(d, e) ==
    IF d = <<>> THEN e ELSE IF e = <<>> THEN d
    ELSE << Min2(d[1], e[1]), Min2(d[2], e[2]), Max2(d[3], e[3]), Max2(d[4], e[4]) >>
DContains(d, x, y) == d # <<>> /\ d[1] <= x /\ x <= d[3] /\ d[2] <= y /\ y <= d[4]
DOverlaps(d, e) == DInter(d, e) # <<>>
DWidth(d)  == IF d = <<>> THEN 0 ELSE d[3] - d[1] + 1
DHeight(d) == IF d = <<>> THEN 0 ELSE d[4] - d[2] + 1
DFlipY(d, l) == IF d = <<>> THEN <<>> ELSE << d[1], MaxIdx(l) - d[4], d[3], MaxIdx(l) - d[2] >>
DSwapXY(d)   == IF d = <<>> THEN <<>> ELSE << d[2], d[1], d[4], d[3] >>
\* row-major enumeration: position i (0-based) of the box
DCoordAt(d, i) == << d[1] + (i % DWidth(d)), d[2] + (i \div DWidth(d)) >>
\* aligned grid cell (gx, gy) of size s, clipped to the level
DGridCell(l, s, gx, gy) == << gx * s, gy * s, Min2(gx * s + (s - 1), MaxIdx(l)), Min2(gy * s + (s - 1), MaxIdx(l)) >>
DGridCount(d, s) == IF d = <<>> THEN 0
                    ELSE ((d[3] \div s) - (d[1] \div s) + 1) * ((d[4] \div s) - (d[2] \div s) + 1)

\* "parts" (a sequence of denotations) is the partition of d into the aligned s-grid
DIsGridPartition(d, l, s, parts) ==
    /\ Len(parts) = DGridCount(d, s)
    /\ \A i \in 1..Len(parts) :
          LET p == parts[i] IN
          /\ p # <<>>
          /\ p = DInter(d, DGridCell(l, s, p[1] \div s, p[2] \div s))
    /\ \A i, j \in 1..Len(parts) :
          i # j => << parts[i][1] \div s, parts[i][2] \div s >> # << parts[j][1] \div s, parts[j][2] \div s >>

(******************* multi-limb naturals (products >= 2^31) ****************)
LB == 32768
Limbs3(n) == << n % LB, (n \div LB) % LB, n \div (LB * LB) >>      \* 0 <= n < 2^31
\* product of two Limbs3 numbers as 5 limbs, little endian
MulLimbs(a, b) ==
    LET r0 == a[1] * b[1]
        c0 == r0 \div LB
        r1 == a[1] * b[2] + a[2] * b[1] + c0
        c1 == r1 \div LB
        r2 == a[1] * b[3] + a[2] * b[2] + a[3] * b[1] + c1
        c2 == r2 \div LB
        r3 == a[2] * b[3] + a[3] * b[2] + c2
        c3 == r3 \div LB
        r4 == a[3] * b[3] + c3
    IN << r0 % LB, r1 % LB, r2 % LB, r3 % LB, r4 >>
\* a (5 limbs) + Limbs3(n)
AddLimbs(a, n) ==
    LET b == Limbs3(n)
        s0 == a[1] + b[1]
        s1 == a[2] + b[2] + (s0 \div LB)
        s2 == a[3] + b[3] + (s1 \div LB)
        s3 == a[4] + (s2 \div LB)
        s4 == a[5] + (s3 \div LB)
    IN << s0 % LB, s1 % LB, s2 % LB, s3 % LB, s4 >>
\* strip trailing zero limbs / pad to 5 for comparison with logged digits
Pad5(s) == [i \in 1..5 |-> IF i <= Len(s) THEN s[i] ELSE 0]
\* limbs of n + 1 for 0 <= n < 2^31 (a full level-31 box is 2^31 wide: n + 1 itself does not fit TLC's integers)
LimbsP1(n) == IF n = 2147483647 THEN <<0, 0, 2>> ELSE Limbs3(n + 1)
DCount(d) == IF d = <<>> THEN <<0, 0, 0, 0, 0>> ELSE MulLimbs(LimbsP1(d[3] - d[1]), LimbsP1(d[4] - d[2]))
\* row-major index of (x,y) in d
DIndex(d, x, y) == AddLimbs(MulLimbs(Limbs3(y - d[2]), Limbs3(DWidth(d))), x - d[1])
\* is the 5-limb number a < the 5-limb number b
LimbsLess(a, b) ==
    \E i \in 1..5 : a[i] < b[i] /\ \A j \in (i + 1)..5 : a[j] = b[j]

(*********************** implementation-shaped layer ***********************)
ImplIntersect(a, b) ==
    IF ~IsEmpty(a) /\ ~IsEmpty(b)
    THEN Box(a.l, Max2(a.x0, b.x0), Max2(a.y0, b.y0), Min2(a.x1, b.x1), Min2(a.y1, b.y1))
    ELSE SetEmpty(a)
ImplIncludeBBox(a, b) ==
    IF IsEmpty(b) THEN a
    ELSE IF IsEmpty(a) THEN b
    ELSE Box(a.l, Min2(a.x0, b.x0), Min2(a.y0, b.y0),
             Min2(Max2(a.x1, b.x1), MaxIdx(a.l)), Min2(Max2(a.y1, b.y1), MaxIdx(a.l)))
ImplIncludeCoord(a, x, y) ==
    IF IsEmpty(a) THEN Box(a.l, x, y, x, y)
    ELSE Box(a.l, Min2(a.x0, x), Min2(a.y0, y), Min2(Max2(a.x1, x), MaxIdx(a.l)), Min2(Max2(a.y1, y), MaxIdx(a.l)))
ImplOverlaps(a, b) ==
    IF IsEmpty(a) \/ IsEmpty(b) THEN FALSE
    ELSE a.x0 <= b.x1 /\ a.x1 >= b.x0 /\ a.y0 <= b.y1 /\ a.y1 >= b.y0
ImplContains2(a, x, y) == x >= a.x0 /\ x <= a.x1 /\ y >= a.y0 /\ y <= a.y1
ImplWidth(a)  == IF a.x1 < a.x0 THEN 0 ELSE a.x1 - a.x0 + 1
ImplHeight(a) == IF a.y1 < a.y0 THEN 0 ELSE a.y1 - a.y0 + 1
ImplFlipY(a) == IF IsEmpty(a) THEN a ELSE Box(a.l, a.x0, MaxIdx(a.l) - a.y1, a.x1, MaxIdx(a.l) - a.y0)
ImplSwapXY(a) == IF IsEmpty(a) THEN a ELSE Box(a.l, a.y0, a.x0, a.y1, a.x1)
ImplScaleDown(a, s) == Box(a.l, a.x0 \div s, a.y0 \div s, a.x1 \div s, a.y1 \div s)
\* iter_coords: y outer, x inner (TLC's a..b is empty when a > b, like Rust's a..=b)
ImplIterCoords(a) ==
    LET ys == a.y0 .. a.y1  xs == a.x0 .. a.x1
        n == Cardinality(xs) * Cardinality(ys)
    IN [i \in 1..n |-> << a.x0 + ((i - 1) % Cardinality(xs)), a.y0 + ((i - 1) \div Cardinality(xs)) >>]
\* iter_bbox_grid(size): scale down, iterate meta cells row-major, build cell, intersect, drop empties
ImplGrid(a, s) ==
    LET meta == ImplScaleDown(a, s)
        cells == ImplIterCoords(meta)
        mk(c) == ImplIntersect(Box(a.l, c[1] * s, c[2] * s, Min2(c[1] * s + s - 1, MaxIdx(a.l)),
                                   Min2(c[2] * s + s - 1, MaxIdx(a.l))), a)
    IN SelectSeq([i \in 1..Len(cells) |-> mk(cells[i])], LAMBDA b : ~IsEmpty(b))
ImplTileIndex(a, x, y) == (y - a.y0) * (a.x1 + 1 - a.x0) + (x - a.x0)     \* defined when contained

(**************************** spec-level theorems **************************)
\* (checked by TLC for every box / pair of the bounded universe in MC_C15)
LawDenCells(a)       == DenCells(Den(a)) = Cells(a)
LawInterDen(a, b)    == DenCells(DInter(Den(a), Den(b))) = Cells(a) \cap Cells(b)
LawHullDen(a, b)     == DHull(Den(a), Den(b)) = Hull(Cells(a) \cup Cells(b))
LawOverlapsDen(a, b) == DOverlaps(Den(a), Den(b)) <=> (Cells(a) \cap Cells(b) # {})
LawCountDen(a)       == DWidth(Den(a)) * DHeight(Den(a)) = Cardinality(Cells(a))
LawLimbs(a)          == DCount(Den(a)) = Pad5(Limbs3(Cardinality(Cells(a))))
LawImplIntersect(a, b) == Den(ImplIntersect(a, b)) = DInter(Den(a), Den(b))
LawImplInclude(a, b)   == Den(ImplIncludeBBox(a, b)) = DHull(Den(a), Den(b))
LawImplOverlaps(a, b)  == ImplOverlaps(a, b) <=> DOverlaps(Den(a), Den(b))
LawImplIncludeCoord(a, x, y) == Den(ImplIncludeCoord(a, x, y)) = DHull(Den(a), <<x, y, x, y>>)
LawImplContains(a, x, y) == ImplContains2(a, x, y) <=> (<<x, y>> \in Cells(a))
LawImplIter(a) ==
    LET it == ImplIterCoords(a) IN
    /\ Len(it) = Cardinality(Cells(a))
    /\ {it[i] : i \in 1..Len(it)} = Cells(a)
    /\ \A i \in 1..Len(it) : it[i] = DCoordAt(Den(a), i - 1)
    /\ \A i \in 1..Len(it) : ImplTileIndex(a, it[i][1], it[i][2]) = i - 1
    /\ \A i, j \in 1..Len(it) : i < j =>
          (it[i][2] < it[j][2] \/ (it[i][2] = it[j][2] /\ it[i][1] < it[j][1]))       \* row-major
LawImplGrid(a, s) ==
    LET g == ImplGrid(a, s) IN
    /\ DIsGridPartition(Den(a), a.l, s, [i \in 1..Len(g) |-> Den(g[i])])
    /\ UNION {Cells(g[i]) : i \in 1..Len(g)} = Cells(a)                                \* cover
    /\ \A i, j \in 1..Len(g) : i # j => Cells(g[i]) \cap Cells(g[j]) = {}               \* disjoint
LawImplFlipSwap(a) ==
    /\ Den(ImplFlipY(a)) = DFlipY(Den(a), a.l)
    /\ Den(ImplSwapXY(a)) = DSwapXY(Den(a))
    /\ Den(ImplFlipY(ImplFlipY(a))) = Den(a)
    /\ Den(ImplSwapXY(ImplSwapXY(a))) = Den(a)
    /\ Cells(ImplFlipY(a)) = {<<c[1], MaxIdx(a.l) - c[2]>> : c \in Cells(a)}
    /\ Cells(ImplSwapXY(a)) = {<<c[2], c[1]>> : c \in Cells(a)}
=============================================================================
