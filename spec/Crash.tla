-------------------------------- MODULE Crash --------------------------------
(***************************************************************************)
(* C12 -- interrupted container writes.                                     *)
(*                                                                         *)
(* A writer is a sequence of DataWriter operations.  `ops' is the sequence  *)
(* RECORDED from the real writer (kind, abstract region label, position,    *)
(* length).  A crash cut <<k, b>> leaves operations 1..k completely on disk *)
(* and the first b bytes of operation k+1; everything else reads as zeros   *)
(* or lies beyond the end of the file.                                      *)
(*                                                                         *)
(* THE PROPERTY (CutSafe): whatever is on disk either fails to open, or     *)
(* every tile of the source is returned intact, by lookups and by streams.  *)
(*                                                                         *)
(* The abstract crash model predicts the outcome class of each cut from the *)
(* operation order alone: both formats COMMIT with the final header write   *)
(* (versatiles: the initial header has empty index ranges, which readers    *)
(* reject; PMTiles: no magic before the header is written).  A cut before   *)
(* the commit must fail, a cut after it must yield the full view -- and     *)
(* does so only if every data operation precedes the commit.                *)
(***************************************************************************)
EXTENDS Naturals, Integers, Sequences, FiniteSets, TLC

CommitIdx(ops) ==
    LET S == {i \in 1..Len(ops) : ops[i].label = "header_final"} IN
    IF S = {} THEN 0 ELSE CHOOSE i \in S : \A j \in S : i <= j

IsData(op) == op.kind # "set_position" /\ op.label \notin {"header_final", "header_initial", "seek"}

\* predicted outcome class of cut <<k, b>> (k operations complete, b bytes of the next one)
AbsOutcome(ops, k, b) ==
    LET c == CommitIdx(ops) IN
    IF c = 0 \/ k < c - 1 \/ (k = c - 1 /\ b = 0) THEN "fail"          \* commit not started
    ELSE IF k = c - 1 THEN "torn"                                       \* inside the commit write
    ELSE IF \A i \in 1..Len(ops) : IsData(ops[i]) => (i < c \/ i <= k) THEN "view"
    ELSE "unsafe"                                                       \* committed, data still missing

\* design-level safety of the recorded operation ORDER: no cut is predicted unsafe
CommitLast(ops) == \A i \in 1..Len(ops) : IsData(ops[i]) => i < CommitIdx(ops)

\* the property for one observed cut
CutSafe(tiles, cut) ==
    \/ cut.outcome \in {"fail", "panic"}
    \/ /\ cut.outcome = "view"
       /\ cut.lookups = tiles
       /\ cut.stream.status = "ok" /\ cut.stream.res = tiles
=============================================================================
