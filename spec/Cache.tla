------------------------------- MODULE Cache -------------------------------
(***************************************************************************)
(* C20 -- the bounded cache (versatiles_core::types::LimitedCache).        *)
(*                                                                         *)
(* Two layers.                                                             *)
(*                                                                         *)
(*  * The ABSTRACT layer is the property: a partial map Key -> Val of at   *)
(*    most `cap' entries, plus the key of the most recently used entry.    *)
(*    It says nothing about stamps, medians or which entries are evicted:  *)
(*    AbsStep is a RELATION between pre-state, call, result and post-state *)
(*    and admits every eviction policy that keeps the property.            *)
(*                                                                         *)
(*  * The IMPLEMENTATION-SHAPED layer transcribes the code: every entry    *)
(*    has an access stamp, `add' runs `cleanup' when the map is full,      *)
(*    cleanup drops every stamp <= the median and resets survivors to 0.   *)
(*    TLC checks that every step of this layer is an AbsStep (refinement). *)
(*                                                                         *)
(* Conformance oracle for the real code is AbsStep only.                   *)
(*                                                                         *)
(* Encoding: Keys == 1..NK; a map is a tuple of length NK whose k-th       *)
(* element is the value stored under k or 0 (absent).  Values are positive *)
(* integers; by convention of the drivers value = 100*key + version, so a  *)
(* value leaking to another key is visible.  Results: 0 = None, -1 = Err.  *)
(***************************************************************************)
EXTENDS Naturals, Integers, FiniteSets, Sequences, TLC, SequencesExt, FiniteSetsExt

Absent == 0
RetNone == 0
RetErr == -1

DomOf(m) == {k \in 1..Len(m) : m[k] # Absent}
Size(m)  == Cardinality(DomOf(m))

(***************************************************************************)
(* Calls.  op.op \in {"get","add","gos_ok","gos_err"}; op.k key; op.v the  *)
(* value offered (add, gos_ok) or 0.                                       *)
(***************************************************************************)

\* post differs from pre only by (a) entries that disappeared and
\* (b) key k possibly holding value v now.
OnlyEvictOrStore(pre, post, k, v) ==
    /\ Len(post) = Len(pre)
    /\ \A j \in 1..Len(pre) :
          \/ post[j] = pre[j]
          \/ post[j] = Absent
          \/ (j = k /\ v # Absent /\ post[j] = v)

OnlyEvict(pre, post) == OnlyEvictOrStore(pre, post, 0, Absent)

\* the most-recently-used entry survives whatever eviction this step did.
\* (mru = 0: no entry has been used yet / it is already gone)
MruSurvives(pre, mru, post) ==
    (mru # 0 /\ pre[mru] # Absent) => post[mru] # Absent

\* The key whose entry counts as "just used" after the step.
NewMru(pre, mru, op, post) ==
    LET k == op.k IN
    CASE op.op = "get"     -> IF pre[k] # Absent THEN k ELSE IF mru # 0 /\ post[mru] # Absent THEN mru ELSE 0
      [] op.op = "gos_ok"  -> IF post[k] # Absent THEN k ELSE IF mru # 0 /\ post[mru] # Absent THEN mru ELSE 0
      [] op.op = "gos_err" -> IF pre[k] # Absent THEN k ELSE IF mru # 0 /\ post[mru] # Absent THEN mru ELSE 0
      [] op.op = "add"     -> \* a freshly stored value is a use; an add that left an existing
                              \* entry as it was is not counted either way
                              IF post[k] # Absent /\ post[k] # pre[k] THEN k
                              ELSE IF mru # 0 /\ post[mru] # Absent THEN mru ELSE 0

(***************************************************************************)
(* THE PROPERTY as a step relation.  `mruClause' lets the refinement       *)
(* theorem below exclude capacity 1, where keeping the just-used entry and *)
(* storing a new one are mutually exclusive (see DESIGN.md, D16).          *)
(***************************************************************************)
\* Named clauses, so that a rejected step can say what it broke.
ClBounded(cap, post) == Size(post) <= cap
ClMru(pre, mru, post) == MruSurvives(pre, mru, post)
ClRet(pre, op, ret) ==                                  \* transparency / loader result
    LET k == op.k  v == op.v IN
    CASE op.op = "get"     -> ret = (IF pre[k] # Absent THEN pre[k] ELSE RetNone)
      [] op.op = "add"     -> ret \in ({v} \cup (IF pre[k] # Absent THEN {pre[k]} ELSE {}))
      [] op.op = "gos_ok"  -> ret = (IF pre[k] # Absent THEN pre[k] ELSE v)
      [] op.op = "gos_err" -> ret = (IF pre[k] # Absent THEN pre[k] ELSE RetErr)
ClFrame(pre, op, post) ==                               \* what the step may do to the map
    LET k == op.k  v == op.v IN
    CASE op.op = "get"     -> OnlyEvict(pre, post) /\ (pre[k] # Absent => post[k] = pre[k])
      [] op.op = "add"     -> OnlyEvictOrStore(pre, post, k, v)
      [] op.op = "gos_ok"  -> IF pre[k] # Absent
                              THEN OnlyEvict(pre, post) /\ post[k] = pre[k]
                              ELSE OnlyEvictOrStore(pre, post, k, v)
      [] op.op = "gos_err" -> IF pre[k] # Absent
                              THEN OnlyEvict(pre, post) /\ post[k] = pre[k]
                              ELSE OnlyEvict(pre, post)  \* a failing loader stores nothing

AbsStepG(pre, mru, cap, op, ret, post, mruClause) ==
    /\ ClBounded(cap, post)
    /\ (mruClause => ClMru(pre, mru, post))
    /\ ClRet(pre, op, ret)
    /\ ClFrame(pre, op, post)

FailedClauses(pre, mru, cap, op, ret, post) ==
    (IF ClBounded(cap, post) THEN {} ELSE {"bounded"}) \cup
    (IF ClMru(pre, mru, post) THEN {} ELSE {"mru"}) \cup
    (IF ClRet(pre, op, ret) THEN {} ELSE {"ret"}) \cup
    (IF ClFrame(pre, op, post) THEN {} ELSE {"frame"})

AbsStep(pre, mru, cap, op, ret, post) == AbsStepG(pre, mru, cap, op, ret, post, TRUE)

(***************************************************************************)
(* Implementation-shaped layer.                                            *)
(***************************************************************************)
\* entries: tuple of records [v, s]; v = 0 absent.
EmptyImpl(nk) == [k \in 1..nk |-> [v |-> Absent, s |-> 0]]
Proj(e) == [k \in 1..Len(e) |-> e[k].v]
ImplDom(e) == {k \in 1..Len(e) : e[k].v # Absent}

\* MedianIdx(n): index (0-based) into the sorted stamp list.
\* The code computes indices[(len-1) / 2] (after fix D16; it was len / 2).
MedianIdx(n) == (n - 1) \div 2

SortedStamps(e) == SortSeq(SetToSeq({<<e[k].s, k>> : k \in ImplDom(e)}),
                           LAMBDA a, b : a[1] < b[1] \/ (a[1] = b[1] /\ a[2] < b[2]))

Cleanup(e) ==
    LET st == SortedStamps(e)
        median == st[MedianIdx(Len(st)) + 1][1]
    IN [k \in 1..Len(e) |->
          IF e[k].v = Absent THEN e[k]
          ELSE IF e[k].s <= median THEN [v |-> Absent, s |-> 0]
          ELSE [v |-> e[k].v, s |-> 0]]

ImplGet(e, last, k) ==
    IF e[k].v # Absent
    THEN [e |-> [e EXCEPT ![k].s = last + 1], last |-> last + 1, ret |-> e[k].v]
    ELSE [e |-> e, last |-> last, ret |-> RetNone]

ImplAdd(e, last, cap, k, v) ==
    LET e1 == IF Cardinality(ImplDom(e)) >= cap THEN Cleanup(e) ELSE e
        l1 == last + 1
    IN IF e1[k].v # Absent                      \* entry(key).or_insert: keeps the old value AND stamp
       THEN [e |-> e1, last |-> l1, ret |-> e1[k].v]
       ELSE [e |-> [e1 EXCEPT ![k] = [v |-> v, s |-> l1]], last |-> l1, ret |-> v]

ImplGetOrSet(e, last, cap, k, ok, v) ==
    LET g == ImplGet(e, last, k) IN
    IF g.ret # RetNone THEN g
    ELSE IF ok THEN ImplAdd(e, last, cap, k, v)
    ELSE [e |-> e, last |-> last, ret |-> RetErr]

ImplApply(e, last, cap, op) ==
    CASE op.op = "get"     -> ImplGet(e, last, op.k)
      [] op.op = "add"     -> ImplAdd(e, last, cap, op.k, op.v)
      [] op.op = "gos_ok"  -> ImplGetOrSet(e, last, cap, op.k, TRUE, op.v)
      [] op.op = "gos_err" -> ImplGetOrSet(e, last, cap, op.k, FALSE, 0)

=============================================================================
