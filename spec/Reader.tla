--------------------------------- MODULE Reader ---------------------------------
(***************************************************************************)
(* C13 (upper layer) / C20 in context -- concurrent tile lookups of one     *)
(* VersaTilesReader sharing its tile-index cache.                            *)
(*                                                                         *)
(* A lookup of tile t in block b by task p (VersaTilesReader::get_tile_data) *)
(*   Start      pick the block from the (immutable) block index             *)
(*   Acquire    lock the cache mutex                 (get_block_tile_index)  *)
(*   Hit        the block's tile index is cached: take it, unlock            *)
(*   BeginFill  not cached: read + decode the index WHILE HOLDING the lock   *)
(*   EndFill    insert it (the bounded cache may evict other blocks), take   *)
(*              it, unlock                                                   *)
(*   Read       read the tile's byte range through the shared file reader    *)
(*              (FileReader.tla: positional reads, no shared offset) and     *)
(*              return it                                                    *)
(* The cache is the ABSTRACT bounded cache of Cache.tla: after an insertion  *)
(* it holds the new block and any subset of the old ones within capacity.    *)
(*                                                                         *)
(* The state is one record, and every step is a function on it, so that the  *)
(* trace specification can compose steps exactly (the real code logs one     *)
(* event per critical section: Acquire.Hit or Acquire.BeginFill.EndFill).    *)
(***************************************************************************)
EXTENDS Naturals, FiniteSets, Sequences, TLC

CONSTANTS Procs,        \* task ids
          Blocks,       \* block coordinates
          TilesPerBlock,\* tiles 1..TilesPerBlock in every block
          Cap,          \* capacity of the tile-index cache (entries)
          MaxOps,       \* lookups per task (bounds the model)
          Variant       \* "code": the protocol of the implementation; "bypass": a task that finds the lock taken does not
                        \* wait but goes on with an index that is not its block's (a plausible "optimisation"; shows the invariants bite)

VARIABLE st
vars == <<st>>

Zero(S) == [x \in S |-> 0]
InitState ==
    [lock |-> 0, cache |-> {}, pc |-> [p \in Procs |-> "idle"], tgt |-> [p \in Procs |-> <<>>],
     idx |-> [p \in Procs |-> <<>>], res |-> [p \in Procs |-> <<>>], ops |-> Zero(Procs),
     started |-> Zero(Blocks), indexed |-> Zero(Blocks), done |-> Zero(Blocks)]

\* contents of a bounded cache after inserting b: b plus any subset of the old entries, within capacity
Evictions(cache, b) == { S \cup {b} : S \in { T \in SUBSET cache : Cardinality(T \cup {b}) <= Cap } }

Blk(s, p) == s.tgt[p][1]

CanStart(s, p) == s.pc[p] = "idle" /\ s.ops[p] < MaxOps
DoStart(s, p, b, t) == [s EXCEPT !.pc[p] = "want", !.tgt[p] = <<b, t>>, !.started[b] = @ + 1]

CanAcquire(s, p) == s.pc[p] = "want" /\ s.lock = 0
DoAcquire(s, p) == [s EXCEPT !.pc[p] = "held", !.lock = p]

CanHit(s, p) == s.pc[p] = "held" /\ s.lock = p /\ Blk(s, p) \in s.cache
DoHit(s, p) == [s EXCEPT !.pc[p] = "have", !.lock = 0, !.idx[p] = Blk(s, p), !.indexed[Blk(s, p)] = @ + 1]

CanBeginFill(s, p) == s.pc[p] = "held" /\ s.lock = p /\ Blk(s, p) \notin s.cache
DoBeginFill(s, p) == [s EXCEPT !.pc[p] = "fill"]

CanEndFill(s, p) == s.pc[p] = "fill" /\ s.lock = p
DoEndFill(s, p, newcache) ==
    [s EXCEPT !.pc[p] = "have", !.lock = 0, !.cache = newcache, !.idx[p] = Blk(s, p), !.indexed[Blk(s, p)] = @ + 1]

CanBypass(s, p) == Variant = "bypass" /\ s.pc[p] = "want" /\ s.lock # 0
DoBypass(s, p) == [s EXCEPT !.pc[p] = "have", !.idx[p] = CHOOSE b \in Blocks : b # Blk(s, p)]    \* not its block's index

CanRead(s, p) == s.pc[p] = "have"
\* the returned tile is found through the index the task holds
DoRead(s, p) == [s EXCEPT !.pc[p] = "idle", !.res[p] = <<s.idx[p], s.tgt[p][2]>>, !.ops[p] = @ + 1, !.done[Blk(s, p)] = @ + 1]

Init == st = InitState
Next ==
    \E p \in Procs :
        \/ CanStart(st, p) /\ \E b \in Blocks, t \in 1..TilesPerBlock : st' = DoStart(st, p, b, t)
        \/ CanAcquire(st, p) /\ st' = DoAcquire(st, p)
        \/ CanHit(st, p) /\ st' = DoHit(st, p)
        \/ CanBeginFill(st, p) /\ st' = DoBeginFill(st, p)
        \/ CanEndFill(st, p) /\ \E c \in Evictions(st.cache, Blk(st, p)) : st' = DoEndFill(st, p, c)
        \/ CanRead(st, p) /\ st' = DoRead(st, p)
        \/ CanBypass(st, p) /\ st' = DoBypass(st, p)
Fairness == \A p \in Procs : /\ SF_vars(CanAcquire(st, p) /\ st' = DoAcquire(st, p))
                             /\ WF_vars(CanHit(st, p) /\ st' = DoHit(st, p))
                             /\ WF_vars(CanBeginFill(st, p) /\ st' = DoBeginFill(st, p))
                             /\ WF_vars(CanEndFill(st, p) /\ \E c \in Evictions(st.cache, Blk(st, p)) : st' = DoEndFill(st, p, c))
                             /\ WF_vars(CanRead(st, p) /\ st' = DoRead(st, p))
Spec == Init /\ [][Next]_vars
FairSpec == Spec /\ Fairness

(******************************* properties *******************************)
InvMutex == \A p \in Procs : (st.pc[p] \in {"held", "fill"}) <=> (st.lock = p)
InvBounded == Cardinality(st.cache) <= Cap /\ st.cache \subseteq Blocks
\* a finished lookup returned the tile it asked for (the lookup equals the sequential one)
InvOwnTile == \A p \in Procs : (st.pc[p] = "idle" /\ st.ops[p] > 0) => st.res[p] = st.tgt[p]
\* every finished lookup went through exactly one critical section of its block
InvCounts == \A b \in Blocks : st.done[b] <= st.indexed[b] /\ st.indexed[b] <= st.started[b]
\* the index a task holds is the index of its own block
InvIndexOwn == \A p \in Procs : st.pc[p] = "have" => st.idx[p] = Blk(st, p)
\* no lookup waits for ever for the cache -- ASSUMING the mutex (futures::lock::Mutex) does not starve a waiter (SF on Acquire)
LiveLookup == \A p \in Procs : (st.pc[p] = "want") ~> (st.pc[p] = "idle")
=============================================================================
