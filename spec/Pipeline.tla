------------------------------- MODULE Pipeline -------------------------------
(***************************************************************************)
(* C08 / C09 -- pipeline operations as functions on abstract tile maps.     *)
(*                                                                         *)
(* An operation tree is a record:                                           *)
(*   [op |-> "leaf", i |-> k]                      source k                 *)
(*   [op |-> "overlay", srcs |-> <<tree, ...>>]    from_overlayed           *)
(*   [op |-> "zoom", min, max, src |-> tree]       filter_zoom (-1 = unset) *)
(*   [op |-> "bbox", geo, src |-> tree]            filter_bbox              *)
(* A source is [tiles, tc, cov]: tiles = sorted sequence of <<z,x,y,p>> with *)
(* p a payload id (decoded content!), tc its codec, cov its advertised       *)
(* coverage (list of level boxes).                                           *)
(*                                                                         *)
(* Sem(t) = the set of <<z,x,y,p>> the operation must deliver (by lookup and *)
(* by stream); Decl(t) = the codec it declares and delivers in; CovOf(t,z) = *)
(* the coverage it advertises.                                               *)
(***************************************************************************)
EXTENDS Converter

RECURSIVE Sem(_, _), Decl(_, _), CovOf(_, _, _)

CoordOf(t) == <<t[1], t[2], t[3]>>
SetOf(tiles) == {tiles[i] : i \in 1..Len(tiles)}

\* tile box of a geographic bbox (half tiles of level geo.L0) at level z
GeoSel(geo, z) == GeoBoxAt(geo, z)

Sem(t, S) ==
    CASE t.op = "leaf" -> SetOf(S[t.i].tiles)
      [] t.op = "overlay" ->
            \* the tile of the FIRST listed source that has one
            LET n == Len(t.srcs)
                have(k) == {CoordOf(x) : x \in Sem(t.srcs[k], S)}
            IN UNION { { x \in Sem(t.srcs[k], S) : \A j \in 1..(k - 1) : CoordOf(x) \notin have(j) } : k \in 1..n }
      [] t.op = "zoom" ->
            { x \in Sem(t.src, S) : (t.min < 0 \/ x[1] >= t.min) /\ (t.max < 0 \/ x[1] <= t.max) }
      [] t.op = "bbox" ->
            { x \in Sem(t.src, S) : DContains(GeoSel(t.geo, x[1]), x[2], x[3]) }

Decl(t, S) ==
    CASE t.op = "leaf" -> S[t.i].tc
      [] t.op = "overlay" ->
            LET cs == {Decl(t.srcs[k], S) : k \in 1..Len(t.srcs)} IN
            IF Cardinality(cs) = 1 THEN CHOOSE c \in cs : TRUE ELSE "none"
      [] OTHER -> Decl(t.src, S)

CovOf(t, S, z) ==
    CASE t.op = "leaf" -> CovAt(S[t.i].cov, z)
      [] t.op = "overlay" ->
            LET RECURSIVE U(_)
                U(k) == IF k = 0 THEN <<>> ELSE DHull(U(k - 1), CovOf(t.srcs[k], S, z))
            IN U(Len(t.srcs))
      [] t.op = "debug" -> DFull(z)                     \* from_debug: a generated tile at every coordinate of every level
      [] t.op = "zoom" -> IF (t.min >= 0 /\ z < t.min) \/ (t.max >= 0 /\ z > t.max) THEN <<>> ELSE CovOf(t.src, S, z)
      [] t.op = "bbox" -> DInter(CovOf(t.src, S, z), GeoSel(t.geo, z))

\* chained filters are intersections (a law of Sem, checked by TLC in MC_C09)
LawChain(t, S) ==
    (t.op \in {"zoom", "bbox"} /\ t.src.op \in {"zoom", "bbox"}) =>
        Sem(t, S) = Sem([t EXCEPT !.src = t.src.src], S) \cap Sem(t.src, S)

RECURSIVE Degenerate(_)
Degenerate(t) ==
    CASE t.op = "zoom" -> (t.min >= 0 /\ t.max >= 0 /\ t.min > t.max) \/ t.min > 31 \/ t.max > 31 \/ Degenerate(t.src)
      [] t.op = "bbox" -> Degenerate(t.src)
      [] t.op = "overlay" -> \E k \in 1..Len(t.srcs) : Degenerate(t.srcs[k])
      [] OTHER -> FALSE

(* from_debug generates a tile for EVERY coordinate, so its semantics is a predicate, not a finite set: a chain of
   filters over it has a tile at c iff every filter lets c pass.  Tile contents are identified by a hash of the bytes. *)
RECURSIVE DebugHas(_, _)
DebugHas(t, c) ==
    CASE t.op = "debug" -> c[1] <= 31
      [] t.op = "overlay" -> \E k \in 1..Len(t.srcs) : DebugHas(t.srcs[k], c)
      [] t.op = "zoom" -> (t.min < 0 \/ c[1] >= t.min) /\ (t.max < 0 \/ c[1] <= t.max) /\ DebugHas(t.src, c)
      [] t.op = "bbox" -> DContains(GeoSel(t.geo, c[1]), c[2], c[3]) /\ DebugHas(t.src, c)
DebugFails1(r) ==
    LET t == r.tree IN
    Fails("build", r.built = 1 \/ (Degenerate(t) /\ r.panic = 0)) \cup
    (IF r.built = 0 THEN {} ELSE
     Fails("declared", r.declared.tc = "none") \cup
     Fails("coverage", \A z \in 0..r.maxlevel : CovAt(r.cov, z) = CovOf(t, <<>>, z)) \cup
     Fails("lookup", \A i \in 1..Len(r.lookups) :
              LET a == r.lookups[i] IN IF DebugHas(t, <<a[1], a[2], a[3]>>) THEN a[4] > 0 ELSE a[4] = 0) \cup
     \* C03 for pipeline operations: whatever is returned lies inside the advertised coverage
     Fails("cov_contains", \A i \in 1..Len(r.lookups) :
              LET a == r.lookups[i] IN a[4] <= 0 \/ DContains(CovAt(r.cov, a[1]), a[2], a[3])) \cup
     \* every coordinate has its own content
     Fails("debug_distinct", \A i, j \in 1..Len(r.lookups) :
              (i # j /\ r.lookups[i][4] > 0 /\ r.lookups[j][4] > 0) => r.lookups[i][4] # r.lookups[j][4]) \cup
     Fails("stream", \A i \in 1..Len(r.streams) :
              r.streams[i].status = "ok" /\ r.streams[i].res = TilesInBox(r.expect, r.streams[i].box)))

\* the tree with one uniform boundary choice in every geographic filter
RECURSIVE TreeWithChoice(_, _)
TreeWithChoice(t, c) ==
    CASE t.op = "bbox" -> [op |-> "bbox", geo |-> WithChoice(t.geo, c), src |-> TreeWithChoice(t.src, c)]
      [] t.op = "zoom" -> [op |-> "zoom", min |-> t.min, max |-> t.max, src |-> TreeWithChoice(t.src, c)]
      [] t.op = "overlay" -> [op |-> "overlay", srcs |-> [k \in 1..Len(t.srcs) |-> TreeWithChoice(t.srcs[k], c)]]
      [] OTHER -> t
RECURSIVE HasBBox(_)
HasBBox(t) == CASE t.op = "bbox" -> TRUE [] t.op = "zoom" -> HasBBox(t.src)
                [] t.op = "overlay" -> \E k \in 1..Len(t.srcs) : HasBBox(t.srcs[k]) [] OTHER -> FALSE

(* RELATIONAL judgement of the ROOT operation of a tree that mixes overlays and filters: the root is compared with what its
   direct children -- each built on its own and asked the same lookups and streams (r.kids) -- were OBSERVED to deliver.  This
   is what C08 / C09 say of ONE operation ("the first listed source's tile", "exactly the source's tiles inside"), whatever the
   sources are; it is how a failure of a mixed tree is attributed to the root operation and not to something below it. *)
KidsOk(r) == "kids" \in DOMAIN r /\ Len(r.kids) > 0 /\ \A k \in 1..Len(r.kids) : r.kids[k].built = 1
RootPass(t, c) ==       \* does a filter at the root let the coordinate pass?
    CASE t.op = "zoom" -> (t.min < 0 \/ c[1] >= t.min) /\ (t.max < 0 \/ c[1] <= t.max)
      [] t.op = "bbox" -> DContains(GeoSel(t.geo, c[1]), c[2], c[3])
      [] OTHER -> TRUE
\* the answer the root owes for one coordinate, given its children's answers (a sequence); -99 = nothing can be said
RootOwes(t, c, answers) ==
    IF \E k \in 1..Len(answers) : answers[k] < 0 THEN -99           \* a child failed / delivered unknown bytes: not the root's matter
    ELSE IF t.op = "overlay"
         THEN LET have == {k \in 1..Len(answers) : answers[k] > 0} IN
              IF have = {} THEN 0 ELSE answers[CHOOSE k \in have : \A j \in have : k <= j]
         ELSE IF RootPass(t, c) THEN answers[1] ELSE 0
RelLookupOk(r) ==
    \A i \in 1..Len(r.lookups) :
        LET a == r.lookups[i]
            owes == RootOwes(r.tree, <<a[1], a[2], a[3]>>, [k \in 1..Len(r.kids) |-> r.kids[k].lookups[i]])
        IN owes = -99 \/ a[4] = owes
RelStreamOk(r) ==
    \A i \in 1..Len(r.streams) :
        LET s == r.streams[i]
            ks == [k \in 1..Len(r.kids) |-> r.kids[k].streams[i]]
            coords == UNION { {CoordOf(ks[k].res[j]) : j \in 1..Len(ks[k].res)} : k \in 1..Len(ks) }
            ans(k, c) == LET hit == {j \in 1..Len(ks[k].res) : CoordOf(ks[k].res[j]) = c} IN
                         IF hit = {} THEN 0 ELSE ks[k].res[CHOOSE j \in hit : TRUE][4]
            owed == { <<c[1], c[2], c[3], RootOwes(r.tree, c, [k \in 1..Len(ks) |-> ans(k, c)])>> : c \in coords }
        IN \/ \E k \in 1..Len(ks) : ks[k].status # "ok" \/ \E j \in 1..Len(ks[k].res) : ks[k].res[j][4] < 0
           \/ \E k \in 1..Len(ks) : Len(ks[k].res) # Cardinality({CoordOf(ks[k].res[j]) : j \in 1..Len(ks[k].res)})   \* a child delivers duplicates
           \/ s.status = "ok" /\ SameBag(s.res, {x \in owed : x[4] > 0})

(* The TileJSON document of an operation (beyond the listed properties; TileJson.tla): an overlay hands on the MERGE of its
   sources' documents, in list order, starting from the default document; a filter hands on its source's document LIMITED by the
   three values update_from_pyramid takes from the filter's own coverage (geographic bounds, lowest and highest level).  Stated
   relative to the direct children's OBSERVED documents, like RootOwes.  Bounds are in micro-degrees as logged. *)
TJ == INSTANCE TileJson
TjDefault == [bounds |-> TJ!NoBox, center |-> <<>>, vals |-> TJ!Put(TJ!EmptyMap, "tilejson", TJ!S("3.0.0")), layers |-> TJ!EmptyMap]
RECURSIVE TjFold(_, _, _)
TjFold(acc, docs, k) == IF k > Len(docs) THEN acc ELSE TjFold(TJ!Merge(acc, docs[k]), docs, k + 1)
TjLimit(d, geo, zmin, zmax) ==
    LET d1 == IF geo = <<>> THEN d ELSE TJ!LimitBBox(d, geo)
        d2 == IF zmin < 0 THEN d1 ELSE TJ!LimitMinZoom(d1, zmin)
    IN IF zmax < 0 THEN d2 ELSE TJ!LimitMaxZoom(d2, zmax)
HasTj(r) == "tj" \in DOMAIN r /\ \A k \in 1..Len(r.tj.kids) : "unbuildable" \notin DOMAIN r.tj.kids[k]
TjOk(r) ==
    LET kids == [k \in 1..Len(r.tj.kids) |-> TJ!DocOf(r.tj.kids[k])]
        root == TJ!DocOf(r.tj.root)
    IN IF r.tree.op = "overlay" THEN root = TjFold(TjDefault, kids, 1)
       ELSE root = TjLimit(kids[1], r.tj.geo, r.tj.zmin, r.tj.zmax)

(* judging one observed operation *)
PipeFails1(r) ==
    LET S == r.sources  t == r.tree  want == Sem(t, S) IN
    IF r.invalid = 1
    THEN \* an invalid argument must be reported when the pipeline is built: an error, not a panic, not a pipeline
         Fails("build_error", r.built = 0 /\ r.panic = 0)
    \* a zoom filter that can select nothing (min > max, or a limit beyond level 31) may just as well be REPORTED as an invalid
    \* argument when the pipeline is built: for such programs a clean build error is accepted
    ELSE Fails("build", r.built = 1 \/ (Degenerate(t) /\ r.panic = 0)) \cup
         \* the root cannot be built although each of its direct children can be built on its own: the root operation's failure
         Fails("rel_build", r.built = 1 \/ (Degenerate(t) /\ r.panic = 0) \/ "kids_built" \notin DOMAIN r
                            \/ \E k \in 1..Len(r.kids_built) : r.kids_built[k] = 0) \cup
         (IF r.built = 0 THEN {} ELSE
          Fails("declared", r.declared.tc = Decl(t, S)) \cup
          Fails("coverage", \A z \in 0..r.maxlevel : CovAt(r.cov, z) = CovOf(t, S, z)) \cup
          \* C08: the advertised coverage of an overlay is the union (per level: the bounding box) of what its sources advertise
          Fails("overlay_coverage", t.op # "overlay" \/
                   \A z \in 0..r.maxlevel :
                       LET RECURSIVE U(_)
                           U(k) == IF k = 0 THEN <<>> ELSE DHull(U(k - 1), CovAt(r.child_cov[k], z))
                       IN CovAt(r.cov, z) = U(Len(r.child_cov))) \cup
          Fails("lookup", \A i \in 1..Len(r.lookups) :
                   LET a == r.lookups[i] IN
                   IF a[4] = 0 THEN \A x \in want : CoordOf(x) # <<a[1], a[2], a[3]>> ELSE a \in want) \cup
          Fails("cov_contains", \A i \in 1..Len(r.lookups) :
                   LET a == r.lookups[i] IN a[4] <= 0 \/ DContains(CovAt(r.cov, a[1]), a[2], a[3])) \cup
          Fails("stream_sem", \A i \in 1..Len(r.streams) :
                   LET s == r.streams[i] IN
                   s.status = "ok" /\ SameBag(s.res, {x \in want : InBox(x, s.box)})) \cup
          Fails("rel_lookup", ~KidsOk(r) \/ RelLookupOk(r)) \cup
          Fails("rel_stream", ~KidsOk(r) \/ RelStreamOk(r)) \cup
          Fails("stream", \A i \in 1..Len(r.streams) :
                   r.streams[i].status = "ok" /\ r.streams[i].res = TilesInBox(r.expect, r.streams[i].box)))
\* judged with the guard's choice at exact tile boundaries; failing that, with any one uniform admissible choice
PipeFails(r) ==
    LET f0 == PipeFails1(r) IN
    IF f0 = {} \/ r.invalid = 1 \/ ~HasBBox(r.tree) THEN f0
    ELSE LET alts == { PipeFails1([r EXCEPT !.tree = TreeWithChoice(r.tree, c)]) : c \in GeoChoices \ {NoCh} }
             ok == { a \in alts : a \subseteq ObservationOnly }
             \* no choice explains everything (something else is broken as well): judge with the choice that leaves the fewest
             \* clauses open, so that a filter which takes the other admissible boundary is not blamed for a broken neighbour
             size(a) == Cardinality(a \ ObservationOnly)
             fewer == { a \in alts : size(a) < size(f0) /\ \A b \in alts : size(a) <= size(b) }
         IN IF ok # {} THEN CHOOSE a \in ok : TRUE ELSE IF fewer # {} THEN CHOOSE a \in fewer : TRUE ELSE f0
DebugFails(r) ==
    LET f0 == DebugFails1(r) IN
    IF f0 = {} \/ ~HasBBox(r.tree) THEN f0
    ELSE LET alts == { DebugFails1([r EXCEPT !.tree = TreeWithChoice(r.tree, c)]) : c \in GeoChoices \ {NoCh} }
             ok == { a \in alts : a \subseteq ObservationOnly }
         IN IF ok # {} THEN CHOOSE a \in ok : TRUE ELSE f0
=============================================================================
