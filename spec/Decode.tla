--------------------------------- MODULE Decode ---------------------------------
(***************************************************************************)
(* C19 -- decoding entry points with an error channel.                       *)
(*                                                                         *)
(* THE PROPERTY: every call ends with a value or an error return:           *)
(*   Outcome \in {"value", "error"};  "panic", "abort" (process death:      *)
(*   stack overflow, allocation failure), "timeout" / "oom" (time or memory *)
(* out of proportion to the input) are not outcomes the specification has.  *)
(*                                                                         *)
(* "All byte strings" cannot be enumerated.  What this module makes          *)
(* systematic:                                                              *)
(*  (1) the text decoders (JSON, CSV, VPL) are driven with EVERY sequence   *)
(*      of up to MaxLen representative bytes (structural characters, digit, *)
(*      letter, UTF-8 lead / continuation byte, invalid byte) appended to   *)
(*      every CONTEXT prefix (one per lexer state: top level, inside        *)
(*      object / array / string / escape / number ...), so that every       *)
(*      (state, next byte class) pair incl. the error sites is exercised;   *)
(*  (2) the error-message ring buffer: a multi-byte character at every       *)
(*      distance 0..Win from an error site;                                  *)
(*  (3) the binary decoders: every (field, corruption class) pair of the     *)
(*      published layouts, applied to a valid encoding.                      *)
(***************************************************************************)
EXTENDS Naturals, Sequences, FiniteSets, TLC

Outcomes == {"value", "error"}
OutcomeOK(o) == o \in Outcomes

(* representative bytes *)
JsonBytes == {123, 125, 91, 93, 34, 92, 58, 44, 49, 45, 101, 46, 116, 117, 32, 195, 169, 255}
VplBytes == {97, 49, 61, 34, 92, 91, 93, 44, 124, 32, 45, 95, 46, 195, 169}
CsvBytes == {97, 44, 34, 10, 13, 195, 169}
Str(s) == s   \* contexts are given as byte sequences
JsonContexts == { <<>>, <<123, 34, 97, 34, 58>>, <<91, 34, 120, 34, 44>>, <<34, 97, 98>>, <<34, 92, 117, 48, 48>>, <<34, 92>>,
                  <<91, 49>>, <<91, 49, 46>>, <<91, 49, 101>>, <<123>>, <<123, 34, 97, 34>>, <<116, 114>> }
VplContexts == { <<>>, <<97, 32>>, <<97, 32, 107, 61>>, <<97, 32, 107, 61, 34, 120>>, <<97, 32, 107, 61, 34, 92>>, <<97, 32, 107, 61, 91, 49>>,
                 <<97, 91>>, <<97, 91, 98, 44>>, <<97, 124>> }
CsvContexts == { <<>>, <<97, 44>>, <<34, 97>>, <<34, 97, 34>>, <<97, 10>> }
Seqs(B, n) == UNION { [1..k -> B] : k \in 0..n }

(* binary layouts: fields and corruption classes *)
Classes == {"zero", "one", "max", "beyond_file", "huge", "plausible", "minus_one", "wrong_enum", "self"}
(* "memory out of proportion to the input size": the harness's allocator records the largest single allocation REQUEST of a
   case (KiB) and the largest input handed to a decoder (bytes).  A request of more than 256 MiB plus 1 KiB per input byte
   (a factor of 1024: beyond what any of the codecs in use expands well-formed data by, inputs here are < 1 MiB) is out of
   proportion, whether or not the memory was touched and whatever the decoder returned afterwards. *)
AllocOK(max_alloc_kib, input_len) == max_alloc_kib <= 262144 + input_len
Fields == [
    versatiles |-> {"magic", "tile_format", "compression", "zoom_min", "zoom_max", "meta_offset", "meta_length", "index_offset", "index_length",
                    "index_brotli_garbage", "block_z", "block_col", "block_row", "block_cov_min", "block_cov_max", "block_offset",
                    "block_tiles_length", "block_index_length", "tile_index_count", "tile_offset", "tile_length", "meta_not_utf8", "truncate"},
    pmtiles |-> {"magic", "version", "root_offset", "root_length", "meta_offset", "meta_length", "leaf_offset", "leaf_length", "data_offset",
                 "data_length", "internal_compression", "tile_compression", "tile_type", "dir_count", "dir_first_offset", "dir_run_length",
                 "dir_length", "dir_id_delta", "leaf_self_pointer", "meta_not_utf8", "truncate"},
    mbtiles |-> {"format_unknown", "format_missing", "zoom_large", "zoom_negative", "column_negative", "row_large", "data_null", "no_tiles_table",
                 "metadata_bounds_text", "metadata_json_broken", "empty_tiles"},
    tar |-> {"size_huge", "size_garbage", "name_not_utf8", "truncated_member", "z_not_number", "y_overflow", "no_tiles", "meta_broken",
             \* member names whose numbers are just beyond / far beyond what a level has (level 32 is the first that does not exist)
             "name:./32/0/0.pbf", "name:./33/0/0.pbf", "name:./255/0/0.pbf", "name:./256/0/0.pbf", "name:./-1/0/0.pbf", "name:./2/4/0.pbf",
             "name:./2/0/4.pbf", "name:./2/4294967296/0.pbf", "name:./31/2147483648/0.pbf", "name:./2/1/.pbf", "name:./2//1.pbf"},
    \* a directory of tile files with the same kinds of names
    dir |-> {"name:32/0/0.pbf", "name:33/0/0.pbf", "name:256/0/0.pbf", "name:-1/0/0.pbf", "name:2/4/0.pbf", "name:2/0/4.pbf",
             "name:2/4294967296/0.pbf", "name:2/x/0.pbf", "name:2/1/.pbf", "name:z/1/1.pbf", "name:2/1/1", "name:2/1/1.pbf.xyz"},
    mvt |-> {"layer_length", "feature_length", "string_length", "tags_odd", "tag_key_oob", "tag_val_oob", "no_layer_name", "value_empty",
             "unknown_wire_type", "varint_overlong", "geometry_length", "extent_huge", "packed_length", "truncate"} ]
=============================================================================
