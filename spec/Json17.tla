---------------------------------- MODULE Json17 ----------------------------------
(***************************************************************************)
(* C17 -- JSON values, their texts, and TileJSON documents in containers.    *)
(*                                                                         *)
(* A JSON value is a tagged tree:                                           *)
(*   [t |-> "s", v |-> <<code points>>]   string                            *)
(*   [t |-> "n", v |-> "text"]            number (canonical shortest text)  *)
(*   [t |-> "b", v |-> 0 | 1]   [t |-> "z", v |-> 0]   boolean / null       *)
(*   [t |-> "a", v |-> <<values>>]        array                             *)
(*   [t |-> "o", v |-> <<<<key code points, value>>, ...>>]   object         *)
(* Requirements on Stringify: the text is a valid RFC 8259 text denoting    *)
(* the value -- for strings this is decided here by the unescape automaton  *)
(* (which characters MUST be escaped, which escapes are legal); the real    *)
(* parser and an independent standard parser (serde_json) must both read    *)
(* the text back as the same tree.                                          *)
(***************************************************************************)
EXTENDS Naturals, Integers, Sequences, FiniteSets, TLC

HexVal(c) == IF c >= 48 /\ c <= 57 THEN c - 48
             ELSE IF c >= 97 /\ c <= 102 THEN c - 87
             ELSE IF c >= 65 /\ c <= 70 THEN c - 55 ELSE -1
Hex4(t, i) == \* value of the 4 hex digits t[i..i+3], or -1
    IF i + 3 > Len(t) \/ \E k \in 0..3 : HexVal(t[i + k]) = -1 THEN -1
    ELSE ((HexVal(t[i]) * 16 + HexVal(t[i + 1])) * 16 + HexVal(t[i + 2])) * 16 + HexVal(t[i + 3])

Invalid == <<-1>>
\* decode the inside of a JSON string literal (sequence of code points) to the string it denotes
RECURSIVE Unescape(_, _, _)
Unescape(t, i, acc) ==
    IF i > Len(t) THEN acc
    ELSE LET c == t[i] IN
         IF c = 34 \/ c < 32 THEN Invalid                              \* a raw quote or control character is illegal
         ELSE IF c # 92 THEN Unescape(t, i + 1, Append(acc, c))
         ELSE IF i + 1 > Len(t) THEN Invalid
         ELSE LET e == t[i + 1] IN
              CASE e = 34 -> Unescape(t, i + 2, Append(acc, 34))
                [] e = 92 -> Unescape(t, i + 2, Append(acc, 92))
                [] e = 47 -> Unescape(t, i + 2, Append(acc, 47))
                [] e = 98 -> Unescape(t, i + 2, Append(acc, 8))
                [] e = 102 -> Unescape(t, i + 2, Append(acc, 12))
                [] e = 110 -> Unescape(t, i + 2, Append(acc, 10))
                [] e = 114 -> Unescape(t, i + 2, Append(acc, 13))
                [] e = 116 -> Unescape(t, i + 2, Append(acc, 9))
                [] e = 117 ->
                     LET u == Hex4(t, i + 2) IN
                     IF u = -1 THEN Invalid
                     ELSE IF u >= 55296 /\ u <= 56319                      \* high surrogate: needs a low one
                     THEN IF i + 7 <= Len(t) /\ t[i + 6] = 92 /\ t[i + 7] = 117
                          THEN LET lo == Hex4(t, i + 8) IN
                               IF lo >= 56320 /\ lo <= 57343
                               THEN Unescape(t, i + 12, Append(acc, 65536 + (u - 55296) * 1024 + (lo - 56320)))
                               ELSE Invalid
                          ELSE Invalid
                     ELSE IF u >= 56320 /\ u <= 57343 THEN Invalid          \* lone low surrogate
                     ELSE Unescape(t, i + 6, Append(acc, u))
                [] OTHER -> Invalid

ValidStringText(txt, s) ==
    /\ Len(txt) >= 2 /\ txt[1] = 34 /\ txt[Len(txt)] = 34
    /\ Unescape(SubSeq(txt, 2, Len(txt) - 1), 1, <<>>) = s

\* objects are compared as sets of entries
RECURSIVE Norm(_)
Norm(v) == CASE v.t = "a" -> [t |-> "a", v |-> [i \in 1..Len(v.v) |-> Norm(v.v[i])]]
             [] v.t = "o" -> [t |-> "o", v |-> {<<v.v[i][1], Norm(v.v[i][2])>> : i \in 1..Len(v.v)}]
             [] OTHER -> v

Fails(name, ok) == IF ok THEN {} ELSE {name}
JsonFails(r) ==
    Fails("stringify_ok", r.text_ok = 1) \cup
    (IF r.text_ok = 0 THEN {} ELSE
     Fails("text_valid_string", r.value.t # "s" \/ ValidStringText(r.text, r.value.v)) \cup
     Fails("parse_back", r.parsed.ok = 1 /\ Norm(r.parsed.tree) = Norm(r.value)) \cup
     Fails("standard_parser", r.serde.ok = 1 /\ Norm(r.serde.tree) = Norm(r.value)))

(* TileJSON in containers: `doc' and `out' are flat records of the logged facts.
   Everything except minzoom / maxzoom / bounds must come back unchanged; those three may only be narrowed. *)
TileJsonFails(r) ==
    Fails("tj_open", r.ok = 1) \cup
    (IF r.ok = 0 THEN {} ELSE
     Fails("tj_other_keys", Norm(r.out_rest) = Norm(r.doc_rest)) \cup
     Fails("tj_minzoom", r.doc_minzoom = -1 \/ (r.out_minzoom >= r.doc_minzoom)) \cup
     Fails("tj_maxzoom", r.doc_maxzoom = -1 \/ (r.out_maxzoom # -1 /\ r.out_maxzoom <= r.doc_maxzoom)) \cup
     Fails("tj_zoom_covers", r.out_minzoom = -1 \/ r.out_maxzoom = -1 \/
              (r.out_minzoom <= r.cov_minzoom /\ r.out_maxzoom >= r.cov_maxzoom) \/ r.doc_minzoom > r.cov_minzoom \/ (r.doc_maxzoom # -1 /\ r.doc_maxzoom < r.cov_maxzoom)) \cup
     \* bounds (millionths of a degree): a document without bounds may gain them; bounds of the document are returned
     \* unchanged or narrowed (a proper box inside them), never dropped or widened
     Fails("tj_bounds", r.doc_bounds_e6 = <<>> \/
              ( /\ r.out_has_bounds = 1 /\ Len(r.out_bounds_e6) = 4
                /\ r.out_bounds_e6[1] >= r.doc_bounds_e6[1] /\ r.out_bounds_e6[2] >= r.doc_bounds_e6[2]
                /\ r.out_bounds_e6[3] <= r.doc_bounds_e6[3] /\ r.out_bounds_e6[4] <= r.doc_bounds_e6[4]
                /\ r.out_bounds_e6[1] <= r.out_bounds_e6[3] /\ r.out_bounds_e6[2] <= r.out_bounds_e6[4] )))
=============================================================================
