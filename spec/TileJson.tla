-------------------------------- MODULE TileJson --------------------------------
(***************************************************************************)
(* The TileJSON document as a sequential object (versatiles_core::tilejson).*)
(* No listed property speaks about it; it is part of the system's behaviour  *)
(* that pipelines rely on (from_overlayed / from_vectortiles_merged MERGE the *)
(* documents of their sources, filters LIMIT them) and therefore part of the  *)
(* specification.  Failing clauses are reported as observations.              *)
(*                                                                         *)
(* State: one document.  Steps: the public mutators, with the rules written  *)
(* in their doc comments (the documented design):                            *)
(*   Merge(o)        bounds: hull; center: o's if present; minzoom / maxzoom: *)
(*                   min / max; other values: o overwrites; vector layers:    *)
(*                   union by id, fields united (o overwrites), description   *)
(*                   o's if present, layer zooms min / max                    *)
(*   LimitBBox(b)    bounds: intersection (b if there were none); a disjoint  *)
(*                   box replaces the stored bounds (never an inverted box)   *)
(*   LimitMinZoom(z) minzoom := max(minzoom, z) (z if absent or not a byte)   *)
(*   LimitMaxZoom(z) maxzoom := min(maxzoom, z)                               *)
(*   Set(k, v)       a string / byte / list value under k                     *)
(* Maps are functions with finite string domains.  Coordinates are integers   *)
(* (micro-degrees in the recorded traces).                                    *)
(***************************************************************************)
EXTENDS Naturals, Integers, Sequences, FiniteSets, TLC

Min(a, b) == IF a <= b THEN a ELSE b
Max(a, b) == IF a >= b THEN a ELSE b

EmptyMap == [x \in {} |-> 0]
Put(m, k, v) == [x \in DOMAIN m \cup {k} |-> IF x = k THEN v ELSE m[x]]
Over(a, b) == [x \in DOMAIN a \cup DOMAIN b |-> IF x \in DOMAIN b THEN b[x] ELSE a[x]]
Without(m, ks) == [x \in DOMAIN m \ ks |-> m[x]]

(* values: [t |-> "s", v |-> "text"], [t |-> "b", v |-> 0..255], [t |-> "l", v |-> <<"a", "b">>] *)
S(v) == [t |-> "s", v |-> v]
B(v) == [t |-> "b", v |-> v]
L(v) == [t |-> "l", v |-> v]
ByteAt(m, k) == IF k \in DOMAIN m /\ m[k].t = "b" THEN m[k].v ELSE -1        \* get_byte: -1 = None

NoBox == <<>>
Extend(a, b) == << Min(a[1], b[1]), Min(a[2], b[2]), Max(a[3], b[3]), Max(a[4], b[4]) >>
Inter(a, b) == << Max(a[1], b[1]), Max(a[2], b[2]), Min(a[3], b[3]), Min(a[4], b[4]) >>
Inverted(b) == b # NoBox /\ (b[1] > b[3] \/ b[2] > b[4])
Inside(a, b) == a[1] >= b[1] /\ a[2] >= b[2] /\ a[3] <= b[3] /\ a[4] <= b[4]

(* a vector layer: fields (name -> type text), desc (<<>> or <<text>>), minz / maxz (-1 = absent) *)
OptMin(a, b) == IF b < 0 THEN a ELSE IF a < 0 THEN b ELSE Min(a, b)
OptMax(a, b) == IF b < 0 THEN a ELSE IF a < 0 THEN b ELSE Max(a, b)
MergeLayer(a, b) ==
    [fields |-> Over(a.fields, b.fields), desc |-> IF b.desc # <<>> THEN b.desc ELSE a.desc,
     minz |-> OptMin(a.minz, b.minz), maxz |-> OptMax(a.maxz, b.maxz)]
MergeLayers(A, Bl) ==
    [id \in DOMAIN A \cup DOMAIN Bl |->
        IF id \in DOMAIN A /\ id \in DOMAIN Bl THEN MergeLayer(A[id], Bl[id])
        ELSE IF id \in DOMAIN Bl THEN Bl[id] ELSE A[id]]

ZoomKeys == {"minzoom", "maxzoom"}
Merge(a, o) ==
    LET omin == ByteAt(o.vals, "minzoom")  omax == ByteAt(o.vals, "maxzoom")
        amin == ByteAt(a.vals, "minzoom")  amax == ByteAt(a.vals, "maxzoom")
        v1 == IF omin < 0 THEN a.vals ELSE Put(a.vals, "minzoom", B(IF amin < 0 THEN omin ELSE Min(amin, omin)))
        v2 == IF omax < 0 THEN v1 ELSE Put(v1, "maxzoom", B(IF amax < 0 THEN omax ELSE Max(amax, omax)))
    IN [bounds |-> IF o.bounds = NoBox THEN a.bounds ELSE IF a.bounds = NoBox THEN o.bounds ELSE Extend(a.bounds, o.bounds),
        center |-> IF o.center # <<>> THEN o.center ELSE a.center,
        vals |-> Over(v2, Without(o.vals, ZoomKeys)),
        layers |-> MergeLayers(a.layers, o.layers)]

LimitBBox(a, b) ==
    [a EXCEPT !.bounds = IF a.bounds = NoBox THEN b
                         ELSE LET i == Inter(a.bounds, b) IN IF Inverted(i) THEN b ELSE i]
LimitMinZoom(a, z) == [a EXCEPT !.vals = Put(a.vals, "minzoom", B(IF ByteAt(a.vals, "minzoom") < 0 THEN z ELSE Max(ByteAt(a.vals, "minzoom"), z)))]
LimitMaxZoom(a, z) == [a EXCEPT !.vals = Put(a.vals, "maxzoom", B(IF ByteAt(a.vals, "maxzoom") < 0 THEN z ELSE Min(ByteAt(a.vals, "maxzoom"), z)))]
SetVal(a, k, v) == [a EXCEPT !.vals = Put(a.vals, k, v)]

(* operations as data: [op |-> "merge", doc |-> d] | [op |-> "limit_bbox", b |-> box] | [op |-> "limit_min", z |-> z] |
   [op |-> "limit_max", z |-> z] | [op |-> "set", k |-> key, v |-> value] *)
Apply(a, o) ==
    CASE o.op = "merge" -> Merge(a, o.doc)
      [] o.op = "limit_bbox" -> LimitBBox(a, o.b)
      [] o.op = "limit_min" -> LimitMinZoom(a, o.z)
      [] o.op = "limit_max" -> LimitMaxZoom(a, o.z)
      [] o.op = "set" -> SetVal(a, o.k, o.v)

(******************************* laws of the design *******************************)
WellFormed(d) == ~Inverted(d.bounds)
LawMergeIdempotent(a) == Merge(a, a) = a
LawMergeAssociative(a, b, c) == Merge(Merge(a, b), c) = Merge(a, Merge(b, c))
\* merging never loses a key, a layer or a field, and covers both bounds
LawMergeCovers(a, o) ==
    LET m == Merge(a, o) IN
    /\ DOMAIN a.vals \cup (DOMAIN o.vals \ {k \in ZoomKeys : ByteAt(o.vals, k) < 0}) \subseteq DOMAIN m.vals
    /\ DOMAIN a.layers \cup DOMAIN o.layers = DOMAIN m.layers
    /\ \A id \in DOMAIN a.layers : DOMAIN a.layers[id].fields \subseteq DOMAIN m.layers[id].fields
    /\ (a.bounds # NoBox => m.bounds # NoBox /\ Inside(a.bounds, m.bounds))
    /\ (o.bounds # NoBox => m.bounds # NoBox /\ Inside(o.bounds, m.bounds))
\* limiting never yields an inverted box and stays inside the limit
LawLimitInside(a, b) == WellFormed(a) /\ ~Inverted(b) => LET r == LimitBBox(a, b) IN ~Inverted(r.bounds) /\ Inside(r.bounds, b)
LawLimitIdempotent(a, b) == LimitBBox(LimitBBox(a, b), b) = LimitBBox(a, b)
\* the zoom range of a merge is the hull of the ranges
LawMergeZoomHull(a, o) ==
    LET m == Merge(a, o) IN
    \A k \in ZoomKeys : (ByteAt(a.vals, k) >= 0 /\ ByteAt(o.vals, k) >= 0) =>
        ByteAt(m.vals, k) = IF k = "minzoom" THEN Min(ByteAt(a.vals, k), ByteAt(o.vals, k)) ELSE Max(ByteAt(a.vals, k), ByteAt(o.vals, k))
\* NOT a law (recorded as a witness): the limits do not keep minzoom <= maxzoom
ZoomOrdered(d) == ByteAt(d.vals, "minzoom") < 0 \/ ByteAt(d.vals, "maxzoom") < 0 \/ ByteAt(d.vals, "minzoom") <= ByteAt(d.vals, "maxzoom")
WitnessLimitBreaksZoomOrder ==
    LET d == [bounds |-> NoBox, center |-> <<>>, vals |-> Put(Put(EmptyMap, "minzoom", B(2)), "maxzoom", B(4)), layers |-> EmptyMap]
    IN ZoomOrdered(d) /\ ~ZoomOrdered(LimitMinZoom(d, 9))

(***************** reading a recorded document (see harness/src/tj.rs) *****************)
\* maps are logged as sequences of pairs, sorted by key
MapOf(seq, val(_)) == [k \in {seq[i][1] : i \in 1..Len(seq)} |-> val(seq[CHOOSE i \in 1..Len(seq) : seq[i][1] = k])]
ValOf(p) == [t |-> p[2], v |-> p[3]]
LayerOf(p) == [fields |-> MapOf(p[2], LAMBDA q : q[2]), desc |-> p[3], minz |-> p[4], maxz |-> p[5]]
DocOf(j) == [bounds |-> j.bounds, center |-> j.center, vals |-> MapOf(j.vals, ValOf), layers |-> MapOf(j.layers, LayerOf)]
OpOf(j) ==
    CASE j.op = "merge" -> [op |-> "merge", doc |-> DocOf(j.doc)]
      [] j.op = "limit_bbox" -> [op |-> "limit_bbox", b |-> j.b]
      [] j.op = "limit_min" -> [op |-> "limit_min", z |-> j.z]
      [] j.op = "limit_max" -> [op |-> "limit_max", z |-> j.z]
      [] j.op = "set" -> [op |-> "set", k |-> j.k, v |-> ValOf(<<j.k, j.t, j.v>>)]
=============================================================================
