------------------------------ MODULE CacheInd ------------------------------
(***************************************************************************)
(* C20, unbounded part.  The implementation-shaped layer of Cache.tla       *)
(* (stamps, cleanup at the median, entry().or_insert) restated for          *)
(* Apalache: 5 keys, but ANY capacity >= 1, ANY stamp values and histories  *)
(* of ANY length.  IndInv is inductive (checked: Init => IndInv, and        *)
(* IndInv /\ Next => IndInv'), hence the cache never holds more than `cap'  *)
(* entries and never returns another key's value -- for all histories, not  *)
(* only the bounded ones TLC enumerates in MC_C20.                           *)
(* The median of Cache.tla (sorted stamps, index (n-1) div 2) is expressed   *)
(* as an order statistic: a stamp m with  |{s < m}| <= idx < |{s <= m}|.     *)
(***************************************************************************)
EXTENDS Integers, FiniteSets

Keys == {1, 2, 3, 4, 5}

VARIABLES
    \* @type: Int -> Int;
    val,        \* key -> stored value, 0 = absent; by the drivers' convention value = 100 * key + version
    \* @type: Int -> Int;
    stamp,      \* key -> access stamp
    \* @type: Int;
    last,       \* last_index
    \* @type: Int;
    cap,        \* max_length
    \* @type: Int;
    ret         \* result of the last call (0 = None, -1 = Err)

Dom == {k \in Keys : val[k] # 0}
OwnValue(k, v) == v \div 100 = k          \* a value that belongs to key k

Init ==
    /\ val = [k \in Keys |-> 0] /\ stamp = [k \in Keys |-> 0]
    /\ last = 0 /\ cap \in 1..1000000 /\ ret = 0

\* cleanup: drop every entry whose stamp is <= the median stamp, reset the survivors' stamps to 0
\* @type: (Int -> Int, Int -> Int, Int) => Bool;
IsMedian(v, s, m) ==
    LET D == {k \in Keys : v[k] # 0}
        idx == (Cardinality(D) - 1) \div 2
    IN /\ \E k \in D : s[k] = m
       /\ Cardinality({k \in D : s[k] < m}) <= idx
       /\ Cardinality({k \in D : s[k] <= m}) > idx

Get(k) ==
    /\ IF val[k] # 0
       THEN /\ stamp' = [stamp EXCEPT ![k] = last + 1] /\ last' = last + 1 /\ ret' = val[k]
       ELSE /\ UNCHANGED <<stamp, last>> /\ ret' = 0
    /\ UNCHANGED <<val, cap>>

\* add(k, v): cleanup when full, then entry(k).or_insert(v)
AddTo(k, v) ==
    /\ last' = last + 1
    /\ cap' = cap
    /\ IF Cardinality(Dom) >= cap
       THEN \E m \in {stamp[j] : j \in Dom} :
              /\ IsMedian(val, stamp, m)
              /\ LET v1 == [j \in Keys |-> IF val[j] # 0 /\ stamp[j] <= m THEN 0 ELSE val[j]]
                     s1 == [j \in Keys |-> 0]
                 IN IF v1[k] # 0
                    THEN val' = v1 /\ stamp' = s1 /\ ret' = v1[k]
                    ELSE val' = [v1 EXCEPT ![k] = v] /\ stamp' = [s1 EXCEPT ![k] = last + 1] /\ ret' = v
       ELSE IF val[k] # 0
            THEN UNCHANGED <<val, stamp>> /\ ret' = val[k]
            ELSE val' = [val EXCEPT ![k] = v] /\ stamp' = [stamp EXCEPT ![k] = last + 1] /\ ret' = v

GetOrSet(k, ok, v) ==
    IF val[k] # 0 THEN Get(k)
    ELSE IF ok THEN AddTo(k, v)
    ELSE UNCHANGED <<val, stamp, last, cap>> /\ ret' = -1

Next ==
    \E k \in Keys : \E ver \in 0..99 :
        LET v == 100 * k + ver IN
        \/ Get(k)
        \/ AddTo(k, v)
        \/ GetOrSet(k, TRUE, v)
        \/ GetOrSet(k, FALSE, 0)

(* the property, and the invariant that makes it inductive *)
Bounded == Cardinality(Dom) <= cap
Transparent == \A k \in Keys : val[k] # 0 => OwnValue(k, val[k])      \* no value ever leaks to another key
IndInv ==
    /\ val \in [Keys -> Int] /\ stamp \in [Keys -> Int]
    /\ cap >= 1 /\ last >= 0
    /\ Bounded
    /\ Transparent
    /\ \A k \in Keys : val[k] >= 0 /\ stamp[k] >= 0 /\ stamp[k] <= last
IndInit ==
    /\ val \in [Keys -> Int] /\ stamp \in [Keys -> Int] /\ last \in Int /\ cap \in Int /\ ret \in Int
    /\ IndInv
=============================================================================
