------------------------------ MODULE Container ------------------------------
(***************************************************************************)
(* Tile containers as abstract tile maps (C01, C02, C03, C16).             *)
(*                                                                         *)
(* A tile set is a sequence of <<z, x, y, p>> sorted by (z, y, x), p > 0 a  *)
(* payload id (equal ids = byte-equal payloads).  A container format, tile *)
(* format and compression complete the source.  One observed CASE is a     *)
(* record holding the source and everything observed about the file that   *)
(* was produced from it (by the real writer, or -- C16 -- by the           *)
(* independent encoder) and about the real reader that opened it:          *)
(*   decoded  what the INDEPENDENT decoder recovers + abstract layout facts *)
(*   opened   the real reader's parameters and advertised coverage          *)
(*   lookups  the real reader's answer for every source coordinate          *)
(*   absent   ... and for coordinates that are not in the source            *)
(*   streams  the real reader's bounding-box streams (sorted as a bag)      *)
(* Result codes: p > 0 payload id, 0 = no tile, -1 = Err, -2 = bytes that   *)
(* are no payload of the source, -3 = panic, -4 = hang.                     *)
(***************************************************************************)
EXTENDS BBox

Formats == {"versatiles", "pmtiles", "mbtiles", "tar", "directory"}
Codecs  == {"none", "gzip", "brotli"}

\* which (tile format, compression) a container format can DECLARE
CanExpress(fmt, tf, tc) ==
    CASE fmt = "mbtiles" -> <<tf, tc>> \in {<<"pbf", "gzip">>, <<"png", "none">>, <<"jpg", "none">>, <<"webp", "none">>}
      [] fmt = "pmtiles" -> tf \in {"pbf", "png", "jpg", "webp", "avif"}
      [] OTHER -> TRUE
\* what it declares instead when it cannot (PMTiles: unknown type reads back as "bin")
Declared(fmt, tf) == IF fmt = "pmtiles" /\ tf \notin {"pbf", "png", "jpg", "webp", "avif"} THEN "bin" ELSE tf
\* formats whose advertised coverage is derived from the stored tiles (must be exact)
ExactCoverage(fmt) == fmt \in {"mbtiles", "pmtiles", "tar", "directory"}

Coords(tiles) == {<<tiles[i][1], tiles[i][2], tiles[i][3]>> : i \in 1..Len(tiles)}
Levels(tiles) == {tiles[i][1] : i \in 1..Len(tiles)}

InBox(t, b) == t[1] = b[1] /\ DContains(Den(FromSeq(b)), t[2], t[3])
TilesInBox(tiles, b) == SelectSeq(tiles, LAMBDA t : InBox(t, b))

\* bounding box (denotation) of the tiles at level z
LevelHull(tiles, z) ==
    LET S == {<<tiles[i][2], tiles[i][3]>> : i \in {j \in 1..Len(tiles) : tiles[j][1] = z}} IN Hull(S)

\* coverage is logged as the list of non-empty level boxes
CovAt(cov, z) ==
    LET hit == {i \in 1..Len(cov) : cov[i][1] = z} IN
    IF hit = {} THEN <<>> ELSE Den(FromSeq(cov[CHOOSE i \in hit : TRUE]))

(************************* published layouts (C01) *************************)
\* versatiles v02: header 66 bytes; meta and block index inside the file; every block's tile
\* blobs + index inside the file; index entries (relative to block start) inside the block's blob area;
\* block coverage within 0..255; number of index entries = coverage size; blocks unique
VersaTilesValid(L) ==
    /\ L.meta[1] + L.meta[2] <= L.filelen
    /\ L.block_index[1] + L.block_index[2] <= L.filelen
    /\ L.block_index[2] > 0
    /\ L.zmin <= L.zmax
    /\ \A i \in 1..Len(L.blocks) :
          LET b == L.blocks[i] IN
          /\ b.off >= 66 /\ b.off + b.tlen + b.ilen <= L.filelen
          /\ b.cov[1] <= b.cov[3] /\ b.cov[2] <= b.cov[4] /\ b.cov[3] <= 255 /\ b.cov[4] <= 255
          /\ b.n_entries = (b.cov[3] - b.cov[1] + 1) * (b.cov[4] - b.cov[2] + 1)
          /\ b.entries_inside_block = 1
          /\ b.col <= MaxIdx(b.z) \div 256 /\ b.row <= MaxIdx(b.z) \div 256
    /\ \A i, j \in 1..Len(L.blocks) :
          i # j => <<L.blocks[i].z, L.blocks[i].col, L.blocks[i].row>> # <<L.blocks[j].z, L.blocks[j].col, L.blocks[j].row>>

\* PMTiles v3: 127-byte header, root directory inside the first 16 KiB, sections inside the file,
\* directories sorted by tile id, leaf pointers inside the leaf section, counts truthful
PMTilesValid(L) ==
    /\ L.root[1] >= 127 /\ L.root[1] + L.root[2] <= 16384
    /\ L.meta[1] + L.meta[2] <= L.filelen
    /\ L.leaves[1] + L.leaves[2] <= L.filelen
    /\ L.data[1] + L.data[2] <= L.filelen
    /\ L.dirs_sorted = 1 /\ L.leaf_ptrs_inside = 1
    \* (the header counts may be 0 = "unknown" in PMTiles v3)
    /\ (L.n_addressed = 0 \/ L.n_addressed = L.count_addressed) /\ (L.n_entries = 0 \/ L.n_entries = L.count_entries)
    /\ L.zmin <= L.zmax
\* the `clustered' flag promises tile data in tile-id order
PMTilesClusteredTruthful(L) == L.clustered = 1 => L.offsets_ascending_by_id = 1

(***************************** judging a case *****************************)
RECURSIVE FlattenRes(_)
FlattenRes(ss) == IF ss = <<>> THEN <<>> ELSE Head(ss).res \o FlattenRes(Tail(ss))
Fails(name, ok) == IF ok THEN {} ELSE {name}

\* C01 / C16 reader side + independent decoding of the file
RoundTripFails(r) ==
    LET tiles == r.tiles  fmt == r.fmt IN
    \* the independent decoder recovers exactly the source mapping
    Fails("decode", r.decoded.skip = 1 \/ (r.decoded.ok = 1 /\ r.decoded.tiles = tiles)) \cup
    \* ("wherever the target format can express them": a format that cannot is free in what it reads back)
    Fails("decode_params", r.decoded.skip = 1 \/ r.decoded.ok = 0 \/ ~CanExpress(fmt, r.tf, r.tc) \/
            (r.decoded.tc = r.tc /\ r.decoded.tf = Declared(fmt, r.tf))) \cup
    Fails("layout", r.decoded.skip = 1 \/ r.decoded.ok = 0 \/
            CASE fmt = "versatiles" -> VersaTilesValid(r.decoded.layout)
              [] fmt = "pmtiles" -> PMTilesValid(r.decoded.layout)
              [] fmt = "mbtiles" -> r.decoded.layout.rows_valid = 1
              [] OTHER -> r.decoded.layout.consistent = 1) \cup
    Fails("layout_clustered", r.decoded.skip = 1 \/ r.decoded.ok = 0 \/ fmt # "pmtiles" \/ PMTilesClusteredTruthful(r.decoded.layout)) \cup
    \* the real reader opens it and declares the same parameters
    Fails("open", r.opened.ok = 1) \cup
    Fails("params", r.opened.ok = 0 \/ ~CanExpress(fmt, r.tf, r.tc) \/ (r.opened.tc = r.tc /\ r.opened.tf = Declared(fmt, r.tf))) \cup
    \* ... returns exactly the source payload for every source coordinate
    Fails("lookup", r.opened.ok = 0 \/ r.lookups = tiles) \cup
    \* ... a conversion-style read-back (streams over the ADVERTISED coverage, level by level) yields exactly the source
    Fails("walk_coverage", r.opened.ok = 0 \/ r.walk = 0 \/
            ( /\ \A i \in 1..Len(r.streams) : r.streams[i].status = "ok"
              /\ FlattenRes(r.streams) = tiles )) \cup
    \* ... and nothing anywhere else
    Fails("extra", r.opened.ok = 0 \/
            \* (0 = no tile, -1 = an error return: neither is an additional tile)
            \A i \in 1..Len(r.absent) : LET a == r.absent[i] IN <<a[1], a[2], a[3]>> \in Coords(tiles) \/ a[4] \in {0, -1})

\* C02: every box stream = the lookups inside the box, as a bag
StreamFails(r) ==
    IF r.opened.ok = 0 THEN {}
    ELSE UNION { Fails("stream",
                       /\ r.streams[i].status = "ok"
                       /\ r.streams[i].res = TilesInBox(r.expect, r.streams[i].box)) : i \in 1..Len(r.streams) }

\* C03: advertised coverage contains every tile; exact for the formats that derive it from the tiles
CoverageFails(r) ==
    IF r.opened.ok = 0 THEN {}
    ELSE LET tiles == r.expect IN
         Fails("coverage_contains",
               \A i \in 1..Len(tiles) : DContains(CovAt(r.opened.cov, tiles[i][1]), tiles[i][2], tiles[i][3])) \cup
         Fails("coverage_exact",
               ~ExactCoverage(r.fmt) \/
               ( /\ \A z \in Levels(tiles) : CovAt(r.opened.cov, z) = LevelHull(tiles, z)
                 /\ \A i \in 1..Len(r.opened.cov) : r.opened.cov[i][1] \in Levels(tiles) ))
=============================================================================
