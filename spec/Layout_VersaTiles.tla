-------------------------- MODULE Layout_VersaTiles --------------------------
(***************************************************************************)
(* versatiles v02 -- abstract layout, published decoding, and a             *)
(* transcription of the writer of this code base.                           *)
(*                                                                         *)
(* Abstract file = sequence of blocks; a block = [z, col, row, cov, blobs,  *)
(* index] where cov = <<cmin, rmin, cmax, rmax>> (0..255), blobs = the      *)
(* sequence of stored payload ids (the block's blob area; "offset" = index  *)
(* into that sequence) and index = row-major sequence over cov of 0 (no     *)
(* tile) or an offset into blobs.                                           *)
(***************************************************************************)
EXTENDS Naturals, Sequences, FiniteSets, TLC, SequencesExt, FiniteSetsExt

DedupThreshold == 1000
\* size of payload ids as used by MC_C01 (id 1: 999 bytes, id 2: 1000 bytes)
SizeOf(p) == IF p = 1 THEN 999 ELSE 1000

BlockKey(t) == <<t[1], t[2] \div 256, t[3] \div 256>>

\* published decoding: every non-zero index entry j of a block denotes the tile at
\* (col*256 + cmin + j mod w, row*256 + rmin + j div w) with the payload stored at that offset
DecodeBlock(b) ==
    LET w == b.cov[3] - b.cov[1] + 1 IN
    { << b.z, b.col * 256 + b.cov[1] + ((j - 1) % w), b.row * 256 + b.cov[2] + ((j - 1) \div w), b.blobs[b.index[j]] >> :
        j \in {k \in 1..Len(b.index) : b.index[k] # 0} }
Decode(file) == UNION {DecodeBlock(file[i]) : i \in 1..Len(file)}

(* ---- transcription of VersaTilesWriter::write_blocks / write_block ---- *)
\* coverage of the block = level box of the source intersected with the 256-grid cell (iter_bbox_grid(256))
LevelBox(tiles, z) ==
    LET S == {i \in 1..Len(tiles) : tiles[i][1] = z} IN
    << Min({tiles[i][2] : i \in S}), Min({tiles[i][3] : i \in S}), Max({tiles[i][2] : i \in S}), Max({tiles[i][3] : i \in S}) >>
Max2v(a, b) == IF a > b THEN a ELSE b
Min2v(a, b) == IF a < b THEN a ELSE b
BlockCov(tiles, key) ==
    LET lb == LevelBox(tiles, key[1]) IN
    << Max2v(lb[1], key[2] * 256) - key[2] * 256, Max2v(lb[2], key[3] * 256) - key[3] * 256,
       Min2v(lb[3], key[2] * 256 + 255) - key[2] * 256, Min2v(lb[4], key[3] * 256 + 255) - key[3] * 256 >>

\* the block's tiles in stream order (row-major over the block coverage = the default lookup-loop stream)
BlockTiles(tiles, key) ==
    LET cov == BlockCov(tiles, key)
        w == cov[3] - cov[1] + 1
        pos(t) == (t[3] - key[3] * 256 - cov[2]) * w + (t[2] - key[2] * 256 - cov[1])
        mine == {i \in 1..Len(tiles) : BlockKey(tiles[i]) = key}
    IN SortSeq(SetToSeq({tiles[i] : i \in mine}), LAMBDA a, b : pos(a) < pos(b))

\* write_block: append blob unless an identical small blob was already stored in THIS block
RECURSIVE WriteTiles(_, _, _, _, _)
WriteTiles(ts, k, blobs, index, posOf) ==
    IF k > Len(ts) THEN [blobs |-> blobs, index |-> index]
    ELSE LET t == ts[k]
             j == posOf[k]
             small == SizeOf(t[4]) < DedupThreshold
             prev == {o \in 1..Len(blobs) : blobs[o] = t[4]}
         IN IF small /\ prev # {}
            THEN WriteTiles(ts, k + 1, blobs, [index EXCEPT ![j] = Min(prev)], posOf)
            ELSE WriteTiles(ts, k + 1, Append(blobs, t[4]), [index EXCEPT ![j] = Len(blobs) + 1], posOf)

WriterBlock(tiles, key) ==
    LET cov == BlockCov(tiles, key)
        w == cov[3] - cov[1] + 1
        n == w * (cov[4] - cov[2] + 1)
        ts == BlockTiles(tiles, key)
        posOf == [k \in 1..Len(ts) |-> (ts[k][3] - key[3] * 256 - cov[2]) * w + (ts[k][2] - key[2] * 256 - cov[1]) + 1]
        r == WriteTiles(ts, 1, <<>>, [j \in 1..n |-> 0], posOf)
    IN [z |-> key[1], col |-> key[2], row |-> key[3], cov |-> cov, blobs |-> r.blobs, index |-> r.index]

\* blocks: every 256-grid cell that the level boxes touch (cells without tiles become empty blocks)
GridKeys(tiles) ==
    UNION { LET lb == LevelBox(tiles, z) IN
            { <<z, c, r>> : c \in (lb[1] \div 256)..(lb[3] \div 256), r \in (lb[2] \div 256)..(lb[4] \div 256) } :
            z \in {tiles[i][1] : i \in 1..Len(tiles)} }
WriterImpl(tiles) == LET ks == SetToSeq(GridKeys(tiles)) IN [i \in 1..Len(ks) |-> WriterBlock(tiles, ks[i])]

ThmWriterDecodes(tiles) ==
    /\ Decode(WriterImpl(tiles)) = {tiles[i] : i \in 1..Len(tiles)}
    \* de-duplication really happens below the threshold and only there
    /\ \A i \in 1..Len(WriterImpl(tiles)) :
          LET b == WriterImpl(tiles)[i] IN
          \A o1, o2 \in 1..Len(b.blobs) : (o1 # o2 /\ b.blobs[o1] = b.blobs[o2]) => SizeOf(b.blobs[o1]) >= DedupThreshold
=============================================================================
