--------------------------------- MODULE Geo ---------------------------------
(***************************************************************************)
(* Exact-rational model of geographic <-> tile mapping (C15 geo clause,    *)
(* used by C06/C09).  A geographic corner is given by its position in TILE *)
(* SPACE at the level in question: p = [k, m] meaning k + m/U tiles, with   *)
(* U = 2 000 000 units per tile, so that the documented rounding guard of   *)
(* 1e-6 tiles is G = 2 units.  (The harness converts p to lon/lat with the  *)
(* inverse Mercator in f64; its error is orders of magnitude below G for    *)
(* the levels used.)  k = -1 stands for "north of the Mercator limit", k >  *)
(* MaxIdx for "south of it" / east of +180 is not expressible.              *)
(***************************************************************************)
EXTENDS BBox

U == 2000000
G == 2

PLeq(p, q) == p[1] < q[1] \/ (p[1] = q[1] /\ p[2] <= q[2])
FloorPlus(p)  == IF p[2] + G >= U THEN p[1] + 1 ELSE p[1]      \* floor(p + guard)
FloorMinus(p) == IF p[2] - G < 0 THEN p[1] - 1 ELSE p[1]       \* floor(p - guard)
Clamp(v, l) == Max2(0, Min2(v, MaxIdx(l)))

\* geo box = [w, n, e, s] corners in tile space (y grows southwards)
GeoValid(g) == PLeq(g.w, g.e) /\ PLeq(g.n, g.s)

(* THE PROPERTY: a valid geographic box maps to a NON-EMPTY tile box that    *)
(* covers it up to the guard (no tile is dropped that the box reaches into  *)
(* by more than the guard) and is tight up to the guard (no tile is added   *)
(* that the box stays out of by more than the guard).                       *)
GeoCovers(g, l, d) ==
    /\ d[1] <= Clamp(FloorPlus(g.w), l)  /\ d[3] >= Clamp(FloorMinus(g.e), l)
    /\ d[2] <= Clamp(FloorPlus(g.n), l)  /\ d[4] >= Clamp(FloorMinus(g.s), l)
GeoTight(g, l, d) ==
    /\ d[1] >= Clamp(FloorMinus(g.w), l) /\ d[3] <= Clamp(FloorPlus(g.e), l)
    /\ d[2] >= Clamp(FloorMinus(g.n), l) /\ d[4] <= Clamp(FloorPlus(g.s), l)
GeoAdmissible(g, l, d) == d # <<>> /\ GeoCovers(g, l, d) /\ GeoTight(g, l, d)

(* implementation-shaped: from_geo as the code computes it (after fix D9:   *)
(* the maximum is never left below the minimum).                            *)
ImplFromGeo(g, l) ==
    LET x0 == Clamp(FloorPlus(g.w), l)   y0 == Clamp(FloorPlus(g.n), l)
        x1 == Clamp(FloorMinus(g.e), l)  y1 == Clamp(FloorMinus(g.s), l)
    IN Box(l, x0, y0, Max2(x0, x1), Max2(y0, y1))

LawImplFromGeo(g, l) == GeoValid(g) => GeoAdmissible(g, l, Den(ImplFromGeo(g, l)))

\* corners of a tile box in tile space: as_geo_bbox
GeoOfBox(b) == [w |-> <<b.x0, 0>>, n |-> <<b.y0, 0>>, e |-> <<b.x1 + 1, 0>>, s |-> <<b.y1 + 1, 0>>]
LawRoundTrip(b) == ~IsEmpty(b) => Den(ImplFromGeo(GeoOfBox(b), b.l)) = Den(b)
\* every admissible result for the corners of a tile box is that tile box
LawRoundTripUnique(b) ==
    ~IsEmpty(b) => \A d \in {Den(b)} : GeoAdmissible(GeoOfBox(b), b.l, d)
=============================================================================
