------------------------------ MODULE VectorTile ------------------------------
(***************************************************************************)
(* C10 / C11 -- Mapbox vector tiles as abstract values.                     *)
(*                                                                         *)
(* SEMANTIC view of a tile (what the independent decoder projects bytes to, *)
(* and what the properties talk about):                                     *)
(*   tile    = sequence of layers (distinct names)                          *)
(*   layer   = [name, extent, version, feats]                               *)
(*   feature = [id, gt, geom, props]                                        *)
(*     id    = "none" or a decimal string (ids go up to 2^64-1)             *)
(*     gt    = geometry type 0..3, geom = id of the opaque geometry bytes   *)
(*     props = sequence of <<key, <<type, text>>>>, keys unique (compared   *)
(*             as a SET); type "s" string, "n" integer NUMBER (int64 /      *)
(*             uint64 / sint64 wire types are the same number), "b" bool,   *)
(*             "d" double, "f" float; text = canonical text of the value    *)
(* The wire-level freedoms (order, duplicates and unused entries of a       *)
(* layer's key/value tables) are an ENCODING VARIANT chosen per case; they  *)
(* do not appear in the semantic view -- which is exactly the property.     *)
(***************************************************************************)
EXTENDS Naturals, Integers, Sequences, FiniteSets, TLC, SequencesExt, FiniteSetsExt

Names(t) == {t[i].name : i \in 1..Len(t)}
LayerOf(t, n) == t[CHOOSE i \in 1..Len(t) : t[i].name = n]
HasLayer(t, n) == \E i \in 1..Len(t) : t[i].name = n

ValText(v) == v[2]                                       \* text form of a typed value <<type, text>>
PSet(p) == {p[i] : i \in 1..Len(p)}                       \* property sequences are compared as sets
NormFeat(f) == [id |-> f.id, gt |-> f.gt, geom |-> f.geom, props |-> PSet(f.props)]
NormFeats(fs) == [i \in 1..Len(fs) |-> NormFeat(fs[i])]
NormLayer(l) == [name |-> l.name, extent |-> l.extent, version |-> l.version, feats |-> NormFeats(l.feats)]
NormTile(t) == [i \in 1..Len(t) |-> NormLayer(t[i])]

RECURSIVE ConcatFeats(_, _, _)
ConcatFeats(ts, n, k) ==       \* features of layer n from sources k..Len(ts), in source order
    IF k > Len(ts) THEN <<>>
    ELSE (IF HasLayer(ts[k], n) THEN LayerOf(ts[k], n).feats ELSE <<>>) \o ConcatFeats(ts, n, k + 1)

(* C10: merged tile as a SET of [name, feats] (layer order is not prescribed) *)
AllNames(ts) == UNION {Names(ts[k]) : k \in 1..Len(ts)}
Merged(ts) == { [name |-> n, feats |-> NormFeats(ConcatFeats(ts, n, 1))] : n \in AllNames(ts) }
AsLayerSet(t) == { [name |-> t[i].name, feats |-> NormFeats(t[i].feats)] : i \in 1..Len(t) }

\* the extent under which a feature's geometry bytes were written must be the extent of the layer it ends up in
\* (sources that contribute no feature to the layer do not matter)
ExtentsAgree(ts, n, outExtent) ==
    \A k \in 1..Len(ts) : (HasLayer(ts[k], n) /\ Len(LayerOf(ts[k], n).feats) > 0) => LayerOf(ts[k], n).extent = outExtent

(* C11: property update.  table = sequence of rows [id, props]; opts = [layer, idfield, replace, remove, ...] *)
PropGet(props, k) == LET hit == {i \in 1..Len(props) : props[i][1] = k} IN
                     IF hit = {} THEN <<"s", "">> ELSE props[CHOOSE i \in hit : TRUE][2]
PropHas(props, k) == \E i \in 1..Len(props) : props[i][1] = k
SortProps(S) == SetToSeq(S)                                   \* order is immaterial: compared through PSet
\* old properties overwritten / extended by the row's
PropUpdate(props, new) ==
    SortProps({props[i] : i \in {j \in 1..Len(props) : ~PropHas(new, props[j][1])}} \cup {new[i] : i \in 1..Len(new)})
RowFor(table, idtext) == LET hit == {i \in 1..Len(table) : table[i].id = idtext} IN
                         IF hit = {} THEN 0 ELSE CHOOSE i \in hit : \A j \in hit : i >= j   \* later rows win (map insert)

UpdFeat(f, table, o) ==       \* <<>> = feature removed, else <<feature>>
    IF ~PropHas(f.props, o.idfield) THEN <<f>>
    ELSE LET r == RowFor(table, ValText(PropGet(f.props, o.idfield))) IN
         IF r = 0 THEN (IF o.remove = 1 THEN <<>> ELSE <<f>>)
         ELSE << [f EXCEPT !.props = IF o.replace = 1 THEN table[r].props ELSE PropUpdate(f.props, table[r].props)] >>
RECURSIVE UpdFeats(_, _, _)
UpdFeats(fs, table, o) == IF fs = <<>> THEN <<>> ELSE UpdFeat(Head(fs), table, o) \o UpdFeats(Tail(fs), table, o)
Updated(t, table, o) ==
    [i \in 1..Len(t) |-> IF t[i].name = o.layer THEN [t[i] EXCEPT !.feats = UpdFeats(t[i].feats, table, o)] ELSE t[i]]

(* THE PROPERTY leaves three details of the join open, and so does the relation used for judging (Updated above is the
   implementation's choice among them, kept for the design-level check in MC_VT):
     (a) a feature WITHOUT the id field may be kept, or -- when unmatched features are removed -- removed;
     (b) of several table rows with the same id any one may win;
     (c) a value taken from the table may be typed as text or as a number ("9" vs 9): only its text is compared. *)
RowsFor(table, idtext) == {i \in 1..Len(table) : table[i].id = idtext}
TableKeys(table) == UNION { {table[i].props[j][1] : j \in 1..Len(table[i].props)} : i \in 1..Len(table) }
\* property sets agree: same keys, same texts; same types except for keys the table provides
PropsAgree(got, want, tkeys) ==
    /\ {p[1] : p \in got} = {p[1] : p \in want}
    /\ \A p \in got : \E q \in want : p[1] = q[1] /\ p[2][2] = q[2][2] /\ (p[2][1] = q[2][1] \/ p[1] \in tkeys)
SameButProps(f, g) == f.id = g.id /\ f.gt = g.gt /\ f.geom = g.geom
MayRemove(f, table, o) ==
    o.remove = 1 /\ (~PropHas(f.props, o.idfield) \/ RowsFor(table, ValText(PropGet(f.props, o.idfield))) = {})
\* g is an admissible result for f
MayBecome(f, g, table, o) ==
    /\ SameButProps(f, g)
    /\ LET rows == IF PropHas(f.props, o.idfield) THEN RowsFor(table, ValText(PropGet(f.props, o.idfield))) ELSE {} IN
       \* no row: the feature stays as it is -- unless unmatched features are to be removed and it HAS the id field
       IF rows = {} THEN PSet(g.props) = PSet(f.props) /\ ~(o.remove = 1 /\ PropHas(f.props, o.idfield))
       ELSE \E r \in rows :
               PropsAgree(PSet(g.props),
                          IF o.replace = 1 THEN PSet(table[r].props) ELSE PSet(PropUpdate(f.props, table[r].props)),
                          TableKeys(table))
RECURSIVE MatchFeats(_, _, _, _)
MatchFeats(fs, us, table, o) ==
    IF fs = <<>> THEN us = <<>>
    ELSE \/ MayRemove(Head(fs), table, o) /\ MatchFeats(Tail(fs), us, table, o)
         \/ us # <<>> /\ MayBecome(Head(fs), Head(us), table, o) /\ MatchFeats(Tail(fs), Tail(us), table, o)
UpdateOk(t, u, table, o) ==
    /\ Len(u) = Len(t)
    /\ \A i \in 1..Len(t) :
          /\ u[i].name = t[i].name /\ u[i].extent = t[i].extent /\ u[i].version = t[i].version
          /\ IF t[i].name = o.layer THEN MatchFeats(t[i].feats, u[i].feats, table, o)
             ELSE NormFeats(u[i].feats) = NormFeats(t[i].feats)

\* everything except the property sets of the named layer is untouched (a consequence of Updated, stated separately)
OnlyPropsChanged(t, u, o) ==
    /\ Len(u) = Len(t)
    /\ \A i \in 1..Len(t) :
          /\ u[i].name = t[i].name /\ u[i].extent = t[i].extent /\ u[i].version = t[i].version
          /\ (t[i].name # o.layer => NormFeats(u[i].feats) = NormFeats(t[i].feats))
          /\ \A j \in 1..Len(u[i].feats) :
                \E k \in 1..Len(t[i].feats) :
                   /\ u[i].feats[j].id = t[i].feats[k].id /\ u[i].feats[j].gt = t[i].feats[k].gt
                   /\ u[i].feats[j].geom = t[i].feats[k].geom

Fails(name, ok) == IF ok THEN {} ELSE {name}

\* C02 for the vector-tile operations: what the box stream delivers for the coordinate is what the lookup returns -- present or
\* absent alike, failing or not alike, and (where the harness logged a hash of the delivered bytes) the identical bytes
HashOf(o) == IF "h" \in DOMAIN o THEN o.h ELSE -1
\* (a lookup that returns an ERROR delivers no tile, and a stream can only leave such a tile out: "has a tile" = delivered and decodable)
HasTile(o) == o.exists = 1 /\ o.ok = 1
StreamEqLookup(r) == HasTile(r.stream) = HasTile(r.lookup)
                     /\ (HasTile(r.lookup) => r.stream.tile = r.lookup.tile /\ HashOf(r.stream) = HashOf(r.lookup))

(* judging observed operations.  `out' = semantic view of the delivered tile as decoded by the INDEPENDENT decoder *)
MergeFails(r) ==
    LET ts == r.present IN       \* the source tiles that exist at this coordinate, in source order
    Fails("vt_stream_eq_lookup", StreamEqLookup(r)) \cup
    IF Len(ts) = 0
    THEN Fails("merge_exists", r.lookup.exists = 0 /\ r.stream.exists = 0)
    ELSE Fails("merge_exists", r.lookup.exists = 1 /\ r.stream.exists = 1) \cup
         Fails("merge_decodes", r.lookup.ok = 1 /\ r.stream.ok = 1) \cup
         (IF r.lookup.ok = 0 \/ r.stream.ok = 0 THEN {} ELSE
          Fails("merge_layers", AsLayerSet(r.lookup.tile) = Merged(ts) /\ Len(r.lookup.tile) = Cardinality(AllNames(ts))) \cup
          Fails("merge_stream", AsLayerSet(r.stream.tile) = Merged(ts) /\ Len(r.stream.tile) = Cardinality(AllNames(ts))) \cup
          Fails("merge_extent", \A i \in 1..Len(r.lookup.tile) : ExtentsAgree(ts, r.lookup.tile[i].name, r.lookup.tile[i].extent)) \cup
          Fails("merge_uncompressed", r.declared_tc = "none"))

UpdateFails(r) ==
    LET want == Updated(r.tile, r.table, r.opts) IN
    Fails("vt_stream_eq_lookup", StreamEqLookup(r)) \cup
    Fails("update_decodes", r.lookup.ok = 1 /\ r.stream.ok = 1) \cup
    (IF r.lookup.ok = 0 \/ r.stream.ok = 0 THEN {} ELSE
     Fails("update_result", UpdateOk(r.tile, r.lookup.tile, r.table, r.opts)) \cup
     Fails("update_stream", UpdateOk(r.tile, r.stream.tile, r.table, r.opts)) \cup
     \* (the implementation's own choice among the open details; a difference is reported as an observation only)
     Fails("update_model_choice", NormTile(r.lookup.tile) = NormTile(want)) \cup
     Fails("update_untouched", OnlyPropsChanged(r.tile, r.lookup.tile, r.opts)) \cup
     Fails("update_uncompressed", r.declared_tc = "none"))

\* decode + re-encode without changes preserves the content
ReencodeFails(r) ==
    Fails("reencode_decodes", r.reencoded.ok = 1) \cup
    (IF r.reencoded.ok = 0 THEN {} ELSE Fails("reencode_content", NormTile(r.reencoded.tile) = NormTile(r.tile)))
=============================================================================
