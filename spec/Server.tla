-------------------------------- MODULE Server --------------------------------
(***************************************************************************)
(* C05 / C07 (and the served tiles.json of C17, the serve flags of C06) --   *)
(* the HTTP server as a relation between request and response.               *)
(*                                                                         *)
(* TILE ENDPOINT.  A request is [src, z, x, y, accept, ...] where z, x, y   *)
(* are the path segments as CLASSIFIED strings: kind "num" with a value, or *)
(* "big" (decimal but beyond the integer type), "bad" (not a decimal ASCII  *)
(* number).  A source is [tf, tc, tiles] with tiles a set of <<z,x,y,p>>.   *)
(* A response is [status, ctype, cenc, body] with body the payload id       *)
(* obtained by decoding the body with the response's Content-Encoding, or   *)
(* the record is "dropped" (status -1): no complete HTTP response arrived.  *)
(***************************************************************************)
EXTENDS Converter

\* media types in use for a tile format (parameters such as ";charset" are stripped before the comparison)
Mimes(tf) == CASE tf = "pbf" -> {"application/x-protobuf", "application/vnd.mapbox-vector-tile", "application/protobuf"}
               [] tf = "png" -> {"image/png"} [] tf = "jpg" -> {"image/jpeg", "image/jpg"}
               [] tf = "webp" -> {"image/webp"} [] tf = "avif" -> {"image/avif"} [] tf = "json" -> {"application/json"}
               [] OTHER -> {"application/octet-stream"}

\* content codings the client listed (tokens, lower-cased, positive weight) as codec names
Accepted(tokens) == {IF t = "br" THEN "brotli" ELSE t : t \in {tokens[i] : i \in 1..Len(tokens)}} \cap {"gzip", "brotli"}

\* the tile the source must deliver at the requested coordinate, given the server's transform flags (0 = none)
SrcTileAt(srcTiles, flip, swap, z, x, y) ==
    LET pre == Tinv(flip, swap, <<z, x, y>>)
        hit == {t \in srcTiles : <<t[1], t[2], t[3]>> = pre}
    IN IF hit = {} THEN 0 ELSE (CHOOSE t \in hit : TRUE)[4]

Numeric(q) == q.z.kind = "num" /\ q.x.kind = "num" /\ q.y.kind = "num"
InRange(q) == Numeric(q) /\ q.z.v <= 31 /\ q.x.v <= MaxIdx(q.z.v) /\ q.y.v <= MaxIdx(q.z.v)
Unparsable(q) == \E s \in {q.z, q.x, q.y} : s.kind = "bad"

TileFails(q, src, flags, r) ==
    IF r.status = -1 THEN {"dropped_connection"}                      \* always a complete response
    ELSE IF Unparsable(q) THEN Fails("status_unparsable", r.status = 400)
    ELSE IF ~InRange(q) THEN Fails("status_out_of_range", r.status \in {404, 400})
    ELSE LET want == SrcTileAt(src.tiles, flags.flip, flags.swap, q.z.v, q.x.v, q.y.v) IN
         IF want = 0 THEN Fails("status_absent", r.status = 404)
         ELSE Fails("status_present", r.status = 200) \cup
              (IF r.status # 200 THEN {} ELSE
               \* (-9: sent with a coding the client listed but the harness cannot decode -- zstd; the body is then not judged)
               Fails("body", r.body = want \/ r.body = -9) \cup
               Fails("content_type", r.ctype \in Mimes(src.tf)) \cup
               \* absent, or one of the codings the client listed (whichever that is: the property does not limit the server
               \* to gzip / br)
               Fails("content_encoding_listed", r.cenc = "" \/ r.cenc \in {q.accept[i] : i \in 1..Len(q.accept)}))

(* SOURCE IDS: `serve` takes "[id]path", "path[id]", "path#id" or a plain path, whose id is the file name up to the first dot.
   The id a request has to use is part of the case (computed here, rendered into the argument by the harness). *)
ServedId(kind, id, stem) == IF kind = "plain" THEN stem ELSE id

(* API endpoints -- system behaviour beyond the listed properties (reported as observations, see DESIGN 10.8):
   /status answers "ready!"; /tiles/index.json is a JSON array of the source ids in argument order; a request below
   /tiles/ for an id that was never added is a 404 *)
ApiFails(r) ==
    Fails("api_status", r.status.code = 200 /\ r.status.body = "ready!") \cup
    Fails("api_index_status", r.index.code = 200) \cup
    Fails("api_index_valid_json", r.index.code # 200 \/ r.index.valid = 1) \cup
    Fails("api_index_ids", r.index.code # 200 \/ r.index.valid = 0 \/ r.index.ids = r.ids) \cup
    Fails("api_unknown_source_404", r.unknown = 404)

SrvAttribution == "\"a\" \\ b"          \* the attribution the test containers are written with: "a" \ b
(* served tiles.json (C17): valid JSON carrying the container's metadata plus a tiles URL template and bounds / zoom
   consistent with the coverage *)
TilesJsonFails(r) ==
    IF r.resp.status = -1 THEN {"dropped_connection"}
    ELSE IF r.resp.status # 200 THEN {"tilesjson_status"}
    ELSE Fails("tilesjson_valid_json", r.valid = 1) \cup
         (IF r.valid = 0 THEN {} ELSE
          \* a tiles URL template: its path names the source and has the three placeholders (absolute or relative, with or
          \* without an extension after {y}, id percent-encoded or not)
          Fails("tilesjson_template", {"{z}", "{x}", "{y}", r.q.src.sid} \subseteq {r.template_segs[i] : i \in 1..Len(r.template_segs)}) \cup
          Fails("tilesjson_zoom", r.minzoom = r.cov_minzoom /\ r.maxzoom = r.cov_maxzoom) \cup
          \* bounds (millionths of a degree): a proper box inside the world
          Fails("tilesjson_bounds", Len(r.bounds_e6) = 4 /\ -180000000 <= r.bounds_e6[1] /\ r.bounds_e6[1] <= r.bounds_e6[3]
                                     /\ r.bounds_e6[3] <= 180000000 /\ -90000000 <= r.bounds_e6[2] /\ r.bounds_e6[2] <= r.bounds_e6[4]
                                     /\ r.bounds_e6[4] <= 90000000) \cup
          Fails("tilesjson_format", r.format = r.q.src.tf) \cup
          \* the attribution given to the container comes back (MBTiles stores a fixed set of keys only)
          Fails("tilesjson_metadata", r.q.src.fmt = "mbtiles" \/ r.attribution = SrvAttribution))

(* design level: the transcribed optimize_compression picks only listed encodings and never fails when
   identity is available (it always is: the server adds it) *)
OptimizeModel(stored, allowed, goal) ==
    IF goal # "best" /\ stored \in allowed THEN stored
    ELSE CASE stored = "none" ->
                 IF goal # "incompressible" /\ "brotli" \in allowed THEN "brotli"
                 ELSE IF goal # "incompressible" /\ "gzip" \in allowed THEN "gzip" ELSE "none"
           [] stored = "gzip" ->
                 IF goal # "incompressible" /\ "brotli" \in allowed THEN "brotli"
                 ELSE IF "gzip" \in allowed THEN "gzip" ELSE "none"
           [] stored = "brotli" ->
                 IF "brotli" \in allowed THEN "brotli"
                 ELSE IF goal # "incompressible" /\ "gzip" \in allowed THEN "gzip" ELSE "none"
ThmOptimize ==
    \A stored \in Codec, acc \in SUBSET {"gzip", "brotli"}, goal \in {"best", "fast", "incompressible"} :
        OptimizeModel(stored, acc \cup {"none"}, goal) \in acc \cup {"none"}

(***************************************************************************)
(* STATIC CONTENT (C07).  A request path is a sequence of segments over     *)
(* classes; the file system below and around the root is fixed:             *)
(*   <parent2>/{canary2.txt, secret.txt.gz, index.html.gz}                  *)
(*   <parent2>/<parent>/{canary.txt, index.html, secret.txt.br}             *)
(*   <parent2>/<parent>/root/{index.html, a.txt, c.txt.br,                  *)
(*                            sub/{index.html, b.txt, d.txt.gz}}            *)
(* (x.br / x.gz are precompressed siblings the folder source serves for x.) *)
(* Kernel path resolution of the joined path decides which file a naive     *)
(* join would reach; THE PROPERTY: whatever is served lies inside the root. *)
(* A response is identified by the file whose content it carries: "in:<f>"  *)
(* for files inside the root, "out:<f>" for the canaries, "" for none.      *)
(***************************************************************************)
\* Where a request path ends, LEXICALLY (dot segments removed as in RFC 3986; the kernel agrees whenever every prefix is an
\* existing directory, and otherwise finds nothing at all): the position is the sequence of names below <parent2>, starting
\* at <<"parent", "root">>; "." and "" stay, ".." drops the last name -- or climbs above <parent2>, from where no name leads
\* back (the directories up there are not among the segment classes).  "inside" iff the position still begins with the root.
RECURSIVE LexWalk(_, _, _, _)
LexWalk(segs, i, pos, above) ==
    IF i > Len(segs) THEN (IF above = 0 /\ Len(pos) >= 2 /\ pos[1] = "parent" /\ pos[2] = "root" THEN "inside" ELSE "outside")
    ELSE LET s == segs[i] IN
         IF s \in {".", ""} THEN LexWalk(segs, i + 1, pos, above)
         ELSE IF s = ".." THEN (IF pos # <<>> THEN LexWalk(segs, i + 1, SubSeq(pos, 1, Len(pos) - 1), above)
                                ELSE LexWalk(segs, i + 1, pos, above + 1))
         \* "ABS": an ABSOLUTE component -- the absolute path of <parent2> itself (the harness puts the real path there);
         \* whatever follows is resolved from <parent2>, wherever the walk was
         ELSE IF s = "ABS" THEN LexWalk(segs, i + 1, <<>>, 0)
         ELSE IF above > 0 THEN "outside"
         ELSE LexWalk(segs, i + 1, Append(pos, s), above)
Walk(segs, i, depth) == LexWalk(segs, i, <<"parent", "root">>, 0)      \* (depth: kept for the callers, always 0)

StaticFails(q, r) ==
    IF r.status = -1 THEN {"dropped_connection"}
    ELSE Fails("served_outside_root", ~(r.status = 200 /\ r.outside = 1)) \cup
         \* a path that resolves outside the root yields 404
         Fails("escape_not_404", Walk(q.segs, 1, 0) = "inside" \/ r.status = 404) \cup
         \* sanity of the binding: plain paths inside the root are served (otherwise the check would be vacuous);
         \* stated for clients that accept every coding, so that a negotiation problem is not mistaken for an escape
         Fails("plain_inside_not_served", q.target = "" \/ q.acc # "all" \/ (r.status = 200 /\ r.file = q.target)) \cup
         \* beyond C07 (observations): static files are negotiated like tiles -- the coding sent is one the client listed,
         \* and the decoded body is the file whatever the client accepts (precompressed siblings are re-coded if need be)
         Fails("api_static_encoding_listed", r.status # 200 \/ r.cenc = "" \/ r.cenc \in {q.accept[i] : i \in 1..Len(q.accept)}) \cup
         Fails("api_static_content", q.target = "" \/ r.status # 200 \/ r.file = q.target) \cup
         Fails("api_static_served_for_every_client", q.target = "" \/ r.status = 200)

=============================================================================
