----------------------------- MODULE TileStream -----------------------------
(***************************************************************************)
(* C14 -- parallel stream operators (map_blob_parallel,                     *)
(* filter_map_blob_parallel, from_coord_iter_parallel) and the chunking     *)
(* consumer for_each_buffered.                                              *)
(*                                                                         *)
(* Items 1..N enter in order; each is handed to a task (Spawn) while fewer  *)
(* than W tasks are unconsumed; tasks finish in ANY order (Complete -- the  *)
(* point where TLC explores all completion orders); a finished task's       *)
(* result is handed downstream (Yield) paired with the coordinate that      *)
(* travelled with the task; items not in Keep are dropped; the consumer     *)
(* groups yielded items into chunks of B.                                   *)
(*                                                                         *)
(* coord(i) = i and result(i) = F(i) are abstract and distinct per item, so *)
(* a result attached to another coordinate is visible.                      *)
(***************************************************************************)
EXTENDS Naturals, Sequences, FiniteSets, TLC

\* the case parameters are variables fixed by Init (so that one TLC run covers all cases and
\* a trace can carry its own parameters): N items, window W, retained items Keep, chunk size B
VARIABLES N, W, Keep, B,
          nextIn,     \* next input item to be spawned
          inflight,   \* spawned, still running
          ready,      \* finished, not yet handed downstream
          out,        \* sequence of <<coord, result-of>> pairs handed downstream
          buf, chunks,\* consumer side: current buffer, emitted chunks
          corder      \* history: completion order

params == <<N, W, Keep, B>>
vars == <<N, W, Keep, B, nextIn, inflight, ready, out, buf, chunks, corder>>

Items == 1..N

InitRun ==
    /\ nextIn = 1 /\ inflight = {} /\ ready = {} /\ out = <<>>
    /\ buf = <<>> /\ chunks = <<>> /\ corder = <<>>

Spawn ==
    /\ nextIn <= N
    /\ Cardinality(inflight \cup ready) < W
    /\ inflight' = inflight \cup {nextIn}
    /\ nextIn' = nextIn + 1
    /\ UNCHANGED <<ready, out, buf, chunks, corder, params>>

Complete(i) ==
    /\ i \in inflight
    /\ inflight' = inflight \ {i}
    /\ ready' = ready \cup {i}
    /\ corder' = Append(corder, i)
    /\ UNCHANGED <<nextIn, out, buf, chunks, params>>

\* hand item i downstream (or drop it if the callback returned None)
Yield(i) ==
    /\ i \in ready
    /\ ready' = ready \ {i}
    /\ IF i \in Keep
       THEN /\ out' = Append(out, <<i, i>>)            \* <<coordinate of i, result computed from i>>
            /\ IF Len(buf) + 1 >= B
               THEN chunks' = Append(chunks, Append(buf, <<i, i>>)) /\ buf' = <<>>
               ELSE buf' = Append(buf, <<i, i>>) /\ chunks' = chunks
       ELSE UNCHANGED <<out, buf, chunks>>
    /\ UNCHANGED <<nextIn, inflight, corder, params>>

Finished == nextIn > N /\ inflight = {} /\ ready = {}

Flush ==
    /\ Finished /\ buf # <<>>
    /\ chunks' = Append(chunks, buf) /\ buf' = <<>>
    /\ UNCHANGED <<nextIn, inflight, ready, out, corder, params>>

Next == Spawn \/ (\E i \in Items : Complete(i) \/ Yield(i)) \/ Flush

(****************************** the property ******************************)
RECURSIVE Flatten(_)
Flatten(cs) == IF cs = <<>> THEN <<>> ELSE Head(cs) \o Flatten(Tail(cs))

InvPaired == \A k \in 1..Len(out) : out[k][1] = out[k][2]                 \* own coordinate
InvNoDup  == \A j, k \in 1..Len(out) : j # k => out[j][1] # out[k][1]      \* nothing twice
InvOnlyKept == \A k \in 1..Len(out) : out[k][1] \in Keep                    \* dropped items stay dropped
InvWindow == Cardinality(inflight \cup ready) <= W
InvChunks ==
    /\ Flatten(chunks) \o buf = out
    \* chunk size B; B = 0 (a degenerate but accepted argument) hands every item over on its own
    /\ \A k \in 1..Len(chunks) :
          IF B = 0 THEN Len(chunks[k]) = 1
          ELSE Len(chunks[k]) = B \/ (k = Len(chunks) /\ Finished /\ Len(chunks[k]) <= B /\ Len(chunks[k]) > 0)
TermComplete == (Finished /\ buf = <<>>) => {out[k][1] : k \in 1..Len(out)} = Keep   \* nothing lost
=============================================================================
