----------------------------- MODULE Layout_PMTiles -----------------------------
(***************************************************************************)
(* PMTiles v3 addressing (C01 / C03 / C16 for the pmtiles format).          *)
(*                                                                         *)
(* (1) tile id <-> coordinate: transcriptions of coord_to_tile_id and        *)
(*     tile_id_to_coord (container/pmtiles/types/tile_id.rs): levels are     *)
(*     numbered one after the other (Acc), inside a level tiles follow the   *)
(*     Hilbert curve.  Theorems (checked by TLC on levels 0..MaxZ): the two  *)
(*     functions are inverse bijections between the coordinates of a level   *)
(*     and the id interval of that level, and consecutive ids of a level are *)
(*     edge neighbours (what makes run lengths compact boxes).               *)
(* (2) directory search: transcription of EntriesV3::find_tile (binary       *)
(*     search, then the predecessor entry if the id falls into its run, or   *)
(*     unconditionally if it is a leaf pointer, run_length = 0).  Theorem:   *)
(*     for every directory sorted by id with disjoint runs it returns        *)
(*     exactly the entry that the published format says covers the id.       *)
(* (3) the tiles a run stands for, and the box a reader has to advertise for *)
(*     it (C03): the hull of ALL ids of the run, not of its end points.      *)
(***************************************************************************)
EXTENDS Naturals, Integers, Sequences, FiniteSets, TLC

Pow2(k) == 2^k
Pow4(k) == 4^k
RECURSIVE Acc(_)
Acc(z) == IF z = 0 THEN 0 ELSE Acc(z - 1) + Pow4(z - 1)       \* number of tiles on the levels above z

Bit(v, s) == (v \div s) % 2                                      \* s a power of two: (v & s) > 0
Xor(a, b) == ((a + b) % 2) + 2 * (((a \div 2) + (b \div 2)) % 2)   \* for 0 <= a, b <= 3

\* rotate(s, tx, ty, rx, ry) of the implementation, as a function returning <<tx, ty>>
Rot(s, tx, ty, rx, ry) ==
    IF ry = 0
    THEN (IF rx = 1 THEN << s - 1 - ty, s - 1 - tx >> ELSE << ty, tx >>)     \* flip both, then swap
    ELSE << tx, ty >>

\* coord_to_tile_id: the loop over s = n/2, n/4, ..., 1
RECURSIVE XYLoop(_, _, _, _)
XYLoop(s, tx, ty, d) ==
    IF s = 0 THEN d
    ELSE LET rx == Bit(tx, s)  ry == Bit(ty, s)
             r == Rot(s, tx, ty, rx, ry)
         IN XYLoop(s \div 2, r[1], r[2], d + s * s * Xor(3 * rx, ry))
\* NB the implementation rotates the FULL coordinates (tx, ty keep their high bits); the high bits never influence
\* Bit(_, s) for smaller s after s - 1 - t is applied ... which is exactly what ThmBijection establishes.
XY2D(z, x, y) == Acc(z) + XYLoop(Pow2(z) \div 2, x, y, 0)

\* tile_id_to_coord: find the level, then the loop over s = 1, 2, ..., n/2
LevelOfId(id) == CHOOSE z \in 0..15 : Acc(z) <= id /\ id < Acc(z + 1)
RECURSIVE DLoop(_, _, _, _, _)
DLoop(s, n, t, tx, ty) ==
    IF s >= n THEN << tx, ty >>
    ELSE LET rx == (t \div 2) % 2
             ry == Xor(t % 4, rx) % 2
             r == Rot(s, tx, ty, rx, ry)
         IN DLoop(2 * s, n, t \div 4, r[1] + (IF rx = 1 THEN s ELSE 0), r[2] + (IF ry = 1 THEN s ELSE 0))
D2XY(id) == LET z == LevelOfId(id)  p == DLoop(1, Pow2(z), id - Acc(z), 0, 0) IN << z, p[1], p[2] >>

Abs(v) == IF v < 0 THEN -v ELSE v
ThmBijection(maxz) ==
    \A z \in 0..maxz :
        /\ \A x \in 0..(Pow2(z) - 1), y \in 0..(Pow2(z) - 1) :
              LET id == XY2D(z, x, y) IN Acc(z) <= id /\ id < Acc(z + 1) /\ D2XY(id) = << z, x, y >>
        /\ \A id \in Acc(z)..(Acc(z + 1) - 1) : LET c == D2XY(id) IN c[1] = z /\ XY2D(c[1], c[2], c[3]) = id
ThmAdjacent(maxz) ==
    \A z \in 1..maxz : \A id \in Acc(z)..(Acc(z + 1) - 2) :
        LET a == D2XY(id)  b == D2XY(id + 1) IN Abs(a[2] - b[2]) + Abs(a[3] - b[3]) = 1

(************************** directories and runs **************************)
\* an entry is [id, run]; run = 0 marks a pointer to a leaf directory that covers everything up to the next entry
SortedDisjoint(es) ==
    \A i \in 1..(Len(es) - 1) : es[i].id + (IF es[i].run = 0 THEN 1 ELSE es[i].run) <= es[i + 1].id

\* the published rule: the last entry whose id is <= the wanted id covers it if it is a leaf pointer or the id is in its run
Covering(es, id) ==
    LET le == {i \in 1..Len(es) : es[i].id <= id} IN
    IF le = {} THEN 0
    ELSE LET i == CHOOSE j \in le : \A k \in le : k <= j IN
         IF es[i].run = 0 \/ id - es[i].id < es[i].run THEN i ELSE 0

\* EntriesV3::find_tile (0 = None; indices are 1-based here, m..n is the search window)
RECURSIVE Search(_, _, _, _)
Search(es, id, m, n) ==
    IF m > n THEN << 0, n >>                            \* not found: n is the predecessor (0 = none)
    ELSE LET k == (n + m) \div 2 IN
         IF id > es[k].id THEN Search(es, id, k + 1, n)
         ELSE IF id < es[k].id THEN Search(es, id, m, k - 1)
         ELSE << k, k >>
FindTile(es, id) ==
    LET r == Search(es, id, 1, Len(es)) IN
    IF r[1] # 0 THEN r[1]
    ELSE IF r[2] >= 1 /\ (es[r[2]].run = 0 \/ id - es[r[2]].id < es[r[2]].run) THEN r[2] ELSE 0

ThmFindTile(es, ids) == SortedDisjoint(es) => \A id \in ids : FindTile(es, id) = Covering(es, id)

\* the tiles a run stands for, and the box of a level they span
RunTiles(e) == { D2XY(e.id + k) : k \in 0..((IF e.run = 0 THEN 1 ELSE e.run) - 1) }
HullOf(S) == IF S = {} THEN <<>>
             ELSE << CHOOSE v \in {c[2] : c \in S} : \A c \in S : v <= c[2], CHOOSE v \in {c[3] : c \in S} : \A c \in S : v <= c[3],
                     CHOOSE v \in {c[2] : c \in S} : \A c \in S : v >= c[2], CHOOSE v \in {c[3] : c \in S} : \A c \in S : v >= c[3] >>
\* the end points of a run do NOT determine its box (why a reader may not take a short cut there): witness on level 1
ThmEndPointsNotEnough ==
    LET e == [id |-> Acc(1), run |-> 4] IN
    HullOf(RunTiles(e)) # HullOf({D2XY(e.id), D2XY(e.id + e.run - 1)})
=============================================================================
