---------------------------------- MODULE VPL ----------------------------------
(***************************************************************************)
(* C18 -- the VersaTiles Pipeline Language.                                 *)
(*                                                                         *)
(* Abstract syntax:                                                         *)
(*   pipeline = non-empty sequence of nodes                                 *)
(*   node     = [name, params, sources]                                     *)
(*   params   = sequence of <<key, values>> with distinct keys, values a    *)
(*              non-empty sequence of strings (one string = scalar)         *)
(*   sources  = sequence of pipelines                                       *)
(* Concrete syntax (documented): nodes separated by '|'; name followed by   *)
(* key=value parameters; a value is bare (letters, digits, '.', '-', '_'),  *)
(* quoted with the escapes \" \\ \n \t, or a bracketed comma list of those;  *)
(* sources in brackets separated by commas; whitespace and line breaks      *)
(* anywhere between tokens.  Render(ast, ch) produces ONE such text for a   *)
(* rendering choice ch; the property is Parse(Render(ast, ch)) = ast.       *)
(***************************************************************************)
EXTENDS Naturals, Sequences, FiniteSets, TLC

\* characters a bare value may consist of are fixed per value by the case generator: `bare' says whether
\* the value is legal without quotes (non-empty, only letters/digits/.-_)
\* a value is a record [s: the string, q: its quoted form, bare: BOOLEAN]
Quoted(v) == "\"" \o v.q \o "\""
RenderScalar(v, style) == IF v.bare /\ style = "min" THEN v.s ELSE Quoted(v)

RECURSIVE JoinVals(_, _, _)
JoinVals(vs, style, sep) ==
    IF vs = <<>> THEN ""                                   \* the empty list: `[]', `[ ]', ...
    ELSE IF Len(vs) = 1 THEN RenderScalar(vs[1], style)
    ELSE RenderScalar(vs[1], style) \o sep \o JoinVals(Tail(vs), style, sep)

\* ch = [ws: whitespace used where it is optional, gap: whitespace used where some is required,
\*       style: "min" | "quoted" | "brackets"]
RenderValue(vs, ch) ==
    IF Len(vs) = 1 /\ ch.style # "brackets" THEN RenderScalar(vs[1], ch.style)
    ELSE "[" \o ch.ws \o JoinVals(vs, ch.style, ch.ws \o "," \o ch.ws) \o ch.ws \o "]"

\* style "split": a key may be given several times in one operation, its values are appended in order --
\* `k=a k=b' describes the same operation as `k=[a,b]'
RECURSIVE RenderSplit(_, _, _)
RenderSplit(k, vs, ch) ==
    ch.gap \o k \o ch.ws \o "=" \o ch.ws \o RenderScalar(vs[1], "quoted") \o (IF Len(vs) = 1 THEN "" ELSE RenderSplit(k, Tail(vs), ch))
RECURSIVE RenderParams(_, _), RenderPipeline(_, _), RenderNode(_, _), RenderSources(_, _)
RenderParams(ps, ch) ==
    IF ps = <<>> THEN ""
    ELSE (IF ch.style = "split" /\ Len(ps[1][2]) >= 2 THEN RenderSplit(ps[1][1], ps[1][2], ch)
          ELSE ch.gap \o ps[1][1] \o ch.ws \o "=" \o ch.ws \o RenderValue(ps[1][2], ch)) \o RenderParams(Tail(ps), ch)
RenderSources(ss, ch) ==
    IF Len(ss) = 1 THEN RenderPipeline(ss[1], ch)
    ELSE RenderPipeline(ss[1], ch) \o "," \o RenderSources(Tail(ss), ch)
RenderNode(n, ch) ==
    ch.ws \o n.name \o RenderParams(n.params, ch) \o
    (IF n.sources = <<>> THEN "" ELSE ch.ws \o "[" \o ch.ws \o RenderSources(n.sources, ch) \o ch.ws \o "]") \o ch.ws
RenderPipeline(p, ch) ==
    IF Len(p) = 1 THEN RenderNode(p[1], ch)
    ELSE RenderNode(p[1], ch) \o "|" \o RenderPipeline(Tail(p), ch)

(* what a parser must return, in the shape the harness serialises the real syntax tree:
   node = [name, params: sequence of <<key, sequence of strings>> (compared as a set), sources] *)
RECURSIVE AstPipeline(_), AstNode(_)
AstNode(n) == [name |-> n.name,
               params |-> {<<n.params[i][1], [j \in 1..Len(n.params[i][2]) |-> n.params[i][2][j].s]>> : i \in 1..Len(n.params)},
               sources |-> [i \in 1..Len(n.sources) |-> AstPipeline(n.sources[i])]]
AstPipeline(p) == [i \in 1..Len(p) |-> AstNode(p[i])]

RECURSIVE NormPipeline(_), NormNode(_)
NormNode(n) == [name |-> n.name, params |-> {n.params[i] : i \in 1..Len(n.params)},
                sources |-> [i \in 1..Len(n.sources) |-> NormPipeline(n.sources[i])]]
NormPipeline(p) == [i \in 1..Len(p) |-> NormNode(p[i])]

Fails(name, ok) == IF ok THEN {} ELSE {name}
(* judging: r.kind = "wellformed": the real parser must accept and return exactly the tree;
            r.kind = "malformed" / "badbuild": parse (resp. build) must return an error, not a value, not a panic *)
VplFails(r) ==
    CASE r.kind = "wellformed" ->
            Fails("parse_accepts", r.parsed.ok = 1) \cup
            (IF r.parsed.ok = 0 THEN {} ELSE Fails("parse_tree", NormPipeline(r.parsed.tree) = AstPipeline(r.ast)))
      [] r.kind = "malformed" -> Fails("rejects_malformed", r.parsed.ok = 0 /\ r.parsed.panic = 0)
      [] r.kind = "badbuild" -> Fails("rejects_at_build", r.built.ok = 0 /\ r.built.panic = 0)
      [] r.kind = "goodbuild" -> Fails("builds", r.built.ok = 1)
=============================================================================
