----------------------------- MODULE Compression -----------------------------
(***************************************************************************)
(* Codec algebra (C04, C05).  Enc(c, p) is an uninterpreted constructor:    *)
(* a blob is <<codec, payload>>; Dec(c, <<c, p>>) = p and fails otherwise   *)
(* (decoding with the wrong codec is "Fail").  gzip/brotli themselves are   *)
(* trusted; what is decided is WHICH codec is applied WHERE versus what is  *)
(* DECLARED.                                                                *)
(***************************************************************************)
EXTENDS Naturals, Sequences, FiniteSets, TLC

Codec == {"none", "gzip", "brotli"}
Fail == <<"fail">>

Enc(c, blob) == IF c = "none" THEN blob ELSE <<c, blob>>          \* blob: payload or already encoded blob
Dec(c, blob) == IF c = "none" THEN blob
                ELSE IF blob # Fail /\ Len(blob) = 2 /\ blob[1] = c THEN blob[2] ELSE Fail

(* transcription of TileConverter::new_tile_recompressor: a pipeline of steps *)
RecompressorSteps(src, dst, force) ==
    IF force \/ src # dst
    THEN (IF src = "none" THEN <<>> ELSE <<[op |-> "un", c |-> src]>>) \o
         (IF dst = "none" THEN <<>> ELSE <<[op |-> "en", c |-> dst]>>)
    ELSE <<>>
RECURSIVE Apply(_, _)
Apply(steps, blob) ==
    IF steps = <<>> THEN blob
    ELSE LET s == Head(steps) IN
         Apply(Tail(steps), IF blob = Fail THEN Fail ELSE IF s.op = "un" THEN Dec(s.c, blob) ELSE Enc(s.c, blob))

\* target: "keep" or a codec
DeclaredOut(src, target) == IF target = "keep" THEN src ELSE target

(* THE PROPERTY (C04): the output tile decoded with the DECLARED output codec is the source payload *)
ThmRecompress ==
    \A src \in Codec, target \in Codec \cup {"keep"}, force \in BOOLEAN :
        LET dst == DeclaredOut(src, target)
            out == Apply(RecompressorSteps(src, dst, force), Enc(src, <<"payload">>))
        IN Dec(dst, out) = <<"payload">>

(* (C05: the transcription of optimize_compression is OptimizeModel in Server.tla, with theorem ThmOptimize.) *)
=============================================================================
