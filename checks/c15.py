"""C15 — tile boxes / pyramids / geo mapping (spec/BBox.tla, Geo.tla, mc/MC_C15, trace/Trace_C15)."""
import json
import os

from . import common as C


def _split_failures(run, fails, events, source):
    # one failure record per failed clause so that known findings match a specific operation
    for (line, fl) in fails:
        for clause in fl["clauses"]:
            rec = {"clause": clause, "source": source, "line": line, "ev": fl["ev"]}
            ev = fl["ev"]
            rec["op"] = ev.get("ev")
            if ev.get("ev") in ("box", "pair", "inccoord", "rt"):
                rec["level"] = ev["a"][0]
            if clause == "geo_tight":
                # C15 asks for a non-empty tile box that COVERS the geographic box up to the guard; a box that is wider than
                # necessary still does: an observation
                run.observation("geo_tight", {"ev": ev})
                continue
            run.failure(rec)


def run(tier, seed, replay):
    run = C.Run("C15", tier, seed, "model_checking")
    d = C.outdir("C15")
    hb = C.build_harness()
    cases = os.path.join(d, "cases.ndjson")
    mc = None
    if replay:
        rec = json.load(open(replay))
        with open(cases, "w") as f:
            for fl in rec["failures"]:
                if fl.get("case"):
                    f.write(json.dumps(fl["case"]) + "\n")
    else:
        mc = C.run_tlc("mc/MC_C15.tla", "mc/MC_C15_%s.cfg" % tier, "C15_mc", workers=8, replay_out=cases, timeout=1500)
        C.require_clean(mc, "MC_C15 (laws of BBox.tla / Geo.tla on the exhaustive scope)")
        run.add_tlc(mc)
    t1 = os.path.join(d, "trace_replay.ndjson")
    s1 = C.run_harness(hb, ["replay", "C15", cases, t1])
    v1 = C.validate_trace("trace/Trace_C15.tla", "trace/Trace_C15.cfg", "C15_trace_replay", t1, timeout=2400)
    run.add_tlc(v1)
    _split_failures(run, v1.fails, None, "replay")
    run.evaluations += s1["events"]
    run.traces += s1["events"] - len(v1.fails)
    s2 = {"events": 0, "cases": 0, "samples": []}
    if not replay:
        t2 = os.path.join(d, "trace_random.ndjson")
        s2 = C.run_harness(hb, ["record", "C15", t2])
        v2 = C.validate_trace("trace/Trace_C15.tla", "trace/Trace_C15.cfg", "C15_trace_random", t2, timeout=2400)
        run.add_tlc(v2)
        _split_failures(run, v2.fails, None, "random")
        run.evaluations += s2["events"]
        run.traces += s2["events"] - len(v2.fails)
    # non-trivial: pairs with one empty operand or partial overlap (counted on the enumerated cases)
    nontrivial = set()
    samples = []
    for c in C.read_ndjson(cases):
        if c["k"] == "pair":
            a, b = c["a"], c["b"]
            ea = a[3] < a[1] or a[4] < a[2]
            eb = b[3] < b[1] or b[4] < b[2]
            partial = (not ea and not eb and a != b
                       and a[1] <= b[3] and b[1] <= a[3] and a[2] <= b[4] and b[2] <= a[4])
            if ea != eb or partial:
                nontrivial.add(json.dumps(c))
                if len(samples) < 3 and partial:
                    samples.append(c)
        elif c["k"] == "geo":
            g = c["g"]
            if g["w"] == g["e"] or g["n"] == g["s"] or g["w"][1] in (1, 4, 1999996, 1999999):
                nontrivial.add(json.dumps(c))
                if len(samples) < 5 and g["w"] == g["e"]:
                    samples.append(c)
    run.nontrivial = len(nontrivial)
    run.samples = samples + s2.get("samples", [])[:2]
    run.rule = ("TLC enumerates every box (all empty encodings) of levels 0..MaxL, every pair of levels 0..MaxPairL, "
                "geo boxes with corners on the guard-fraction grid and two-level pyramids (see .cfg); each is executed on "
                "the real types and the result judged by denotation in Trace_C15; random: boxes/pairs/pyramids at levels "
                "4..31 with border and block-aligned coordinates. non-trivial = distinct enumerated pair with exactly one "
                "empty operand or a partial overlap, or geo box that is degenerate or has a corner within the rounding guard")
    run.exhaustive = mc is not None
    run.extra = {"replay_events": s1["events"], "boxes": s1.get("boxes"), "pairs": s1.get("pairs"),
                 "geo_cases": s1.get("geo"), "pyramid_cases": s1.get("pyramids"),
                 "random_events": s2["events"],
                 "mc_constants": open(os.path.join(C.SPEC, "mc/MC_C15_%s.cfg" % tier)).read().split("INVARIANT")[0].strip()}
    run.assumptions = ["f64 inverse Mercator of the harness is exact to ~1e-10 tiles for levels <= 16 (guard is 1e-6)",
                       "TLC integers are 32 bit: widths/indices judged up to level 30, level 31 for interval operations only",
                       "geo round trip judged for levels <= 24"]
    return run.finish()
