"""C02 — container family (writer origin)."""
from . import containers


def run(tier, seed, replay):
    return containers.run_family("C02", tier, seed, replay)
