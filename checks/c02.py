"""C02 — a box stream equals the lookups inside the box, for every kind of tile source: the five container readers
(spec/Container.tla, StreamFails), the converting reader (Converter.tla, clause stream) and pipeline operations incl.
nested overlays and filter chains (Pipeline.tla, clauses stream / stream_sem) and the vector-tile operations (VectorTile.tla,
clause vt_stream_eq_lookup)."""
from . import common as C
from . import containers, pipelines, c06, vtiles


def run(tier, seed, replay):
    run = C.Run("C02", tier, seed, "model_checking")
    containers.run_family("C02", tier, seed, replay, run=run, finish=False)
    stages = [("mc/MC_C08.tla", "mc/MC_C08_three.cfg"), ("mc/MC_C08.tla", "mc/MC_C08_nested.cfg"),
              ("mc/MC_C09.tla", "mc/MC_C09_%s.cfg" % tier)]

    def nontrivial(c):
        return len(c["sources"]) >= 2 and c["tree"]["op"] != "leaf"
    pipelines.run_pipes("C02", tier, seed, replay, stages,
                        "pipeline operations: overlays of 3 sources (flat and nested: the inner overlay announces the hull of its sources), "
                        "filter_zoom / filter_bbox chains over a leaf or an overlay; converting reader: every 8th (thorough: every) "
                        "conversion case of MC_C06; only the stream clauses are collected here", nontrivial, run=run, finish=False)
    c06.converter_stream_stage(run, "C02", tier, replay, 1 if tier == "thorough" else 8)
    nvt = vtiles.vt_stream_stage(run, tier, C.build_harness(), replay)
    if not replay:
        run.extra.update({"vector_tile_operation_cases (merge / update: stream = lookup for the coordinate)": nvt})
    return run.finish()
