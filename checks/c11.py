"""C11 — vectortiles_update_properties and decode/re-encode identity."""
from . import vtiles


def run(tier, seed, replay):
    def nontrivial(c):
        return c["variant"] != 0 or c["opts"]["replace"] == 1 or c["opts"]["remove"] == 1
    rule = ("TLC enumerates tiles (layer a with 1..4 features with/without the id field, ids none/0/2^64-1/4, geometry types 0..3; layer b "
            "that must stay untouched) x data tables (1-2 rows, string and numeric ids) x 8 option combinations x table encoding variants "
            "(reversed, duplicate entries, unused entries, alternative integer wire types); the real operation is built from VPL with a CSV "
            "file; lookup, stream and plain decode/re-encode results are decoded independently and judged by TLC. non-trivial = non-minimal "
            "table encoding, replace or remove option")
    return vtiles.run_vt("C11", tier, seed, replay, ("update_", "reencode_"), rule, nontrivial)
