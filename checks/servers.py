"""Shared driver for the HTTP server checks C05 (tiles) and C07 (static): spec/Server.tla, mc/MC_Server, trace/Trace_Server."""
import json
import os

from . import common as C


def run_server(prop, mode, tier, seed, replay, rule, nontrivial):
    run = C.Run(prop, tier, seed, "model_checking")
    d = C.outdir(prop)
    hb = C.build_harness()
    vb = C.build_binary()
    cases = os.path.join(d, "cases.ndjson")
    mc = None
    if replay:
        rec = json.load(open(replay))
        with open(cases, "w") as f:
            for fl in rec["failures"]:
                if fl.get("replay_case"):
                    f.write(json.dumps(fl["replay_case"]) + "\n")
    else:
        mc = C.run_tlc("mc/MC_Server.tla", "mc/MC_%s_%s.cfg" % (prop, tier), prop + "_mc", workers=8, replay_out=cases, timeout=2400)
        C.require_clean(mc, "MC_Server (%s)" % mode)
        run.add_tlc(mc)
    case_list = C.read_ndjson(cases)
    t = os.path.join(d, "trace.ndjson")
    s = C.run_harness(hb, ["server", mode, vb, cases, t, C.scratch_dir(prop)], timeout=6000)
    v = C.validate_trace("trace/Trace_Server.tla", "trace/Trace_Server.cfg", prop + "_trace", t, timeout=3000, heap="12g")
    run.add_tlc(v)
    for (line, fl) in v.fails:
        for cl in fl["clauses"]:
            q = fl["q"]
            if cl.startswith("tilesjson"):
                continue      # the served tiles.json is judged for C17 (checks/c17.py runs the same stage)
            if cl == "dropped_connection" and prop == "C07":
                # C07 is about WHAT is served; a connection that is dropped serves nothing (complete responses are C05's clause)
                run.observation("dropped_connection", {"target": fl["target"]})
                continue
            if cl == "plain_inside_not_served":
                # not a clause of C07 (a server that serves nothing leaves no root either) but the check would be vacuous:
                # reported as an observation
                run.observation(cl, {"target": fl["target"], "resp": fl["resp"]})
                continue
            if cl.startswith("api_"):
                run.observation(cl, {"target": fl["target"], "index": q.get("index"), "ids": q.get("ids"), "status": q.get("status"), "unknown": q.get("unknown")})
                continue
            rec = {"clause": cl, "target": fl["target"], "resp": fl["resp"], "q": q, "src": q["src"]["id"]}
            if "flags" in q:
                rec["flip"] = q["flags"]["flip"]
                rec["fmt"] = q["src"].get("fmt")
            if line - 1 < len(case_list):
                rec["replay_case"] = case_list[line - 1]
            run.failure(rec)
    run.traces += 1
    run.evaluations += s["cases"]
    nt = [c for c in case_list if nontrivial(c)]
    run.nontrivial = len(nt)
    run.samples = [{k: c[k] for k in c if k not in ("tiles",)} for c in nt[:3]]
    run.exhaustive = mc is not None
    run.rule = rule
    run.extra = {"requests": s["cases"], "dropped_connections": s["dropped"], "responses_200": s.get("status_200", s.get("served"))}
    run.assumptions = ["raw TCP client of the harness (no normalisation of the request target); bodies decoded with flate2/brotli"]
    return run.finish()
