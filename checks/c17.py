"""C17 — JSON round trips; containers hand back their TileJSON (spec/Json17.tla, mc/MC_C17, trace/Trace_C17)."""
import json
import os

from . import common as C


def tilejson_object_stage(run, tier, hb, d):
    """The TileJSON document as a state machine (spec/TileJson.tla): beyond the listed properties -> observations only."""
    cases = os.path.join(d, "tj_cases.ndjson")
    mc = C.run_tlc("mc/MC_TileJson.tla", "mc/MC_TileJson_%s.cfg" % tier, "C17_mc_tilejson", workers=4, replay_out=cases, timeout=1200)
    C.require_clean(mc, "MC_TileJson (laws of merge / limit + every history of mutator calls)")
    run.add_tlc(mc)
    t = os.path.join(d, "tj_trace.ndjson")
    s = C.run_harness(hb, ["replay", "TILEJSON", cases, t], timeout=1200)
    v = C.validate_trace("trace/Trace_TileJson.tla", "trace/Trace_TileJson.cfg", "C17_trace_tilejson", t, timeout=1200)
    run.add_tlc(v)
    by = {}
    for (line, fl) in v.fails:
        by.setdefault(fl["clauses"][0], []).append(fl)
    for cl, fls in sorted(by.items()):
        run.observation(cl, {"what": "a recorded call on the real TileJSON object is not the documented step of TileJson.tla",
                             "count": len(fls), "first": {k: fls[0].get(k) for k in ("case", "op", "err", "differs", "observed")}})
    # binding self-test: four corrupted records must be rejected
    recs = C.read_ndjson(t)
    ops = [i for i, r in enumerate(recs) if r["ev"] == "Op" and r["doc"]["layers"] and r["doc"]["bounds"] and any(p[0] == "maxzoom" and p[1] == "b" for p in r["doc"]["vals"])][:4]
    if len(ops) < 4:
        run.observation("tilejson_selftest_skipped", {"what": "fewer than 4 recorded steps with layers, bounds and a byte maxzoom", "found": len(ops)})
    if len(ops) == 4:
        def mut(i, f):
            r = json.loads(json.dumps(recs[i]))
            f(r)
            return r
        bad = [mut(ops[0], lambda r: [p.__setitem__(2, (p[2] + 1) % 256) for p in r["doc"]["vals"] if p[0] == "maxzoom" and p[1] == "b"]),
               mut(ops[1], lambda r: r["doc"]["layers"].pop()),
               mut(ops[2], lambda r: r["doc"]["bounds"].__setitem__(0, r["doc"]["bounds"][0] - 1000000)),
               mut(ops[3], lambda r: r.__setitem__("ok", 0))]
        ct = os.path.join(d, "tj_corrupted.ndjson")
        with open(ct, "w") as f:
            for i, b in zip(ops, bad):
                # the record before it (the state the step starts from) followed by the corrupted record
                pre = recs[i - 1]
                f.write(json.dumps(pre) + "\n" + json.dumps(b) + "\n")
        cv = C.validate_trace("trace/Trace_TileJson.tla", "trace/Trace_TileJson.cfg", "C17_trace_tilejson_corrupted", ct, timeout=600)
        rejected = {line for (line, _) in cv.fails if line % 2 == 0}
        if len(rejected) != 4:
            raise C.ToolError("self-test: 4 corrupted TileJSON records, %d rejected" % len(rejected))
    return {"histories": s["cases"], "steps_validated": s["steps"], "steps_not_as_documented": len(v.fails),
            "corrupted_records_rejected": 4 if len(ops) == 4 else None}


def run(tier, seed, replay):
    run = C.Run("C17", tier, seed, "model_checking")
    d = C.outdir("C17")
    hb = C.build_harness()
    cases = os.path.join(d, "cases.ndjson")
    mc = None
    if replay:
        rec = json.load(open(replay))
        with open(cases, "w") as f:
            for fl in rec["failures"]:
                if fl.get("replay_case"):
                    f.write(json.dumps(fl["replay_case"]) + "\n")
    else:
        mc = C.run_tlc("mc/MC_C17.tla", "mc/MC_C17_%s.cfg" % tier, "C17_mc", workers=8, replay_out=cases, timeout=2400)
        C.require_clean(mc, "MC_C17 (unescape automaton sanity + value enumeration)")
        run.add_tlc(mc)
    case_list = C.read_ndjson(cases)
    t = os.path.join(d, "trace.ndjson")
    s = C.run_harness(hb, ["replay", "C17", cases, t, C.scratch_dir("C17")], timeout=3000)
    v = C.validate_trace("trace/Trace_C17.tla", "trace/Trace_C17.cfg", "C17_trace", t, timeout=3000, heap="12g")
    run.add_tlc(v)
    for (line, fl) in v.fails:
        for cl in fl["clauses"]:
            c = fl["case"]
            rec = {"clause": cl, "kind": c["ev"], "fmt": c.get("fmt", ""), "case": {k: c[k] for k in c if k not in ("text",)}}
            if line - 1 < len(case_list):
                rec["replay_case"] = case_list[line - 1]
            elif c.get("tiles_stored"):
                # a PMTiles root-limit case: the document of the first PMTiles case next to the first k tiles of the boundary family
                tmpl = next((x for x in case_list if x["k"] == "tilejson" and x["fmt"] == "pmtiles" and x["doc"].get("vl") == 1), None)
                if tmpl is not None:
                    rec["replay_case"] = dict(tmpl, cov=[8, 8], root_limit_tiles=c["tiles_stored"])
            run.failure(rec)
    run.traces += s["cases"]
    run.evaluations += s["cases"]
    # served tiles.json: the real binary, every source x server instance (clauses tilesjson_* of Server.tla)
    if not replay:
        vb = C.build_binary()
        scases = os.path.join(d, "cases_server.ndjson")
        allc = os.path.join(d, "cases_server_all.ndjson")
        mcs = C.run_tlc("mc/MC_Server.tla", "mc/MC_C05_quick.cfg", "C17_mc_server", workers=8, replay_out=allc, timeout=1200)
        C.require_clean(mcs, "MC_Server")
        seen = set()
        with open(scases, "w") as f:
            for c in C.read_ndjson(allc):
                key = (c["inst"], c["src"]["id"])
                if key not in seen and c["z"]["txt"] == "0":
                    seen.add(key)
                    f.write(json.dumps(c) + "\n")
        ts = os.path.join(d, "trace_server.ndjson")
        ss = C.run_harness(hb, ["server", "TILES", vb, scases, ts, C.scratch_dir("C17s")], timeout=3000)
        vs = C.validate_trace("trace/Trace_Server.tla", "trace/Trace_Server.cfg", "C17_trace_server", ts, timeout=1200)
        run.add_tlc(vs)
        for (line, fl) in vs.fails:
            for cl in fl["clauses"]:
                is_tj = fl["q"]["z"]["txt"] == "tiles.json"
                if cl == "tilesjson_format":
                    run.observation("tilesjson_format", {"target": fl["target"]})      # a versatiles extension, not named by C17
                elif cl.startswith("tilesjson") or (cl == "dropped_connection" and is_tj):
                    run.failure({"clause": cl, "kind": "tilesjson", "fmt": fl["q"]["src"].get("fmt", ""), "case": fl})
        run.evaluations += len(seen)
        run.extra_served = len(seen)
    tjobj = None
    if not replay:
        try:                                     # beyond the property: whatever happens in this stage is an observation
            tjobj = tilejson_object_stage(run, tier, hb, d)
        except Exception as e:                   # noqa: BLE001
            run.observation("tilejson_stage_error", {"what": str(e)[:300]})
            tjobj = {"error": str(e)[:300]}
    special = {34, 92, 0, 8, 10, 12, 31, 127, 133, 8232, 65535, 128512}
    nt = [c for c in case_list if c["k"] == "tilejson" or (c["value"]["t"] == "s" and special & set(c["value"]["v"])) or c["value"]["t"] in ("a", "o")]
    run.nontrivial = len(nt)
    run.samples = nt[:3] + [c for c in case_list if c["k"] == "tilejson"][:1]
    run.exhaustive = mc is not None
    run.rule = ("TLC enumerates every string of length <= MaxLen over 16 representative code points (quote, backslash, slash, C0/C1 controls, "
                "DEL, U+2028, U+FFFF, non-BMP, ...), 13 number shapes, arrays/objects of depth <= 2; the stringify text is validated by the "
                "TLA+ unescape automaton (strings) and parsed back by the real parser and by serde_json, all three trees judged by TLC; TileJSON "
                "documents (string/list/byte values, bounds, center, vector_layers) x coverage classes x {versatiles, pmtiles, tar, directory} "
                "are written by the real writers and read back. non-trivial = string with a character that needs care, composite value, or "
                "TileJSON container case")
    run.extra = {"cases": s["cases"], "pmtiles_root_limit_cases (document next to tile sets at the writer's root-directory limit)": s.get("pmtiles_root_limit_cases"),
                 "served_tiles_json_documents": getattr(run, "extra_served", 0),
                 "tilejson_object_state_machine (beyond the property; observations only)": tjobj}
    run.assumptions = ["serde_json is the independent standard parser", "numbers are compared as f64 values (canonical {:e} text)",
                       "the served tiles.json is fetched from the real binary for every source x server instance (Server.tla TilesJsonFails)"]
    return run.finish()
