"""Shared driver for the pipeline checks C08 / C09 (spec/Pipeline.tla, trace/Trace_Pipeline)."""
import json
import os

from . import common as C

CLAUSES = {
    # (which compression an operation DECLARES is not prescribed -- delivered bytes are identified by decoding with whatever
    #  is declared, so a wrong declaration shows as a lookup / stream failure; a mismatch with the model's Decl is an observation)
    "C08": {"build", "overlay_coverage", "cov_contains", "lookup", "stream_sem", "stream"},
    # (C09 does not prescribe the advertised coverage of a filter, only C03's containment: an exact-formula mismatch is an
    #  observation, not a violation)
    "C09": {"build", "build_error", "cov_contains", "lookup", "stream_sem", "stream"},
    "C03": {"cov_contains"},               # C03 over pipeline operations: returned tiles lie inside the advertised coverage
    "C02": {"stream_sem", "stream"},       # C02 over pipeline operations: the stream clauses only
}


def run_pipes(prop, tier, seed, replay, stages, rule, nontrivial, run=None, finish=True):
    chained = run is not None
    run = run or C.Run(prop, tier, seed, "model_checking")
    d = C.outdir(prop + ("_pipes" if chained else ""))
    hb = C.build_harness()
    cases = os.path.join(d, "cases.ndjson")
    any_mc = False
    if replay:
        rec = json.load(open(replay))
        with open(cases, "w") as f:
            for fl in rec["failures"]:
                if fl.get("replay_case") and fl["replay_case"].get("k") == "pipe":
                    f.write(json.dumps(fl["replay_case"]) + "\n")
    else:
        open(cases, "w").close()
        for i, (mod, cfg) in enumerate(stages):
            part = os.path.join(d, "cases_%d.ndjson" % i)
            mc = C.run_tlc(mod, cfg, "%s_mc%d" % (prop, i), workers=8, replay_out=part, timeout=2400)
            C.require_clean(mc, "%s with %s" % (mod, cfg))
            run.add_tlc(mc)
            any_mc = True
            with open(cases, "a") as f:
                f.write(open(part).read())
    case_list = C.read_ndjson(cases)
    # every 40th case additionally with real container files as sources (versatiles / mbtiles alternating)
    if not replay:
        extra = []
        for i, c in enumerate(case_list):
            if i % 40 == 0 and not c.get("invalid"):
                c2 = dict(c)
                c2["files"] = ["versatiles", "mbtiles", "pmtiles", "tar"][(i // 40) % 4]
                extra.append(c2)
        case_list += extra
        with open(cases, "w") as f:
            for c in case_list:
                f.write(json.dumps(c) + "\n")
    t = os.path.join(d, "trace.ndjson")
    s = C.run_harness(hb, ["replay", "PIPELINE", cases, t, C.scratch_dir(prop)], timeout=6000)
    v = C.validate_trace("trace/Trace_Pipeline.tla", "trace/Trace_Pipeline.cfg", prop + "_trace", t, timeout=3000, heap="12g")
    run.add_tlc(v)
    for (line, fl) in v.fails:
        for cl in fl["clauses"]:
            if cl == "declared":
                run.observation("declared_compression", {"vpl": fl["case"]["vpl"], "declared": fl["case"].get("declared")})
                continue
            if cl == "coverage":
                run.observation("coverage_formula", {"what": "the advertised coverage differs from source coverage /\\ filter box "
                                                     "(the model's formula; the properties ask for containment -- C03 -- and, for overlays, the union of the sources' advertised coverages -- clause overlay_coverage)", "vpl": fl["case"]["vpl"], "cov": fl["case"].get("cov")})
                continue
            if cl not in CLAUSES[prop]:
                continue
            c = fl["case"]
            rec = {"clause": cl, "vpl": c["vpl"], "files": c["files"], "invalid": c["invalid"], "case": c}
            if line - 1 < len(case_list):
                rec["replay_case"] = case_list[line - 1]
            run.failure(rec)
    run.traces += s["cases"]
    run.evaluations += s["cases"]
    nt = [c for c in case_list if nontrivial(c)]
    if chained:
        run.nontrivial += len(nt)
        run.samples = run.samples[:3] + nt[:2]
        run.rule += " || " + rule
        run.extra.update({"pipeline_cases": s["cases"]})
        return run
    run.nontrivial = len(nt)
    run.samples = nt[:3]
    run.exhaustive = any_mc
    run.rule = rule
    run.extra = {"cases": s["cases"], "cases_with_real_container_files_as_sources": len([c for c in case_list if c.get("files")])}
    run.assumptions = ["delivered bytes are identified by decoding with the DECLARED codec and comparing with the sources' raw payloads"]
    return run.finish() if finish else run
