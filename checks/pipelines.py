"""Shared driver for the pipeline checks C08 / C09 (spec/Pipeline.tla, trace/Trace_Pipeline)."""
import json
import os

from . import common as C

CLAUSES = {
    # (which compression an operation DECLARES is not prescribed -- delivered bytes are identified by decoding with whatever
    #  is declared, so a wrong declaration shows as a lookup / stream failure; a mismatch with the model's Decl is an observation)
    "C08": {"build", "overlay_coverage", "cov_contains", "lookup", "stream_sem", "stream"},
    # (C09 does not prescribe the advertised coverage of a filter, only C03's containment: an exact-formula mismatch is an
    #  observation, not a violation)
    "C09": {"build", "build_error", "cov_contains", "lookup", "stream_sem", "stream"},
    "C03": {"cov_contains"},               # C03 over pipeline operations: returned tiles lie inside the advertised coverage
    # C02 over pipeline operations: the stream against the LOOKUPS (r.expect); the stream against the model's semantics
    # (stream_sem) is C08's / C09's matter -- an operation that is wrong in lookup and stream alike keeps C02
    "C02": {"stream"},
}


# which operations a property is about.  A failing case is attributed like this:
#   tree made of the property's operations only (over leaves)      -> every clause of the property, judged absolutely (Sem)
#   tree mixing them with other operations, ROOT is the property's  -> only the RELATIONAL clauses: the root against what its direct
#                                                                     children were observed to deliver (Pipeline.tla RootOwes)
#   otherwise                                                      -> not this property's matter
# and every non-leaf direct child of a mixed tree is run as a case of its own, so nothing goes unjudged.
OWN_OPS = {"C08": {"overlay"}, "C09": {"zoom", "bbox"}}
RELATIONAL = {"C08": {"rel_lookup", "rel_stream", "rel_build", "overlay_coverage"}, "C09": {"rel_lookup", "rel_stream", "rel_build"}}


def tree_ops(t, acc=None):
    acc = set() if acc is None else acc
    if isinstance(t, dict):
        if t.get("op") not in (None, "leaf", "debug"):
            acc.add(t["op"])
        if isinstance(t.get("src"), dict):
            tree_ops(t["src"], acc)
        for x in t.get("srcs") or []:
            tree_ops(x, acc)
    return acc


def run_pipes(prop, tier, seed, replay, stages, rule, nontrivial, run=None, finish=True):
    chained = run is not None
    run = run or C.Run(prop, tier, seed, "model_checking")
    d = C.outdir(prop + ("_pipes" if chained else ""))
    hb = C.build_harness()
    cases = os.path.join(d, "cases.ndjson")
    any_mc = False
    if replay:
        rec = json.load(open(replay))
        with open(cases, "w") as f:
            for fl in rec["failures"]:
                if fl.get("replay_case") and fl["replay_case"].get("k") == "pipe":
                    f.write(json.dumps(fl["replay_case"]) + "\n")
    else:
        open(cases, "w").close()
        for i, (mod, cfg) in enumerate(stages):
            part = os.path.join(d, "cases_%d.ndjson" % i)
            mc = C.run_tlc(mod, cfg, "%s_mc%d" % (prop, i), workers=8, replay_out=part, timeout=2400)
            C.require_clean(mc, "%s with %s" % (mod, cfg))
            run.add_tlc(mc)
            any_mc = True
            with open(cases, "a") as f:
                f.write(open(part).read())
    case_list = C.read_ndjson(cases)
    # every non-leaf direct child of a tree mixing overlays and filters is a case of its own
    if not replay:
        seen = {json.dumps(c["tree"], sort_keys=True) + json.dumps(c["sources"], sort_keys=True) for c in case_list}
        more = []
        for c in case_list:
            t = c["tree"]
            if c.get("invalid") or c.get("debug") or not ({"overlay"} & tree_ops(t) and {"zoom", "bbox"} & tree_ops(t)):
                continue
            todo = list(t.get("srcs") or [t.get("src")])
            while todo:                                   # every non-leaf DESCENDANT (children, grandchildren, ...)
                ch = todo.pop()
                if isinstance(ch, dict) and ch.get("op") not in ("leaf", "debug"):
                    todo += list(ch.get("srcs") or [ch.get("src")])
                    key = json.dumps(ch, sort_keys=True) + json.dumps(c["sources"], sort_keys=True)
                    if key not in seen:
                        seen.add(key)
                        more.append({"k": "pipe", "tree": ch, "invalid": 0, "sources": c["sources"], "subtree_of_mixed": 1})
        case_list += more
    # every 40th case additionally with real container files as sources (versatiles / mbtiles alternating)
    if not replay:
        extra = []
        for i, c in enumerate(case_list):
            if i % 40 == 0 and not c.get("invalid"):
                c2 = dict(c)
                c2["files"] = ["versatiles", "mbtiles", "pmtiles", "tar", "directory"][(i // 40) % 5]
                extra.append(c2)
        case_list += extra
        with open(cases, "w") as f:
            for c in case_list:
                f.write(json.dumps(c) + "\n")
    t = os.path.join(d, "trace.ndjson")
    s = C.run_harness(hb, ["replay", "PIPELINE", cases, t, C.scratch_dir(prop)], timeout=6000)
    v = C.validate_trace("trace/Trace_Pipeline.tla", "trace/Trace_Pipeline.cfg", prop + "_trace", t, timeout=3000, heap="12g")
    run.add_tlc(v)
    own = OWN_OPS.get(prop)
    skipped = {"other_operations_only": 0, "mixed_root_is_another_operation": 0, "mixed_absolute_clause": 0}
    for (line, fl) in v.fails:
        rc = case_list[line - 1] if line - 1 < len(case_list) else None
        ops = tree_ops(rc.get("tree")) if rc is not None else set()
        for cl in fl["clauses"]:
            if (cl in CLAUSES[prop] or cl in RELATIONAL.get(prop, ())) and own is not None and rc is not None and ops:
                if not (ops & own):
                    skipped["other_operations_only"] += 1
                    continue
                if not ops <= own:
                    if rc["tree"]["op"] not in own:
                        skipped["mixed_root_is_another_operation"] += 1
                        continue
                    # (an INVALID ARGUMENT of the root operation is the root's to report, whatever is below it)
                    if cl not in RELATIONAL[prop] and not (rc.get("invalid") == 1 and cl == "build_error"):
                        skipped["mixed_absolute_clause"] += 1
                        continue
                elif cl not in CLAUSES[prop]:
                    continue
            if cl == "declared":
                run.observation("declared_compression", {"vpl": fl["case"]["vpl"], "declared": fl["case"].get("declared")})
                continue
            if cl == "coverage":
                run.observation("coverage_formula", {"what": "the advertised coverage differs from source coverage /\\ filter box "
                                                     "(the model's formula; the properties ask for containment -- C03 -- and, for overlays, the union of the sources' advertised coverages -- clause overlay_coverage)", "vpl": fl["case"]["vpl"], "cov": fl["case"].get("cov")})
                continue
            if cl not in CLAUSES[prop] and not (own is not None and (cl in RELATIONAL[prop] or cl == "build_error")):
                continue
            c = fl["case"]
            rec = {"clause": cl, "vpl": c["vpl"], "files": c["files"], "invalid": c["invalid"], "case": c}
            if line - 1 < len(case_list):
                rec["replay_case"] = case_list[line - 1]
            run.failure(rec)
    run.traces += s["cases"]
    run.evaluations += s["cases"]
    # beyond the listed properties: the TileJSON document of every operation (a pass of its own; whatever happens in it is an
    # observation, never a verdict and never a tool error)
    if own is not None and not replay:
        try:
            tv = C.validate_trace("trace/Trace_PipelineTj.tla", "trace/Trace_PipelineTj.cfg", prop + "_trace_tj", t, timeout=1500, heap="12g")
            if tv.fails:
                run.observation("tilejson_of_operation", {"count": len(tv.fails), "first_vpl": tv.fails[0][1]["case"]["vpl"]})
        except Exception as e:                      # noqa: BLE001
            run.observation("tilejson_stage_error", {"what": str(e)[:300]})
    selftest = None
    if own is not None and not replay:
        # the relational clauses must bite: in up to 6 recorded mixed cases the root's answer for one coordinate is dropped
        # (alternately from the lookups and from the streams) and Trace_Pipeline has to name rel_lookup / rel_stream for each
        ct = os.path.join(d, "corrupted.ndjson")
        n = 0
        with open(ct, "w") as f:
            for ln in open(t):
                if '"kids":[{"built"' not in ln.replace(" ", ""):       # (the top-level kids of a mixed tree, not tj.kids)
                    continue
                r = json.loads(ln)
                if not r.get("kids"):
                    continue
                hit = next((a for a in r["lookups"] if a[3] > 0), None)
                if r.get("built") != 1 or hit is None or not all(k["built"] == 1 for k in r["kids"]):
                    continue
                if n % 2 == 0:
                    hit[3] = 0
                else:
                    if not any(x[:3] == hit[:3] for st in r["streams"] for x in st["res"]):
                        continue
                    for st in r["streams"]:
                        st["res"] = [x for x in st["res"] if x[:3] != hit[:3]]
                f.write(json.dumps(r) + "\n")
                n += 1
                if n == 6:
                    # ... and a seventh: the same mixed tree reported as NOT buildable although every child builds on its own
                    r2 = json.loads(ln)
                    r2.update({"built": 0, "panic": 0, "err": "self-test", "kids_built": [1] * len(r2["kids"])})
                    f.write(json.dumps(r2) + "\n")
                    n += 1
                    break
        if n:
            cv = C.validate_trace("trace/Trace_Pipeline.tla", "trace/Trace_Pipeline.cfg", prop + "_corrupted", ct, timeout=600)
            named = [any(cl in ("rel_lookup", "rel_stream", "rel_build") for cl in fl["clauses"]) for (_, fl) in cv.fails]
            selftest = {"corrupted_records": n, "rejected_by_a_relational_clause": sum(named)}
            if sum(named) != n:
                raise C.ToolError("self-test: %d corrupted mixed-tree records, only %d rejected by rel_lookup / rel_stream / rel_build" % (n, sum(named)))
    nt = [c for c in case_list if nontrivial(c)]
    if chained:
        run.nontrivial += len(nt)
        run.samples = run.samples[:3] + nt[:2]
        run.rule += " || " + rule
        run.extra.update({"pipeline_cases": s["cases"]})
        return run
    run.nontrivial = len(nt)
    run.samples = nt[:3]
    run.exhaustive = any_mc
    run.rule = rule
    run.extra = {"cases": s["cases"], "failing_clauses_not_attributed_to_this_property": skipped, "relational_clauses_selftest": selftest, "cases_with_real_container_files_as_sources": len([c for c in case_list if c.get("files")])}
    run.assumptions = ["delivered bytes are identified by decoding with the DECLARED codec and comparing with the sources' raw payloads"]
    return run.finish() if finish else run
