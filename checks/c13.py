"""C13 — concurrent reads (spec/FileReader.tla instantiated with the step structure extracted from the real
code by strace; trace/Trace_C13 for the multi-threaded stress run)."""
import json
import os
import re
import subprocess

from . import common as C


def extract_steps(hb, d):
    """Run the single-threaded step probe under strace and map syscalls on the data file to model steps."""
    st = os.path.join(d, "strace.txt")
    cmd = ["strace", "-f", "-e", "trace=openat,dup,dup2,dup3,fcntl,lseek,read,pread64,readv,preadv,preadv2,write,close",
           "-o", st, hb, "steps", "C13", d]
    p = subprocess.run(cmd, env=C.env_offline(), stdout=subprocess.PIPE, stderr=subprocess.PIPE, text=True, timeout=300)
    if p.returncode != 0:
        raise C.ToolError("strace/steps probe failed: %s" % p.stderr[-500:])
    fds = set()          # descriptors referring to the data file
    calls = {}           # call label -> list of steps
    cur = None
    raw = {}
    for line in open(st, errors="replace"):
        line = re.sub(r"^\d+\s+", "", line.rstrip("\n"))
        m = re.match(r'write\(2, "VMARK (begin|end|opened)(?: (\w+) (\d+))?', line)
        if m:
            if m.group(1) == "begin":
                cur = "%s#%s" % (m.group(2), m.group(3))
                calls[cur] = []
                raw[cur] = []
            elif m.group(1) == "end":
                cur = None
            continue
        m = re.match(r'openat\(.*"([^"]*c13_steps\.bin)", ([A-Z_|]+).*\) = (\d+)', line)
        if m and "O_WRONLY" not in m.group(2) and "O_RDWR" not in m.group(2):
            fd = int(m.group(3))
            fds.add(fd)
            if cur:
                calls[cur].append("open")
                raw[cur].append(line)
            continue
        m = re.match(r"(\w+)\((\d+)", line)
        if not m:
            continue
        name, fd = m.group(1), int(m.group(2))
        if fd not in fds:
            continue
        step = None
        if name == "fcntl" and "F_DUPFD" in line:
            r = re.search(r"= (\d+)\s*$", line)
            if r:
                fds.add(int(r.group(1)))
            step = "dup"
        elif name in ("dup", "dup2", "dup3"):
            r = re.search(r"= (\d+)\s*$", line)
            if r:
                fds.add(int(r.group(1)))
            step = "dup"
        elif name == "lseek":
            step = "seek"
        elif name in ("read", "readv"):
            step = "read"
        elif name in ("pread64", "preadv", "preadv2"):
            step = "pread"
        elif name == "close":
            fds.discard(fd)
            step = "close"
        if cur and step:
            calls[cur].append(step)
            raw[cur].append(line)
    if not calls or any(not v for v in calls.values()):
        raise C.ToolError("could not extract syscall steps from strace output %s: %s" % (st, calls))
    return calls, raw


def collapse(steps):
    out = []
    for s in steps:
        if s in ("read", "pread") and out and out[-1] == s:
            continue  # read_exact looping over short reads: one logical read step
        out.append(s)
    return out


def run(tier, seed, replay):
    run = C.Run("C13", tier, seed, "model_checking")
    d = C.outdir("C13")
    hb = C.build_harness()
    # 1. step structure of the real code
    calls, raw = extract_steps(hb, d)
    structures = {}
    for label, steps in calls.items():
        structures.setdefault(tuple(collapse(steps)), []).append(label)
    C.log("extracted step structures: %s" % {" ".join(k): v for k, v in structures.items()})
    # 2. all interleavings of N readers with exactly that step structure
    nreaders = 3 if tier == "thorough" else 3
    for i, (steps, labels) in enumerate(sorted(structures.items())):
        mod = "MC_C13_gen%d" % i
        with open(os.path.join(d, mod + ".tla"), "w") as f:
            f.write("---- MODULE %s ----\nEXTENDS FileReader\n" % mod)
            f.write("StepsDef == <<%s>>\n" % ", ".join('"%s"' % s for s in steps))
            f.write("ReadersDef == 1..%d\n" % nreaders)
            f.write("WantDef == [r \\in 1..%d |-> 3 + 4 * r]\n" % nreaders)
            f.write("ASSUME SoloCorrect\n====\n")
        with open(os.path.join(d, mod + ".cfg"), "w") as f:
            f.write("SPECIFICATION Spec\nCONSTANTS\n Steps <- StepsDef\n Readers <- ReadersDef\n Want <- WantDef\n"
                    "INVARIANT InvOwnBytes\nCHECK_DEADLOCK FALSE\n")
        # the generated module lives in out/; run_tlc takes paths relative to spec/
        rel = os.path.relpath(os.path.join(d, mod + ".tla"), C.SPEC)
        relc = os.path.relpath(os.path.join(d, mod + ".cfg"), C.SPEC)
        mc = C.run_tlc(rel, relc, "C13_mc%d" % i, workers=4, timeout=600)
        run.add_tlc(mc)
        viol = [e for e in mc.errors if "InvOwnBytes" in e]
        other = [e for e in mc.errors if "InvOwnBytes" not in e and "behavior up to this point" not in e]
        if other:
            raise C.ToolError("MC_C13 failed: %s (log %s)" % (other[:3], mc.log))
        if viol:
            trace = [l.rstrip() for l in open(mc.log) if l.startswith(("State ", "/\\ "))][:80]
            run.failure({"clause": "interleaving", "steps": list(steps), "calls": labels,
                         "syscalls": raw[labels[0]], "tlc_counterexample": trace})
        run.samples.append({"call": labels, "steps": list(steps), "syscalls": raw[labels[0]][:6],
                            "interleavings_states": mc.distinct})
    # 3. stress run on the real code, every result validated
    t = os.path.join(d, "trace_stress.ndjson")
    s = C.run_harness(hb, ["stress", "C13", d, t], timeout=3000)
    v = C.validate_trace("trace/Trace_C13.tla", "trace/Trace_C13.cfg", "C13_trace", t, timeout=2400)
    run.add_tlc(v)
    bad = {}
    for (line, fl) in v.fails:
        key = (fl["clauses"][0], fl["ev"].get("mode") or fl["ev"].get("src"))
        bad.setdefault(key, []).append(fl)
    for (clause, where), fls in bad.items():
        run.failure({"clause": clause, "where": where, "count": len(fls), "first": fls[0]["ev"]})
    run.traces += 1
    run.evaluations += s["events"]
    run.nontrivial = s["reads"] + s["lookups"]
    run.rule = ("MC: all interleavings of 3 concurrent callers whose per-call step sequence is the one the real "
                "read_range/read_all performs (extracted by strace); stress: 2..16 OS threads and 2..16 tokio tasks x random "
                "ranges on ONE DataReaderFile, 16 tasks x random tile lookups on one versatiles/pmtiles/tar reader; every "
                "result compared with the sequential result. non-trivial = call issued while other callers run "
                "concurrently on the same reader (all stress calls; they are distinct random ranges/coords)")
    run.exhaustive = False
    run.extra = {"step_structures": {" ".join(k): v for k, v in structures.items()},
                 "stress_reads": s["reads"], "stress_lookups": s["lookups"], "wrong_results": len(v.fails)}
    run.assumptions = ["Linux dup()/fcntl(F_DUPFD) share the open file description; pread does not use it",
                       "strace sees every syscall of the probe; the probe is single-threaded so the order is unambiguous"]
    return run.finish()
