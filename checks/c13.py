"""C13 — concurrent reads (spec/FileReader.tla instantiated with the step structure extracted from the real
code by strace; trace/Trace_C13 for the multi-threaded stress run)."""
import json
import os
import re
import subprocess

from . import common as C


def extract_steps(hb, d):
    """Run the single-threaded step probe under strace and map syscalls on the data file to model steps."""
    st = os.path.join(d, "strace.txt")
    cmd = ["strace", "-f", "-e", "trace=openat,dup,dup2,dup3,fcntl,lseek,read,pread64,readv,preadv,preadv2,write,close",
           "-o", st, hb, "steps", "C13", d]
    p = subprocess.run(cmd, env=C.env_offline(), stdout=subprocess.PIPE, stderr=subprocess.PIPE, text=True, timeout=300)
    if p.returncode != 0:
        raise C.ToolError("strace/steps probe failed: %s" % p.stderr[-500:])
    fds = set()          # descriptors referring to the data file
    calls = {}           # call label -> list of steps
    cur = None
    raw = {}
    for line in open(st, errors="replace"):
        line = re.sub(r"^\d+\s+", "", line.rstrip("\n"))
        m = re.match(r'write\(2, "VMARK (begin|end|opened)(?: (\w+) (\d+))?', line)
        if m:
            if m.group(1) == "begin":
                cur = "%s#%s" % (m.group(2), m.group(3))
                calls[cur] = []
                raw[cur] = []
            elif m.group(1) == "end":
                cur = None
            continue
        m = re.match(r'openat\(.*"([^"]*c13_steps\.bin)", ([A-Z_|]+).*\) = (\d+)', line)
        if m and "O_WRONLY" not in m.group(2) and "O_RDWR" not in m.group(2):
            fd = int(m.group(3))
            fds.add(fd)
            if cur:
                calls[cur].append("open")
                raw[cur].append(line)
            continue
        m = re.match(r"(\w+)\((\d+)", line)
        if not m:
            continue
        name, fd = m.group(1), int(m.group(2))
        if fd not in fds:
            continue
        step = None
        if name == "fcntl" and "F_DUPFD" in line:
            r = re.search(r"= (\d+)\s*$", line)
            if r:
                fds.add(int(r.group(1)))
            step = "dup"
        elif name in ("dup", "dup2", "dup3"):
            r = re.search(r"= (\d+)\s*$", line)
            if r:
                fds.add(int(r.group(1)))
            step = "dup"
        elif name == "lseek":
            step = "seek"
        elif name in ("read", "readv"):
            step = "read"
        elif name in ("pread64", "preadv", "preadv2"):
            step = "pread"
        elif name == "close":
            fds.discard(fd)
            step = "close"
        if cur and step:
            calls[cur].append(step)
            raw[cur].append(line)
    if not calls or any(not v for v in calls.values()):
        raise C.ToolError("could not extract syscall steps from strace output %s: %s" % (st, calls))
    return calls, raw


def collapse(steps):
    out = []
    for s in steps:
        if s in ("read", "pread") and out and out[-1] == s:
            continue  # read_exact looping over short reads: one logical read step
        out.append(s)
    return out


def run(tier, seed, replay):
    run = C.Run("C13", tier, seed, "model_checking")
    d = C.outdir("C13")
    hb = C.build_harness()
    # 1. step structure of the real code
    calls, raw = extract_steps(hb, d)
    structures = {}
    for label, steps in calls.items():
        structures.setdefault(tuple(collapse(steps)), []).append(label)
    C.log("extracted step structures: %s" % {" ".join(k): v for k, v in structures.items()})
    # 2. all interleavings of N readers with exactly that step structure
    nreaders = 3 if tier == "thorough" else 3
    model_cex = []
    for i, (steps, labels) in enumerate(sorted(structures.items())):
        mod = "MC_C13_gen%d" % i
        with open(os.path.join(d, mod + ".tla"), "w") as f:
            f.write("---- MODULE %s ----\nEXTENDS FileReader\n" % mod)
            f.write("StepsDef == <<%s>>\n" % ", ".join('"%s"' % s for s in steps))
            f.write("ReadersDef == 1..%d\n" % nreaders)
            f.write("WantDef == [r \\in 1..%d |-> 3 + 4 * r]\n" % nreaders)
            f.write("ASSUME SoloCorrect\n====\n")
        with open(os.path.join(d, mod + ".cfg"), "w") as f:
            f.write("SPECIFICATION Spec\nCONSTANTS\n Steps <- StepsDef\n Readers <- ReadersDef\n Want <- WantDef\n"
                    "INVARIANT InvOwnBytes\nCHECK_DEADLOCK FALSE\n")
        # the generated module lives in out/; run_tlc takes paths relative to spec/
        rel = os.path.relpath(os.path.join(d, mod + ".tla"), C.SPEC)
        relc = os.path.relpath(os.path.join(d, mod + ".cfg"), C.SPEC)
        mc = C.run_tlc(rel, relc, "C13_mc%d" % i, workers=4, timeout=600)
        run.add_tlc(mc)
        viol = [e for e in mc.errors if "InvOwnBytes" in e]
        other = [e for e in mc.errors if "InvOwnBytes" not in e and "behavior up to this point" not in e]
        if other:
            raise C.ToolError("MC_C13 failed: %s (log %s)" % (other[:3], mc.log))
        if viol:
            # the model has no lock steps (an uncontended mutex makes no system call): a counterexample is a VIOLATION only
            # when the real execution below reproduces wrong bytes; otherwise it is reported as an observation
            trace = [l.rstrip() for l in open(mc.log) if l.startswith(("State ", "/\\ "))][:80]
            model_cex.append({"clause": "interleaving", "steps": list(steps), "calls": labels,
                              "syscalls": raw[labels[0]], "tlc_counterexample": trace})
        run.samples.append({"call": labels, "steps": list(steps), "syscalls": raw[labels[0]][:6],
                            "interleavings_states": mc.distinct})
    # 3. stress run on the real code, every result validated
    t = os.path.join(d, "trace_stress.ndjson")
    s = C.run_harness(hb, ["stress", "C13", d, t], timeout=3000)
    v = C.validate_trace("trace/Trace_C13.tla", "trace/Trace_C13.cfg", "C13_trace", t, timeout=2400)
    run.add_tlc(v)
    bad = {}
    for (line, fl) in v.fails:
        key = (fl["clauses"][0], fl["ev"].get("mode") or fl["ev"].get("src"))
        bad.setdefault(key, []).append(fl)
    own_bytes_failed = any(clause == "own_bytes" for (clause, where) in bad)
    for cex in model_cex:
        if own_bytes_failed:
            cex["confirmed_by_real_execution"] = True
            run.failure(cex)
        else:
            run.observation("interleaving_model_counterexample_not_reproduced",
                            {"steps": cex["steps"], "note": "the extracted step sequence is unsafe without mutual exclusion; the real "
                             "execution returned the right bytes in every call (a lock the system-call trace cannot see?)"})
    for (clause, where), fls in bad.items():
        if str(where).endswith("_http"):
            # C13 speaks of FILE-backed readers; the HTTP data reader is exercised as well, its failures are observations
            run.observation("http_reader_" + clause, {"where": where, "count": len(fls), "first": fls[0]["ev"]})
            continue
        run.failure({"clause": clause, "where": where, "count": len(fls), "first": fls[0]["ev"]})
    run.traces += 1
    run.evaluations += s["events"]
    # 4. upper layer: the tile-index cache protocol of VersaTilesReader (spec/Reader.tla)
    #    design level: every interleaving of the lookup steps for a few tasks and blocks, cache smaller than the block set
    rmc = C.run_tlc("mc/MC_Reader.tla", "mc/MC_Reader_%s.cfg" % tier, "C13_mc_reader", workers=8, timeout=1800, heap="24g")
    C.require_clean(rmc, "MC_Reader (mutual exclusion, own tile, one critical section per lookup)")
    run.add_tlc(rmc)
    live = C.run_tlc("mc/MC_Reader.tla", "mc/MC_Reader_live.cfg", "C13_mc_reader_live", workers=4, timeout=900)
    C.require_clean(live, "MC_Reader liveness (no lookup waits for ever for the cache)")
    run.add_tlc(live)
    #    the invariants are not vacuous: the 'does not wait for the lock' variant of the protocol violates them
    neg = C.run_tlc("mc/MC_Reader.tla", "mc/MC_Reader_bypass.cfg", "C13_mc_reader_bypass", workers=4, timeout=900)
    if not any("Invariant" in e and "violated" in e for e in neg.errors):
        raise C.ToolError("MC_Reader with Variant=bypass was expected to violate an invariant (the model would be vacuous): %s" % neg.errors[:3])
    #    code -> spec: a recorded concurrent execution (hook H2 logs every critical section under the cache mutex)
    tcache = os.path.join(d, "trace_cache.ndjson")
    sc = C.run_harness(hb, ["cachetrace", "C13", tcache, C.scratch_dir("C13cache")], timeout=1200)
    vc = C.validate_trace("trace/Trace_Reader.tla", "trace/Trace_Reader.cfg", "C13_trace_cache", tcache, timeout=1800, allow_reject=True)
    run.add_tlc(vc)
    fails = list(vc.fails)
    if vc.rejected_at is not None:
        # the protocol of Reader.tla does not explain the log: is the cache's CONTRACT still kept (tolerant specification)?
        lines = open(tcache).read().splitlines()
        ctx = lines[max(0, vc.rejected_at - 6):vc.rejected_at + 1]
        vt = C.validate_trace("trace/Trace_Reader.tla", "trace/Trace_Reader_tolerant.cfg", "C13_trace_cache_tolerant", tcache, timeout=1800, allow_reject=True)
        run.add_tlc(vt)
        if vt.rejected_at is None:
            run.observation("cache_protocol_drift", {"what": "the recorded execution keeps the cache's contract but does not follow the "
                            "lookup protocol of spec/Reader.tla (strict): the specification should be brought up to date",
                            "consumed": vc.rejected_at, "of": len(lines), "unexplained_event": vc.rejected_event, "context": ctx})
            fails = list(vt.fails)
        else:
            lines_t = lines[max(0, vt.rejected_at - 6):vt.rejected_at + 1]
            # what the CACHE may do is C20's matter (its own check drives LimitedCache directly); for C13 only the results count
            # (clause lookup_eq_sequential below): reported, not an alarm
            run.observation("cache_contract", {"what": "the recorded cache events are not explained even by the tolerant specification",
                            "consumed": vt.rejected_at, "of": len(lines), "unexplained_event": vt.rejected_event, "context": lines_t})
    for (line, fl) in fails:
        run.failure({"clause": fl["clauses"][0], "where": "versatiles tile-index cache", "count": 1, "first": fl["ev"]})
    run.traces += sc["rounds"]
    run.evaluations += sc["events"]
    #    the binding is not vacuous either: a log with one critical section removed / one key set altered is rejected
    recs = [json.loads(x) for x in open(tcache)]
    fills = [i for i, r in enumerate(recs) if r["ev"] == "Fill"]
    hits = [i for i, r in enumerate(recs) if r["ev"] == "Hit"]
    muts = []
    if fills:
        muts.append(("drop_fill", [r for i, r in enumerate(recs) if i != fills[len(fills) // 2]]))
        m = [dict(r) for r in recs]
        m[fills[len(fills) // 3]]["keys"] = []
        muts.append(("fill_not_cached", m))
    if hits:
        m = [dict(r) for r in recs]
        m[hits[len(hits) // 2]]["ev"] = "Fill"
        muts.append(("hit_relabelled_fill", m))
    for name, m in muts:
        tm = os.path.join(d, "trace_cache_%s.ndjson" % name)
        with open(tm, "w") as f:
            for r in m:
                f.write(json.dumps(r) + "\n")
        vm = C.validate_trace("trace/Trace_Reader.tla", "trace/Trace_Reader.cfg", "C13_trace_cache_" + name, tm, timeout=900, allow_reject=True)
        if vm.rejected_at is None:
            raise C.ToolError("the corrupted cache log '%s' was ACCEPTED by Trace_Reader: the binding would be vacuous" % name)
    run.extra = dict(getattr(run, "extra", {}) or {}, cache_trace_events=sc["events"], cache_trace_lookups=sc["lookups"],
                     cache_trace_states=vc.distinct, corrupted_logs_rejected=[n for n, _ in muts])
    run.nontrivial = s["reads"] + s["lookups"] + sc["lookups"]
    run.rule = ("MC: all interleavings of 3 concurrent callers whose per-call step sequence is the one the real "
                "read_range/read_all performs (extracted by strace); stress: 2..16 OS threads and 2..16 tokio tasks x random "
                "ranges on ONE DataReaderFile, 16 tasks x random tile lookups on one versatiles/pmtiles/tar reader; every "
                "result compared with the sequential result. non-trivial = call issued while other callers run "
                "concurrently on the same reader (all stress calls; they are distinct random ranges/coords)")
    run.exhaustive = False
    run.extra = dict(run.extra or {}, step_structures={" ".join(k): v for k, v in structures.items()},
                     stress_reads=s["reads"], stress_lookups=s["lookups"], wrong_results=len(v.fails))
    run.assumptions = ["Linux dup()/fcntl(F_DUPFD) share the open file description; pread does not use it",
                       "strace sees every syscall of the probe; the probe is single-threaded so the order is unambiguous"]
    return run.finish()
