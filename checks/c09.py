"""C09 — filter_zoom / filter_bbox pass exactly the tiles inside; invalid arguments are build errors."""
from . import pipelines


def run(tier, seed, replay):
    stages = [("mc/MC_C09.tla", "mc/MC_C09_%s.cfg" % tier)]

    def nontrivial(c):
        t = c["tree"]
        return c.get("invalid") == 1 or (t["op"] in ("zoom", "bbox") and t["src"]["op"] in ("zoom", "bbox"))

    rule = ("TLC enumerates chains of 1..2 filters (filter_zoom min/max incl. min > max and 40; filter_bbox on the half-tile grid incl. "
            "degenerate boxes) over a leaf or an overlay, x source sets on levels 0..3, plus invalid bbox arguments (reversed, out of "
            "range, wrong arity, non-numeric); checks the chain-intersection law; each program is rendered to VPL, built by the real "
            "factory and lookups/streams/coverage/build outcome judged by TLC. non-trivial = chain of two filters or invalid argument")
    return pipelines.run_pipes("C09", tier, seed, replay, stages, rule, nontrivial)
