"""C20 — bounded cache (spec/Cache.tla, mc/MC_C20, trace/Trace_C20)."""
import json
import os

from . import common as C


def run(tier, seed, replay):
    run = C.Run("C20", tier, seed, "model_checking")
    d = C.outdir("C20")
    hb = C.build_harness()
    cases = os.path.join(d, "cases.ndjson")
    if replay:
        # re-execute the failing transitions stored in a replay file
        rec = json.load(open(replay))
        with open(cases, "w") as f:
            for fl in rec["failures"]:
                if "case" in fl:
                    f.write(json.dumps(fl["case"]) + "\n")
        mc = None
    else:
        # 1. design level: implementation-shaped layer refines the abstract relation; emit transitions
        mc = C.run_tlc("mc/MC_C20.tla", "mc/MC_C20_%s.cfg" % tier, "C20_mc", workers=6, replay_out=cases,
                       timeout=1500)
        C.require_clean(mc, "MC_C20 (spec-level refinement)")
        run.add_tlc(mc)
    # 2. spec -> impl: every generated transition executed on the real cache
    t1 = os.path.join(d, "trace_replay.ndjson")
    s1 = C.run_harness(hb, ["replay", "C20", cases, t1])
    case_list = C.read_ndjson(cases)
    v1 = C.validate_trace("trace/Trace_C20.tla", "trace/Trace_C20.cfg", "C20_trace_replay", t1)
    run.add_tlc(v1)
    for (line, fl) in v1.fails:
        fl["source"] = "replay"
        ci = fl.get("ev", {}).get("case")
        fl["case"] = case_list[ci] if isinstance(ci, int) and ci < len(case_list) else None
        run.failure(fl)
    run.traces += s1["cases"] - len({fl.get("ev", {}).get("case") for _, fl in v1.fails})
    run.evaluations += s1["cases"]
    # 3. impl -> spec: long random histories, every step validated
    s2 = {"histories": 0, "events": 0, "steps_with_eviction": 0, "samples": []}
    if not replay:
        t2 = os.path.join(d, "trace_random.ndjson")
        s2 = C.run_harness(hb, ["record", "C20", t2])
        v2 = C.validate_trace("trace/Trace_C20.tla", "trace/Trace_C20.cfg", "C20_trace_random", t2)
        run.add_tlc(v2)
        for (line, fl) in v2.fails:
            fl["source"] = "random"
            fl["trace_line"] = line
            run.failure(fl)
        run.traces += s2["histories"]
        run.evaluations += s2["events"]
    # 4. unbounded part (Apalache): the implementation-shaped cache with 5 keys, ANY capacity, ANY stamps and histories of
    #    ANY length keeps an inductive invariant that contains the capacity bound and "no value leaks to another key"
    proof = {"obligations": 0, "discharged": 0, "mutants_rejected": []}
    if not replay:
        mod = os.path.join(C.SPEC, "apalache", "CacheInd.tla")
        for nm, args in [("init", ["--init=Init", "--inv=IndInv", "--length=0"]), ("step", ["--init=IndInit", "--inv=IndInv", "--length=1"])]:
            ok, violated, lg = C.run_apalache(mod, args, "C20_" + nm)
            proof["obligations"] += 1
            if ok:
                proof["discharged"] += 1
            else:
                raise C.ToolError("the inductive invariant of spec/apalache/CacheInd.tla is not inductive any more (%s): the MODEL needs attention" % lg)
        # the obligations are not vacuous: two wrong models must be refuted
        src = open(mod).read()
        muts = [("cleanup_only_when_over_capacity", ("IF Cardinality(Dom) >= cap", "IF Cardinality(Dom) > cap")),
                ("tighter_bound", ("Bounded == Cardinality(Dom) <= cap\n", "Bounded == Cardinality(Dom) <= cap - 1\n"))]
        if tier == "thorough":
            muts.append(("values_leak", ("val' = [v1 EXCEPT ![k] = v]", "val' = [v1 EXCEPT ![k] = v + 100]")))
        for nm, (a, b) in muts:
            assert a in src
            md = os.path.join(d, "apalache_" + nm)
            os.makedirs(md, exist_ok=True)
            open(os.path.join(md, "CacheInd.tla"), "w").write(src.replace(a, b, 1))
            ok, violated, lg = C.run_apalache(os.path.join(md, "CacheInd.tla"), ["--init=IndInit", "--inv=IndInv", "--length=1"], "C20_mut_" + nm)
            if ok:
                raise C.ToolError("the wrong cache model '%s' was NOT refuted by Apalache: the inductive check would be vacuous" % nm)
            proof["mutants_rejected"].append(nm)
    run.nontrivial = s1["steps_with_eviction"]
    run.rule = ("MC: every transition TLC generates from the implementation-shaped cache model "
                "(keys/capacities/ops per the .cfg) is replayed on the real LimitedCache (history to reach the "
                "pre-state + one call) and the real step validated against the abstract relation AbsStep; "
                "random: long seeded histories, cap 1..64, 10-20 keys, every step validated. "
                "non-trivial = replayed transition in which the real cache evicted at least one entry "
                "(distinct by construction: one per generated transition). Apalache: IndInv of spec/apalache/CacheInd.tla "
                "(capacity bound + no value under another key, 5 keys, any capacity / stamps / history length) is checked inductive "
                "(Init => IndInv, IndInv /\\ Next => IndInv'), wrong models must be refuted")
    run.samples = [c for c in case_list if len(c["hist"]) >= 4][:3] + s2.get("samples", [])[:2]
    run.exhaustive = mc is not None
    run.extra = {"inductive_invariant_apalache": proof, "replayed_transitions": s1["cases"],
                 "replayed_equal_to_impl_layer_model": s1["equal_to_impl_layer"],
                 "random_histories": s2["histories"], "random_steps": s2["events"],
                 "random_steps_with_eviction": s2["steps_with_eviction"],
                 "mc_constants": open(os.path.join(C.SPEC, "mc/MC_C20_%s.cfg" % tier)).read().split("VIEW")[0].strip()}
    run.assumptions = ["TLC 1.8.0; hook H3 (verif_snapshot) reports the cache's real contents",
                       "spec AbsStep is the property; stamps/median are not part of the oracle"]
    return run.finish()
