"""Shared driver for C10 (merge) and C11 (update / re-encode): spec/VectorTile.tla, mc/MC_VT, trace/Trace_VT."""
import json
import os

from . import common as C


def vt_stream_stage(run, tier, hb, replay=None):
    """C02 over the vector-tile operations (from_vectortiles_merged, vectortiles_update_properties): the cases of C10 and C11,
    judged on ONE clause -- the box stream delivers for the coordinate what the lookup returns (vt_stream_eq_lookup)."""
    d = C.outdir("C02_vt")
    n = 0
    for prop in ("C10", "C11"):
        cases = os.path.join(d, "cases_%s.ndjson" % prop)
        if replay:
            # the failing vector-tile cases of the replay file (merge cases in the first pass, update cases in the second)
            rec = json.load(open(replay))
            op = "from_vectortiles_merged" if prop == "C10" else "vectortiles_update_properties"
            sel = [fl["replay_case"] for fl in rec["failures"] if fl.get("clause") == "vt_stream_eq_lookup" and fl.get("operation") == op and fl.get("replay_case")]
            if not sel:
                continue
            with open(cases, "w") as f:
                for c in sel:
                    f.write(json.dumps(c) + "\n")
        else:
            mc = C.run_tlc("mc/MC_VT.tla", "mc/MC_%s_quick.cfg" % prop, "C02_mc_vt_" + prop, workers=8, replay_out=cases, timeout=2400)
            C.require_clean(mc, "MC_VT")
            run.add_tlc(mc)
        case_list = C.read_ndjson(cases)
        if prop == "C10" and tier == "quick" and not replay:
            case_list = case_list[::4]                 # every 4th merge case in the quick tier
            with open(cases, "w") as f:
                for c in case_list:
                    f.write(json.dumps(c) + "\n")
        t = os.path.join(d, "trace_%s.ndjson" % prop)
        s = C.run_harness(hb, ["replay", "VT", cases, t, C.scratch_dir("C02vt")], timeout=6000)
        v = C.validate_trace("trace/Trace_VT.tla", "trace/Trace_VT.cfg", "C02_trace_vt_" + prop, t, timeout=3000, heap="12g")
        run.add_tlc(v)
        for (line, fl) in v.fails:
            if "vt_stream_eq_lookup" in fl["clauses"]:
                c = fl["case"]
                rec = {"clause": "vt_stream_eq_lookup", "operation": "from_vectortiles_merged" if prop == "C10" else "vectortiles_update_properties",
                       "lookup": {k: c.get("lookup", {}).get(k) for k in ("exists", "ok", "err", "h")},
                       "stream": {k: c.get("stream", {}).get(k) for k in ("exists", "ok", "err", "h")}, "vpl": c.get("vpl")}
                if line - 1 < len(case_list):
                    rec["replay_case"] = case_list[line - 1]
                run.failure(rec)
        n += s["cases"]
        run.traces += s["cases"]
        run.evaluations += s["cases"]
    return n


def run_vt(prop, tier, seed, replay, clauses, rule, nontrivial):
    run = C.Run(prop, tier, seed, "model_checking")
    d = C.outdir(prop)
    hb = C.build_harness()
    cases = os.path.join(d, "cases.ndjson")
    mc = None
    if replay:
        rec = json.load(open(replay))
        with open(cases, "w") as f:
            for fl in rec["failures"]:
                if fl.get("replay_case"):
                    f.write(json.dumps(fl["replay_case"]) + "\n")
    else:
        mc = C.run_tlc("mc/MC_VT.tla", "mc/MC_%s_%s.cfg" % (prop, tier), prop + "_mc", workers=8, replay_out=cases, timeout=2400)
        C.require_clean(mc, "MC_VT")
        run.add_tlc(mc)
    case_list = C.read_ndjson(cases)
    t = os.path.join(d, "trace.ndjson")
    s = C.run_harness(hb, ["replay", "VT", cases, t, C.scratch_dir(prop)], timeout=6000)
    v = C.validate_trace("trace/Trace_VT.tla", "trace/Trace_VT.cfg", prop + "_trace", t, timeout=3000, heap="12g")
    run.add_tlc(v)
    for (line, fl) in v.fails:
        for cl in fl["clauses"]:
            if not cl.startswith(clauses):
                continue                                  # (vt_stream_eq_lookup is C02's clause: checks/c02.py)
            c = fl["case"]
            if cl == "update_model_choice":
                run.observation("update_model_choice", {"opts": c.get("opts"), "variant": c.get("variant")})
                continue
            if cl == "update_uncompressed":
                # C11 does not prescribe the compression the stage declares (C10 does, for merging): an observation
                run.observation("update_declared_compression", {"declared_tc": c.get("declared_tc")})
                continue
            rec = {"clause": cl, "variant": c.get("variant", c.get("variants")), "case": c}
            rec["err"] = (c.get("lookup", {}).get("err") or c.get("reencoded", {}).get("err") or "")[:120]
            if cl == "merge_extent":
                # the listed finding is about sources whose equally named layers have DIFFERENT extents; an extent problem with
                # equal source extents is something else and must not be swallowed by it
                ext = {}
                for t in c.get("present", []):
                    for layer in t:
                        ext.setdefault(layer["name"], set()).add(layer["extent"])
                rec["source_extents_differ"] = any(len(v) > 1 for v in ext.values())
            if line - 1 < len(case_list):
                rec["replay_case"] = case_list[line - 1]
            run.failure(rec)
    run.traces += s["cases"]
    run.evaluations += s["cases"]
    nt = [c for c in case_list if nontrivial(c)]
    run.nontrivial = len(nt)
    run.samples = nt[:2]
    run.exhaustive = mc is not None
    run.rule = rule
    run.extra = {"cases": s["cases"]}
    run.assumptions = ["independent MVT encoder/decoder (harness, written from the MVT 2.1 spec) is the projection bytes <-> semantic view",
                       "geometry bytes are opaque: a feature's geometry is identified by the bytes the encoder produced for its id"]
    return run.finish()
