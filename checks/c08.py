"""C08 — from_overlayed returns the first listed source's tile."""
from . import pipelines


def run(tier, seed, replay):
    stages = [("mc/MC_C08.tla", "mc/MC_C08_%s.cfg" % tier), ("mc/MC_C08.tla", "mc/MC_C08_three.cfg"),
              ("mc/MC_C08.tla", "mc/MC_C08_square.cfg"), ("mc/MC_C08.tla", "mc/MC_C08_nested.cfg"),
              ("mc/MC_C08.tla", "mc/MC_C08_four.cfg"),
              ("mc/MC_C09.tla", "mc/MC_C09_%s.cfg" % tier)]      # overlays of FILTERED sources (and filters over overlays)

    def nontrivial(c):
        # at least two sources overlap on some coordinate and differ in extent
        sets = [{tuple(t[:3]) for t in s["tiles"]} for s in c["sources"]]
        return len(sets) >= 2 and any(sets[i] & sets[j] for i in range(len(sets)) for j in range(i + 1, len(sets))) \
            and len({frozenset(x) for x in sets}) > 1

    rule = ("TLC enumerates every list of 2 sources over a 6-coordinate universe (incl. x = 31/32 at level 6: the 32x32 sub-box border) "
            "of 3 sources over 4 coordinates, of 4 sources over 3 coordinates and of 3 sources over a 2x2 square inside one sub-box (L-shaped holes), each coordinate present/absent per source with source-specific payloads, x codec "
            "combinations; checks the transcribed sub-box stream algorithm against Sem(overlay); each case is rendered to VPL, built by "
            "the real PipelineFactory (in-memory sources; every 40th case with real container files) and lookups, streams, declared "
            "codec and coverage are judged by TLC. non-trivial = sources overlap on a coordinate and have different extents")
    return pipelines.run_pipes("C08", tier, seed, replay, stages, rule, nontrivial)
