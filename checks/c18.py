"""C18 — VPL texts parse to the pipeline they describe (spec/VPL.tla, mc/MC_C18, trace/Trace_C18; hook H1)."""
import json
import os

from . import common as C


BEYOND_TEXTS = {
    'from_overlayed [ from_container filename="src1" ]',
    'filter_zoom min=1',
    'from_container filename="src1" | filter_bbox bbox=[1,2] bbox=[3,4,5]',
    'from_container filename="src1" | filter_zoom min=1 min=2',
}


def run(tier, seed, replay):
    run = C.Run("C18", tier, seed, "model_checking")
    d = C.outdir("C18")
    hb = C.build_harness()
    cases = os.path.join(d, "cases.ndjson")
    mc = None
    if replay:
        rec = json.load(open(replay))
        with open(cases, "w") as f:
            for fl in rec["failures"]:
                if fl.get("replay_case"):
                    f.write(json.dumps(fl["replay_case"]) + "\n")
    else:
        mc = C.run_tlc("mc/MC_C18.tla", "mc/MC_C18_%s.cfg" % tier, "C18_mc", workers=8, replay_out=cases, timeout=2400)
        C.require_clean(mc, "MC_C18")
        run.add_tlc(mc)
    case_list = C.read_ndjson(cases)
    t = os.path.join(d, "trace.ndjson")
    s = C.run_harness(hb, ["replay", "C18", cases, t], timeout=3000)
    v = C.validate_trace("trace/Trace_C18.tla", "trace/Trace_C18.cfg", "C18_trace", t, timeout=3000)
    run.add_tlc(v)
    for (line, fl) in v.fails:
        for cl in fl["clauses"]:
            c = fl["case"]
            rec = {"clause": cl, "kind": c["kind"], "text": c["text"], "case": c,
                   # (events after the enumerated cases: a well-formed text parsed again after 40 rejections of another text)
                   "history_probe": line - 1 >= len(case_list)}
            if rec["history_probe"]:
                # the probe is one of the enumerated well-formed cases, parsed again after 40 rejections of another text
                orig = next((x for x in case_list if x["text"] == c["text"] and x["kind"] == c["kind"]), None)
                if orig is not None:
                    rec["replay_case"] = dict(orig, after_rejections_of=c.get("after", ""))
            if line - 1 < len(case_list):
                rec["replay_case"] = case_list[line - 1]
                ch = case_list[line - 1].get("ch")
                if ch:
                    rec["style"] = ch["style"]
                ast = json.dumps(case_list[line - 1].get("ast", ""))
                rec["has_empty_string_value"] = '"s": ""' in ast
            # beyond the documented syntax (C18 does not define them): a key given several times in one operation; the two
            # structural rules "an overlay needs two sources" and "a pipeline starts with a read operation"
            text = c["text"]
            if rec.get("style") == "split" or text in BEYOND_TEXTS:
                run.observation("beyond_documented_syntax", {"clause": cl, "text": text[:200], "parsed": c.get("parsed"), "built": c.get("built")})
                continue
            run.failure(rec)
    run.traces += s["cases"]
    run.evaluations += s["cases"]
    nt = [c for c in case_list if c["kind"] != "wellformed" or any(n["sources"] for n in c["ast"]) or len(c["ast"]) > 1]
    run.nontrivial = len(nt)
    run.samples = [{"kind": c["kind"], "text": c["text"]} for c in nt[:4]]
    run.exhaustive = mc is not None
    run.rule = ("TLC enumerates syntax trees up to depth 2 (2 names, parameters with scalar / list values from a 7-string alphabet incl. the "
                "empty string, strings with quotes, backslashes, newlines, spaces; 1-2 nodes per pipeline; 0-2 nested source pipelines) x "
                "rendering choices (optional whitespace none / newline+space..., required whitespace, bare / quoted / bracketed values) and "
                "emits the TEXT built in TLA+; the real parse_vpl result is compared with the tree; 15 malformed texts must be rejected; 12 "
                "ill-typed programs must be rejected by the factory, 4 well-typed ones accepted. non-trivial = nested sources, several nodes, "
                "or a negative case. History independence: every rejected text is parsed 40 times in a row on one thread, after which 5 "
                "well-formed probes (deepest nesting, simplest) are parsed again and judged like the first time")
    run.extra = {"cases": s["cases"], "history_probes (well-formed text re-parsed after 40 rejections of another text)": s.get("history_probes")}
    run.assumptions = ["hook H1 exposes the parser's own syntax tree; repeated keys (rendering style `split`) and two structural build rules are exercised but judged as observations (undefined by the documented syntax); non-literal booleans are not generated"]
    return run.finish()
