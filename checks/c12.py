"""C12 — interrupted writes (spec/Crash.tla, trace/Trace_C12; cases from mc/MC_C01 with the crash cfg)."""
import json
import os

from . import common as C


def run(tier, seed, replay):
    run = C.Run("C12", tier, seed, "fault_enumeration")
    d = C.outdir("C12")
    hb = C.build_harness()
    cases = os.path.join(d, "cases.ndjson")
    mc = None
    if replay:
        rec = json.load(open(replay))
        with open(cases, "w") as f:
            for fl in rec["failures"]:
                if fl.get("replay_case"):
                    f.write(json.dumps(fl["replay_case"]) + "\n")
    else:
        mc = C.run_tlc("mc/MC_C01.tla", "mc/MC_C12_%s.cfg" % tier, "C12_mc", workers=8, replay_out=cases, timeout=1500)
        C.require_clean(mc, "MC_C01 with the crash cfg")
        run.add_tlc(mc)
    if not replay:
        # directed: a tile set spread over 60 blocks, so that the block index / the directories are hundreds of bytes long and
        # the length fields of the final header have more than one significant byte (a torn header then carries a length that is
        # wrong by a multiple of 256 and still points into the index)
        tiles = [[12, 256 * (i % 16) + (i % 7), 256 * ((i // 16) * 3) + (i % 5), 1 + (i % 6)] for i in range(60)]
        with open(cases, "a") as f:
            # (versatiles only: a PMTiles reader streams a level-12 box of this extent coordinate by coordinate, for every cut; of
            # these cases only the cuts of the last 4 operations and every 16th earlier operation boundary are enumerated)
            for fmt, tc in (("versatiles", "none"), ("versatiles", "gzip"), ("versatiles", "brotli")):
                f.write(json.dumps({"k": "case", "origin": "writer", "fmt": fmt, "tf": "pbf", "tc": tc, "tiles": tiles, "choices": {"none": 1},
                                    "directed": "many_blocks", "only_last_ops": 4}) + "\n")
    case_list = C.read_ndjson(cases)
    t = os.path.join(d, "trace_cuts.ndjson")
    s = C.run_harness(hb, ["cuts", "C12", cases, t], timeout=6000)
    v = C.validate_trace("trace/Trace_C12.tla", "trace/Trace_C12.cfg", "C12_trace", t, timeout=3000, heap="12g")
    run.add_tlc(v)
    for (line, fl) in v.fails:
        rec = {"clause": fl["clauses"][0], "fmt": fl["case"]["fmt"], "tc": fl["case"]["tc"], "case": fl["case"], "cut": fl.get("cut")}
        if fl.get("cut"):
            rec["op_label"] = fl["cut"]["op"]["label"].split(":")[0]
        cid = fl["case"]["id"]
        if cid < len(case_list):
            rec["replay_case"] = case_list[cid]
        run.failure(rec)
    run.traces += s["cases"]
    run.evaluations += s["cuts"]
    # non-trivial: cuts strictly inside the operation sequence (not the empty file, not the complete file)
    inner = 0
    samples = []
    ops_of = {}
    for ev in C.read_ndjson(t):
        if ev["ev"] == "case":
            ops_of[ev["id"]] = ev["ops"]
        else:
            n = len(ops_of[ev["case"]])
            if (ev["k"] > 0 or ev["b"] > 0) and ev["k"] < n:
                inner += 1
                if len(samples) < 4 and ev["b"] > 0 and ev["outcome"] != "fail":
                    samples.append({"case": ev["case"], "k": ev["k"], "b": ev["b"], "op": ops_of[ev["case"]][ev["k"]], "outcome": ev["outcome"]})
    if not samples:
        samples = [{"ops_of_first_case": ops_of.get(0)}]
    run.nontrivial = inner
    run.samples = samples
    run.rule = ("for every enumerated tile set x {versatiles, pmtiles} x {none, gzip, brotli}: the real writer runs against a recording "
                "DataWriter; every prefix of the recorded operation sequence and byte cuts inside each operation (all bytes of writes "
                "<= 140 bytes, i.e. headers and small indexes; first/third/middle/last bytes of larger ones) are materialised and opened "
                "by the real reader; every 8th case is also written through the REAL file writer over an existing complete container of "
                "another tile set and interrupted after every operation prefix; TLC judges CutSafe and compares with the abstract "
                "commit-order model. non-trivial = cut strictly "
                "inside the operation sequence (distinct (case, k, b))")
    run.exhaustive = False
    run.extra = {"cases": s["cases"], "cuts": s["cuts"], "cuts_opened_as_view": s["views"], "cuts_failed_to_open": s["fails"],
                 "cuts_panicked_on_open": s["panics"], "overwrite_cuts": s.get("overwrite_cuts", 0),
                 "abstract_model_disagreements": len(v.tagged.get("MODEL_DISAGREES", [])),
                 "design_unsafe_op_orders": len(v.tagged.get("DESIGN_UNSAFE", []))}
    # the commit-order model of Crash.tla is a description of the design, not the property: where it mispredicts an outcome
    # or finds the recorded operation order unsafe this is reported, never an alarm (CutSafe decides)
    nd, nu = len(v.tagged.get("MODEL_DISAGREES", [])), len(v.tagged.get("DESIGN_UNSAFE", []))
    if nd:
        run.observation("crash_model_disagrees", {"count": nd, "first": str(v.tagged["MODEL_DISAGREES"][0])[:300]})
    if nu:
        run.observation("operation_order_unsafe_by_design", {"count": nu, "first": str(v.tagged["DESIGN_UNSAFE"][0])[:300]})
    run.assumptions = ["unwritten regions read as zeros / lie beyond the end of file; writes of one operation land as a prefix",
                       "a panic while opening counts as 'does not open' here (panic freedom is C19)"]
    return run.finish()
