"""C07 — static content never leaves the root (real binary over raw TCP, canary files around the root)."""
from . import servers


def run(tier, seed, replay):
    def nontrivial(c):
        return any(s in ("..", "", ".", "%2e%2e", "%2f") for s in c["segs"])
    rule = ("TLC enumerates every sequence of up to MaxSegs path segments over 16 classes (sequences of 5 over 10 core classes; plus 147 requests with an ABSOLUTE component after 0..3 empty segments; names inside the root, '.', '..', empty, "
            "%2e%2e, %2f, canary names, 'root', 'parent') x mounts (folder at /, folder at /pre/, tar at /tar/); each is sent as a raw "
            "request target to the real binary; the response body identifies which file (inside / outside the root) was served; TLC judges "
            "with the path-walk model. non-trivial = path with '..', '.', empty or percent-encoded segment")
    return servers.run_server("C07", "STATIC", tier, seed, replay, rule, nontrivial)
