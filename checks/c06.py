"""C06 — conversion selects and relocates tiles as the options say (spec/Converter.tla, mc/MC_C06, trace/Trace_Convert)."""
import json
import os

from . import common as C


def converter_stream_stage(run, prop, tier, replay, stride):
    """C02 over the converting reader: every `stride`-th conversion case of MC_C06, only the `stream' clause is collected."""
    d = C.outdir(prop + "_conv")
    hb = C.build_harness()
    cases = os.path.join(d, "cases.ndjson")
    if replay:
        rec = json.load(open(replay))
        with open(cases, "w") as f:
            for fl in rec["failures"]:
                if fl.get("replay_case") and fl["replay_case"].get("k") in ("conv", "recomp"):
                    f.write(json.dumps(fl["replay_case"]) + "\n")
    else:
        allc = os.path.join(d, "cases_all.ndjson")
        mc = C.run_tlc("mc/MC_C06.tla", "mc/MC_C06_%s.cfg" % tier, prop + "_mc_conv", workers=8, replay_out=allc, timeout=2400)
        C.require_clean(mc, "MC_C06")
        run.add_tlc(mc)
        # ... and every recompression case of MC_C04 (forced recompression with an unchanged codec is where the stream path
        # and the lookup path can come apart byte-wise)
        allr = os.path.join(d, "cases_recomp.ndjson")
        mcr = C.run_tlc("mc/MC_C04.tla", "mc/MC_C04.cfg", prop + "_mc_recomp", workers=4, replay_out=allr, timeout=1200)
        C.require_clean(mcr, "MC_C04")
        run.add_tlc(mcr)
        with open(cases, "w") as f:
            for i, c in enumerate(C.read_ndjson(allc)):
                if i % stride == 0:
                    f.write(json.dumps(c) + "\n")
            for c in C.read_ndjson(allr):
                f.write(json.dumps(c) + "\n")
    case_list = C.read_ndjson(cases)
    t = os.path.join(d, "trace.ndjson")
    s = C.run_harness(hb, ["replay", "CONVERT", cases, t, C.scratch_dir(prop + "conv")], timeout=6000)
    v = C.validate_trace("trace/Trace_Convert.tla", "trace/Trace_Convert.cfg", prop + "_trace_conv", t, timeout=3000, heap="12g")
    run.add_tlc(v)
    for (line, fl) in v.fails:
        for cl in fl["clauses"]:
            if cl not in ("stream", "stream_bytes_eq_lookup"):
                continue
            o = fl["case"].get("opts") or {"flip": 0, "swap": 0, "hasgeo": 0}
            rec = {"clause": cl, "source": "converter", "flip": o["flip"], "swap": o["swap"], "hasgeo": o["hasgeo"], "case": fl["case"]}
            if line - 1 < len(case_list):
                rec["replay_case"] = dict(case_list[line - 1], orig_n=case_list[line - 1].get("orig_n", line - 1))
            run.failure(rec)
    run.traces += s["cases"]
    run.evaluations += s["cases"]
    run.extra.update({"converter_cases": s["cases"]})
    return run


def server_mapping_stage(run, tier, replay):
    """'A server started with the same transform flags exposes the same coordinate mapping as a conversion with them':
    the flip / swap instances of MC_Server against the real binary; only status and body are collected here."""
    if replay:
        return run
    d = C.outdir("C06_srv")
    hb = C.build_harness()
    vb = C.build_binary()
    allc = os.path.join(d, "cases_all.ndjson")
    cases = os.path.join(d, "cases.ndjson")
    mc = C.run_tlc("mc/MC_Server.tla", "mc/MC_C05_quick.cfg", "C06_mc_server", workers=8, replay_out=allc, timeout=2400)
    C.require_clean(mc, "MC_Server")
    run.add_tlc(mc)
    keep = []
    for c in C.read_ndjson(allc):
        if (c["flags"]["flip"] or c["flags"]["swap"]) and c["header"] == "" and c["src"]["id"] in ("vpn", "mb", "pm", "tarsrc", "vpngg") \
                and all(c[k]["kind"] == "num" for k in ("z", "x", "y")):
            keep.append(c)
    with open(cases, "w") as f:
        for c in keep:
            f.write(json.dumps(c) + "\n")
    t = os.path.join(d, "trace.ndjson")
    s = C.run_harness(hb, ["server", "TILES", vb, cases, t, C.scratch_dir("C06srv")], timeout=3000)
    v = C.validate_trace("trace/Trace_Server.tla", "trace/Trace_Server.cfg", "C06_trace_server", t, timeout=1800)
    run.add_tlc(v)
    for (line, fl) in v.fails:
        for cl in fl["clauses"]:
            if cl not in ("status_present", "status_absent", "body"):
                continue
            q = fl["q"]
            rec = {"clause": "server_" + cl, "flip": q["flags"]["flip"], "swap": q["flags"]["swap"], "hasgeo": 0,
                   "target": fl["target"], "resp": fl["resp"], "case": {"q": q}}
            run.failure(rec)
    run.traces += 1
    run.evaluations += s["cases"]
    run.extra.update({"server_requests_with_transform_flags": s["cases"]})
    return run


def run(tier, seed, replay):
    run = C.Run("C06", tier, seed, "model_checking")
    d = C.outdir("C06")
    hb = C.build_harness()
    vbin = C.build_binary()
    cases = os.path.join(d, "cases.ndjson")
    mc = None
    if replay:
        rec = json.load(open(replay))
        with open(cases, "w") as f:
            for fl in rec["failures"]:
                if fl.get("replay_case"):
                    f.write(json.dumps(fl["replay_case"]) + "\n")
    else:
        mc = C.run_tlc("mc/MC_C06.tla", "mc/MC_C06_%s.cfg" % tier, "C06_mc", workers=8, replay_out=cases, timeout=2400)
        C.require_clean(mc, "MC_C06 (transform theorems + case enumeration)")
        run.add_tlc(mc)
    case_list = C.read_ndjson(cases)
    t = os.path.join(d, "trace.ndjson")
    s = C.run_harness(hb, ["replay", "CONVERT", cases, t, C.scratch_dir("C06")], timeout=6000)
    v = C.validate_trace("trace/Trace_Convert.tla", "trace/Trace_Convert.cfg", "C06_trace", t, timeout=3000, heap="12g")
    run.add_tlc(v)
    for (line, fl) in v.fails:
        for cl in fl["clauses"]:
            o = fl["case"]["opts"]
            if cl == "coverage":
                # C06 asks that lookups / streams AGREE with the advertised coverage and that the output is exactly the
                # selection (clauses lookup / stream / output / file); the exact formula of the coverage is not prescribed
                run.observation("coverage_formula", {"what": "advertised coverage differs from T(source coverage) /\\ selection",
                                                     "opts": o, "cov": fl["case"].get("cov"), "want_cov": fl["case"].get("want_cov")})
                continue
            rec = {"clause": cl, "flip": o["flip"], "swap": o["swap"], "hasgeo": o["hasgeo"], "case": fl["case"]}
            if line - 1 < len(case_list):
                rec["replay_case"] = dict(case_list[line - 1], orig_n=case_list[line - 1].get("orig_n", line - 1))
            run.failure(rec)
    run.traces += s["cases"]
    run.evaluations += s["cases"]
    # the same cases through the real command line (every k-th case; all of them in the thorough tier / a replay)
    stride = 1 if replay else (3 if tier == "thorough" else 5)
    tc = os.path.join(d, "trace_cli.ndjson")
    sc = C.run_harness(hb, ["cli", "CONVERT", cases, tc, C.scratch_dir("C06cli"), vbin, str(stride)], timeout=6000)
    vc = C.validate_trace("trace/Trace_Convert.tla", "trace/Trace_Convert.cfg", "C06_cli_trace", tc, timeout=3000, heap="8g")
    run.add_tlc(vc)
    for (line, fl) in vc.fails:
        for cl in fl["clauses"]:
            o = fl["case"]["opts"]
            rec = {"clause": cl, "flip": o["flip"], "swap": o["swap"], "hasgeo": o["hasgeo"], "case": fl["case"]}
            idx = fl["case"]["id"]
            if idx < len(case_list):
                rec["replay_case"] = dict(case_list[idx], orig_n=case_list[idx].get("orig_n", idx))
            run.failure(rec)
    run.traces += sc["cases"]
    run.evaluations += sc["cases"]
    nt = [c for c in case_list if (c["opts"]["flip"] or c["opts"]["swap"]) and len(c["tiles"]) >= 2
          and (c["opts"]["hasgeo"] or c["opts"]["zmin"] >= 0 or c["opts"]["zmax"] >= 0)]
    run.nontrivial = len(nt)
    run.samples = nt[:3]
    run.exhaustive = mc is not None
    run.rule = ("TLC enumerates tile subsets (distinct payload per coordinate, asymmetric positions on levels 0..2) x 4 flag "
                "combinations x zoom limits x geographic boxes (half-tile grid of level 2: cutting through tiles, degenerate, world) "
                "x border; each converting reader is built the way the CLI does, and coverage, walk of the coverage, lookups of all "
                "coordinates of levels 0..3, box streams and (every 8th case) the file written by the real writer are judged by TLC; "
                "every 5th case (thorough: every 3rd) is also run through the real `versatiles convert` command line "
                "(options rendered as typed, source file from the independent encoder, output decoded independently); the real server "
                "with --flip-y / --swap-xy answers coordinate requests with the tile at the pre-image. "
                "non-trivial = case with a transform flag, >= 2 tiles and a zoom or geographic selection")
    run.extra = {"cases": s["cases"], "cli_runs": sc["cases"], "cli_nonzero_exit": sc["nonzero_exit"]}
    server_mapping_stage(run, tier, replay)
    run.assumptions = ["f64 inverse Mercator of the harness exact to ~1e-15 tiles at levels <= 4 (geo corners are never within the guard of a boundary unless exactly on it)"]
    return run.finish()
