"""C03 — container family (writer origin)."""
from . import containers


def run(tier, seed, replay):
    return containers.run_family("C03", tier, seed, replay)
