"""C03 — advertised coverage: container readers (files from the real writers and from the independent encoders; exact for
the formats that derive it from the tiles) and pipeline operations (whatever a lookup returns lies inside the advertised
coverage: overlays, filter chains, from_debug incl. level 31)."""
from . import common as C
from . import containers, pipelines


def run(tier, seed, replay):
    run = C.Run("C03", tier, seed, "model_checking")
    containers.run_family("C03", tier, seed, replay, also_indep=True, run=run, finish=False)
    stages = [("mc/MC_C08.tla", "mc/MC_C08_three.cfg"), ("mc/MC_C08.tla", "mc/MC_C08_nested.cfg"),
              ("mc/MC_C09.tla", "mc/MC_C09_%s.cfg" % tier)]
    pipelines.run_pipes("C03", tier, seed, replay, stages,
                        "pipeline operations: 3-source overlays (flat, nested), filter_zoom / filter_bbox chains over container "
                        "sources and over from_debug (lookups on levels 0..3, 12 and 31): every returned tile lies inside the advertised "
                        "coverage (clause cov_contains)", lambda c: c["tree"]["op"] != "leaf", run=run, finish=False)
    return run.finish()
