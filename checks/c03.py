"""C03 — advertised coverage (files from the real writers and from the independent encoders)."""
from . import containers


def run(tier, seed, replay):
    return containers.run_family("C03", tier, seed, replay, also_indep=True)
