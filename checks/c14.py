"""C14 — parallel stream operators (spec/TileStream.tla, mc/MC_C14, trace/Trace_C14)."""
import json
import os

from . import common as C


def run(tier, seed, replay):
    run = C.Run("C14", tier, seed, "model_checking")
    d = C.outdir("C14")
    hb = C.build_harness()
    raw = os.path.join(d, "behaviours.ndjson")
    cases = os.path.join(d, "cases.ndjson")
    mc = None
    if replay:
        rec = json.load(open(replay))
        with open(cases, "w") as f:
            for fl in rec["failures"]:
                if fl.get("case"):
                    f.write(json.dumps(fl["case"]) + "\n")
    else:
        mc = C.run_tlc("mc/MC_C14.tla", "mc/MC_C14_%s.cfg" % tier, "C14_mc", workers=8, replay_out=raw, timeout=1500)
        C.require_clean(mc, "MC_C14")
        run.add_tlc(mc)
        # distinct (n, w, b, keep, completion order) tuples
        seen = {}
        for c in C.read_ndjson(raw):
            key = json.dumps([c["n"], c["w"], c["b"], c["keep"], c["corder"]])
            seen.setdefault(key, c)
        with open(cases, "w") as f:
            for c in seen.values():
                f.write(json.dumps(c) + "\n")
    case_list = C.read_ndjson(cases)
    t1 = os.path.join(d, "trace_replay.ndjson")
    s1 = C.run_harness(hb, ["replay", "C14", cases, t1], timeout=3000)
    v1 = C.validate_trace("trace/Trace_C14.tla", "trace/Trace_C14.cfg", "C14_trace_replay", t1, timeout=2400)
    run.add_tlc(v1)
    def classify(fl, source):
        fl["source"] = source
        fl["clause"] = fl["clauses"][0]
        if fl["clause"] == "aborted_on_worker_failure":
            run.observation("aborted_on_worker_failure", {"n": fl.get("n"), "ev": fl.get("ev")})
        elif fl["clause"] == "chunk_size":
            # C14 asks that buffered consumers see every item once; the size of the chunks is not prescribed: an observation
            run.observation("chunk_size", {"n": fl.get("n"), "ev": fl.get("ev")})
        else:
            run.failure(fl)
    for (line, fl) in v1.fails:
        classify(fl, "replay")
    run.traces += s1["runs"]
    run.evaluations += s1["events"]
    s2 = {"runs": 0, "events": 0, "items": 0}
    if not replay:
        t2 = os.path.join(d, "trace_random.ndjson")
        s2 = C.run_harness(hb, ["record", "C14", t2], timeout=3000)
        v2 = C.validate_trace("trace/Trace_C14.tla", "trace/Trace_C14.cfg", "C14_trace_random", t2, timeout=2400, heap="12g")
        run.add_tlc(v2)
        for (line, fl) in v2.fails:
            classify(fl, "random")
        run.traces += s2["runs"]
        run.evaluations += s2["events"]
    nontrivial = [c for c in case_list if any(c["corder"][i] > c["corder"][i + 1] for i in range(len(c["corder"]) - 1))]
    run.nontrivial = len(nontrivial)
    run.samples = nontrivial[:3] + [{"random_runs": s2["runs"], "random_items": s2["items"]}]
    run.rule = ("TLC enumerates every behaviour of TileStream.tla (all completion orders of N<=MaxN items under window W, all "
                "Keep subsets); each distinct (N, W, Keep, completion order) is forced onto the real map_blob_parallel / "
                "filter_map_blob_parallel / from_coord_iter_parallel with gated callbacks (thread affinity pins num_cpus to W) and "
                "consumed through for_each_buffered; the recorded run is validated by TLC. non-trivial = enumerated case whose "
                "completion order differs from submission order (distinct by construction)")
    run.exhaustive = mc is not None
    run.extra = {"gated_runs": s1["runs"], "gated_runs_infeasible_on_real_code": s1.get("infeasible"),
                 "random_runs": s2["runs"], "random_items": s2["items"],
                 "mc_constants": open(os.path.join(C.SPEC, "mc/MC_C14_%s.cfg" % tier)).read().split("INVARIANT")[0].strip()}
    run.assumptions = ["the per-item callback is the only place where completion order is controlled; emission order is not asserted",
                       "events are ordered by one lock-protected log (Start inside the task, End before it returns, Out after delivery)"]
    return run.finish()
