"""C04 — recompression changes only the encoding (spec/Compression.tla, Converter.tla, mc/MC_C04, trace/Trace_Convert)."""
import json
import os

from . import common as C


def run(tier, seed, replay):
    run = C.Run("C04", tier, seed, "model_checking")
    d = C.outdir("C04")
    hb = C.build_harness()
    vbin = C.build_binary()
    cases = os.path.join(d, "cases.ndjson")
    mc = None
    if replay:
        rec = json.load(open(replay))
        with open(cases, "w") as f:
            for fl in rec["failures"]:
                if fl.get("replay_case"):
                    f.write(json.dumps(fl["replay_case"]) + "\n")
    else:
        mc = C.run_tlc("mc/MC_C04.tla", "mc/MC_C04.cfg", "C04_mc", workers=4, replay_out=cases, timeout=1200)
        C.require_clean(mc, "MC_C04 (ThmRecompress + case enumeration)")
        run.add_tlc(mc)
        if tier == "thorough":
            # random payloads: many more tiles per case, random sizes
            import random
            rnd = random.Random(seed)
            extra = []
            for c in C.read_ndjson(cases):
                c = dict(c)
                tiles, classes = [], {}
                for i in range(60):
                    z = rnd.choice([4, 9])
                    tiles.append([z, rnd.randrange(250, 262) if z == 9 else rnd.randrange(16), rnd.randrange(250, 262) if z == 9 else rnd.randrange(16), i + 1])
                    classes[str(i + 1)] = [rnd.choice([1, 7, 300, 999, 1000, 5000, 66000]), rnd.randrange(2)]
                seen = set()
                c["tiles"] = [t for t in tiles if (t[0], t[1], t[2]) not in seen and not seen.add((t[0], t[1], t[2]))]
                c["classes"] = classes
                extra.append(c)
            with open(cases, "a") as f:
                for c in extra:
                    f.write(json.dumps(c) + "\n")
    if not replay:
        # directed: conversions INTO PMTiles of tile sets that take its writer to the root-directory limit (the metadata block
        # follows the root directory in the file: "the container metadata survives"): every 6th (thorough: every 2nd) tile count
        # of the window around the root / leaf switch, found by probing the real writer
        bfile = os.path.join(d, "boundary.ndjson")
        C.run_harness(hb, ["boundary", "PMTILES", bfile], timeout=1200)
        bc = C.read_ndjson(bfile)[::(2 if tier == "thorough" else 3)]
        with open(cases, "a") as f:
            for b in bc:
                f.write(json.dumps({"k": "recomp", "src_tc": "none", "target": "keep", "force": 0, "fmt": "pmtiles", "tiles": b["tiles"],
                                    "classes": b["classes"], "directed": "pmtiles_root_limit"}) + "\n")
    if not replay:
        # directed: ONE BIG tile (17 MiB of compressible content, next to a small one) for every source codec x target: whatever
        # a recompression does to a tile, it does to all of it
        with open(cases, "a") as f:
            for src in ("none", "gzip", "brotli"):
                for target in ("keep", "none", "gzip", "brotli"):
                    f.write(json.dumps({"k": "recomp", "src_tc": src, "target": target, "force": 0, "fmt": "tar", "tiles": [[5, 3, 3, 1], [5, 4, 3, 2]],
                                        "classes": {"1": [17830000, 1], "2": [300, 0]}, "directed": "big_payload"}) + "\n")
    case_list = C.read_ndjson(cases)
    t = os.path.join(d, "trace.ndjson")
    s = C.run_harness(hb, ["replay", "CONVERT", cases, t, C.scratch_dir("C04")], timeout=6000)
    v = C.validate_trace("trace/Trace_Convert.tla", "trace/Trace_Convert.cfg", "C04_trace", t, timeout=3000)
    run.add_tlc(v)
    for (line, fl) in v.fails:
        for cl in fl["clauses"]:
            if cl == "stream_bytes_eq_lookup":
                continue      # byte identity of the stream and the lookup path is C02's clause (checks/c02.py runs these cases too)
            if cl in ("declared", "file_declared"):
                # C04 asks for identity under whatever compression the output DECLARES; which one that is, is reported only
                run.observation("declared_compression", {"src_tc": fl["case"]["src_tc"], "target": fl["case"]["target"], "declared": fl["case"].get("declared")})
                continue
            c = fl["case"]
            rec = {"clause": cl, "src_tc": c["src_tc"], "target": c["target"], "force": c["force"], "fmt": c["fmt"], "case": c}
            if line - 1 < len(case_list):
                rec["replay_case"] = dict(case_list[line - 1], orig_n=case_list[line - 1].get("orig_n", line - 1))
            run.failure(rec)
    run.traces += s["cases"]
    run.evaluations += s["cases"]
    # every case once more through the real command line (`versatiles convert -c <codec> [-f] in out`)
    tc = os.path.join(d, "trace_cli.ndjson")
    sc = C.run_harness(hb, ["cli", "CONVERT", cases, tc, C.scratch_dir("C04cli"), vbin, "1"], timeout=6000)
    vc = C.validate_trace("trace/Trace_Convert.tla", "trace/Trace_Convert.cfg", "C04_cli_trace", tc, timeout=3000)
    run.add_tlc(vc)
    for (line, fl) in vc.fails:
        for cl in fl["clauses"]:
            c = fl["case"]
            if cl == "cli_file_declared":
                run.observation("declared_compression_cli", {"src_tc": c["src_tc"], "target": c["target"], "fmt": c["fmt"]})
                continue
            if c.get("override") == 1:
                # `--override-input-compression` is not part of C04 (stated relative to the compression the source DECLARES)
                run.observation("override_input_compression", {"clause": cl, "src_tc": c["src_tc"], "target": c["target"], "fmt": c["fmt"], "args": c.get("args")})
                continue
            rec = {"clause": cl, "src_tc": c["src_tc"], "target": c["target"], "force": c["force"], "fmt": c["fmt"], "case": c}
            if c["id"] < len(case_list):
                rec["replay_case"] = dict(case_list[c["id"]], orig_n=case_list[c["id"]].get("orig_n", c["id"]))
            run.failure(rec)
    run.traces += sc["cases"]
    run.evaluations += sc["cases"]
    nt = [c for c in case_list if c["target"] != "keep" and (c["target"] != c["src_tc"] or c["force"] == 1)]
    run.nontrivial = len(nt)
    run.samples = [{k: v for k, v in c.items() if k != "classes"} for c in nt[:3]]
    run.exhaustive = mc is not None
    run.rule = ("all (source codec, target in {keep,none,gzip,brotli}, force, container format) combinations the target can express x two "
                "tile sets with payload classes 5 B / 1 KiB incompressible / 2 KiB compressible / 70 KB / 40 KiB incompressible / 999 B; "
                "lookup path, stream path and the file written by the real writer are decoded with the DECLARED codec and compared with "
                "the raw source payloads; metadata name read back from the file; every case is also run through the real `versatiles convert` "
                "command line (source file from the independent encoder, output decoded independently). non-trivial = a codec change or forced recompression")
    run.extra = {"cases": s["cases"], "cli_runs": sc["cases"], "cli_nonzero_exit": sc["nonzero_exit"]}
    run.assumptions = ["flate2/brotli trusted (codec algebra is abstract in the spec)"]
    return run.finish()
