"""Shared driver of the container family (C01, C02, C03, C16): spec/Container.tla, Layout_*.tla,
mc/MC_C01 (case enumeration + writer model theorem), trace/Trace_Container."""
import json
import os

from . import common as C

# which clauses of Trace_Container belong to which property
CLAUSES = {
    # (box streams are C02's clause and the advertised coverage C03's; C01 is the mapping itself: lookups, nothing extra, the
    #  declared parameters and the file's layout as decoded independently)
    "C01": {"write", "decode", "decode_params", "layout", "layout_clustered", "open", "params", "lookup", "extra"},
    "C02": {"stream"},
    "C03": {"coverage_contains", "coverage_exact"},
    "C16": {"open", "params", "lookup", "extra", "stream", "walk_coverage", "coverage_contains", "coverage_exact"},
}


def nontrivial_case(c):
    tiles = c["tiles"]
    if len(tiles) < 2:
        return False
    ps = [t[3] for t in tiles]
    blocks = {(t[0], t[1] // 256, t[2] // 256) for t in tiles}
    levels = sorted({t[0] for t in tiles})
    gap = any(b - a > 1 for a, b in zip(levels, levels[1:]))
    return len(set(ps)) < len(ps) or len(blocks) > len(levels) or gap


def run_family(prop, tier, seed, replay, origin="writer", mc_cfg=None, level="model_checking", extra_rule="", also_indep=False,
               run=None, finish=True):
    run = run or C.Run(prop, tier, seed, level)
    replay_sparse = []
    d = C.outdir(prop)
    hb = C.build_harness()
    cases = os.path.join(d, "cases.ndjson")
    scratch = C.scratch_dir(prop)
    mc = None
    if replay:
        rec = json.load(open(replay))
        rc = [fl["replay_case"] for fl in rec["failures"] if fl.get("replay_case") and fl["replay_case"].get("k") == "case"]
        with open(cases, "w") as f:
            for c in rc:
                if not c.get("sparse"):
                    f.write(json.dumps(c) + "\n")
        replay_sparse = [c for c in rc if c.get("sparse")]
    else:
        cfg = mc_cfg or ("mc/MC_C01_%s.cfg" % tier)
        mc = C.run_tlc("mc/MC_C01.tla", cfg, prop + "_mc", workers=8, replay_out=cases, timeout=2400)
        C.require_clean(mc, "MC_C01 (case enumeration + versatiles writer model theorem)")
        run.add_tlc(mc)
        if prop == "C03":
            # every MBTiles table on a 4x3 / 4x4 grid (extreme rows outside the sampled columns of the reader's query plan)
            cases3 = os.path.join(d, "cases_grid.ndjson")
            mc3 = C.run_tlc("mc/MC_C01.tla", "mc/MC_C03grid_%s.cfg" % tier, prop + "_mc_grid", workers=8, replay_out=cases3, timeout=2400)
            C.require_clean(mc3, "MC_C01 with the MBTiles grid cfg (query-plan theorem)")
            run.add_tlc(mc3)
            with open(cases, "a") as f:
                f.write(open(cases3).read())
        if also_indep:
            # the same clauses on files produced by the independent encoders (layout freedoms the writers never use)
            cases2 = os.path.join(d, "cases_indep.ndjson")
            mc2 = C.run_tlc("mc/MC_C01.tla", "mc/MC_C16_%s.cfg" % tier, prop + "_mc_indep", workers=8, replay_out=cases2, timeout=2400)
            C.require_clean(mc2, "MC_C01 with the independent-encoder cfg")
            run.add_tlc(mc2)
            with open(cases, "a") as f:
                f.write(open(cases2).read())
    case_list = C.read_ndjson(cases)
    if not replay:
        # directed: a tile of ZERO bytes, stored uncompressed, in the formats that can hold one (tar, directory, MBTiles;
        # versatiles and PMTiles encode "no tile" as length 0 and are not asked) -- next to an ordinary and a tiny tile
        empt = []
        for fmt, tf in (("tar", "png"), ("tar", "pbf"), ("directory", "png"), ("directory", "pbf"), ("mbtiles", "png")):
            for tiles in ([[1, 0, 0, 6], [1, 1, 0, 9], [2, 3, 3, 1]], [[0, 0, 0, 9]], [[3, 1, 1, 9], [3, 2, 1, 6], [3, 1, 2, 9]]):
                empt.append({"k": "case", "origin": origin, "fmt": fmt, "tf": tf, "tc": "none", "tiles": tiles, "choices": {"none": 1},
                             "classes": {"6": [999, 1], "9": [0, 4], "1": [5, 0]}, "directed": "empty_payload"})
        case_list += empt
        # directed: columns whose row numbers have DIFFERENT NUMBERS OF DIGITS (9, 10, 11 / 99, 100, 101): file names then sort
        # differently from rows ("10" < "11" < "9"), and the extreme row is neither the first nor the last name of its column
        for fmt, tf, tc in (("directory", "pbf", "gzip"), ("directory", "png", "none"), ("tar", "pbf", "none"), ("mbtiles", "pbf", "gzip"),
                            ("versatiles", "pbf", "brotli"), ("pmtiles", "pbf", "gzip")):
            for tiles in ([[4, 3, 9, 1], [4, 3, 10, 2], [4, 3, 11, 3], [4, 5, 10, 4]],
                          [[7, 99, 99, 1], [7, 99, 100, 2], [7, 99, 101, 3], [7, 100, 100, 4], [7, 9, 100, 5]],
                          [[4, 9, 3, 1], [4, 10, 3, 2], [4, 11, 3, 3], [4, 10, 5, 4]]):
                case_list.append({"k": "case", "origin": origin, "fmt": fmt, "tf": tf, "tc": tc, "tiles": tiles, "choices": {"none": 1},
                                  "directed": "digit_count"})
        # directed (independent encoder): a tar archive whose members take turns between the levels, so that every level comes
        # in several runs with different extents (an archive that was appended to, or written depth-first by another tool)
        if prop in ("C03", "C16"):
            for dot in (0, 1):
                for tiles in ([[3, 1, 2, 1], [3, 6, 5, 2], [4, 0, 0, 3], [4, 15, 15, 4]],
                              [[2, 0, 3, 1], [2, 3, 0, 2], [2, 1, 1, 3], [5, 9, 10, 4], [5, 30, 2, 5], [5, 11, 11, 6]]):
                    case_list.append({"k": "case", "origin": "indep", "fmt": "tar", "tf": "pbf", "tc": "gzip", "tiles": tiles,
                                      "choices": {"dot_prefix": dot, "dir_members": 0, "ustar": 0, "reverse": 0, "interleave": 1},
                                      "directed": "tar_level_runs"})
        # directed (independent encoder): a PMTiles archive whose directory has a RUN (ids 0..4: level 0 and level 1 share one
        # payload) followed, more than 2^32 ids later, by a small patch on level 16 (ids 2^32+4 ..): the tile just before the patch
        # (id 2^32+3, an edge neighbour that the lookups probe) is 2^32+3 ids away from the run -- modulo 2^32 that is 3, inside it
        if prop in ("C03", "C16"):
            for rl in (1, 0):
                case_list.append({"k": "case", "origin": "indep", "fmt": "pmtiles", "tf": "pbf", "tc": "gzip",
                                  "tiles": [[0, 0, 0, 1], [1, 0, 0, 1], [1, 0, 1, 1], [1, 1, 1, 1], [1, 1, 0, 1], [16, 65535, 65532, 2],
                                            [16, 65535, 65531, 3], [16, 65535, 65530, 4], [16, 65534, 65530, 5]],
                                  "choices": {"run_lengths": rl, "share": rl, "leaf_levels": 0, "leaf_size": 2, "mixed_root": 0, "internal": "gzip",
                                              "unclustered": 0, "type_unknown": 0}, "directed": "pmtiles_id_gap_2_32"})
        with open(cases, "w") as f:
            for c in case_list:
                f.write(json.dumps(c) + "\n")
    if prop == "C16" and not replay:
        # every 40th versatiles / pmtiles case once more through the HTTP data reader (get_reader("http://..."))
        extra = []
        for i, c in enumerate([c for c in case_list if c["fmt"] in ("versatiles", "pmtiles")]):
            if i % 40 == 0:
                c2 = dict(c)
                c2["via"] = "http"
                extra.append(c2)
        case_list += extra
        with open(cases, "w") as f:
            for c in case_list:
                f.write(json.dumps(c) + "\n")
    t1 = os.path.join(d, "trace_replay.ndjson")
    s1 = C.run_harness(hb, ["replay", "CONTAINER", cases, t1, scratch, prop], timeout=6000)
    v1 = C.validate_trace("trace/Trace_Container.tla", "trace/Trace_Container.cfg", prop + "_trace_replay", t1, timeout=3000, heap="12g")
    run.add_tlc(v1)
    mine = CLAUSES[prop]

    def collect(fails, source, clist):
        for (line, fl) in fails:
            for cl in fl["clauses"]:
                if cl not in mine:
                    continue
                envtxt = str(fl["case"].get("write_err", "")) + str(fl["case"].get("open_err", ""))
                if "timed out waiting for connection" in envtxt:
                    # r2d2's 30 s wait for an SQLite connection ran out five times in a row: the load of this machine, not a verdict
                    raise C.ToolError("environment: SQLite connection pool timed out repeatedly (machine overloaded): %s" % envtxt[:200])
                rec = {"clause": cl, "source": source, "fmt": fl["case"]["fmt"], "tf": fl["case"]["tf"], "tc": fl["case"]["tc"],
                       "origin": fl["case"]["origin"], "via": fl["case"].get("via", "file"), "case": fl["case"]}
                if cl == "stream":
                    rec["bad_streams"] = fl.get("bad_streams")
                    rec["stream_status"] = sorted({b["status"] for b in fl.get("bad_streams", [])})
                lv = fl["case"]["levels"]
                rec["deepest_level"] = max(lv) if lv else -1
                rec["zoom_gap"] = any(b - a > 1 for a, b in zip(lv, lv[1:]))
                if clist is not None and line - 1 < len(clist):
                    rec["replay_case"] = clist[line - 1]
                    # C01 speaks of "every NON-EMPTY tile": what a writer / reader does with a tile of zero bytes is not
                    # prescribed there (versatiles and PMTiles cannot even express one) -> an observation under C01; the same
                    # cases are judged under C16 ("exactly the encoded tiles"), C02 and C03
                    if prop == "C01" and clist[line - 1].get("directed") == "empty_payload":
                        run.observation("zero_byte_tile", {"clause": cl, "fmt": rec["fmt"], "tf": rec["tf"]})
                        continue
                run.failure(rec)

    collect(v1.fails, "replay", case_list)
    run.traces += s1["cases"]
    run.evaluations += s1["cases"]
    s2 = {"cases": 0, "tiles": 0, "samples": []}
    if not replay and origin == "writer":
        t2 = os.path.join(d, "trace_random.ndjson")
        s2 = C.run_harness(hb, ["record", "CONTAINER", t2, scratch, prop], timeout=6000)
        v2 = C.validate_trace("trace/Trace_Container.tla", "trace/Trace_Container.cfg", prop + "_trace_random", t2, timeout=3000, heap="16g")
        run.add_tlc(v2)
        collect(v2.fails, "random", None)
        run.traces += s2["cases"]
        run.evaluations += s2["cases"]
    s3 = {"cases": 0, "not_completed": 0}
    if (not replay and prop in ("C01", "C16")) or replay_sparse:
        # sparse deep tile sets (two or three tiles far apart on levels 12..31), every case in its own process under an
        # address-space and a time limit: work in proportion to a level's bounding box shows as an abort or a timeout
        cases3 = os.path.join(d, "cases_sparse.ndjson")
        uniq = []
        if replay_sparse:
            uniq = replay_sparse
        else:
            mc3 = C.run_tlc("mc/MC_Sparse.tla", "mc/MC_Sparse_%s_%s.cfg" % (origin, tier), prop + "_mc_sparse", workers=1, replay_out=cases3, timeout=600)
            C.require_clean(mc3, "MC_Sparse")
            run.add_tlc(mc3)
            for c in C.read_ndjson(cases3):
                if c not in uniq:
                    uniq.append(c)
        with open(cases3, "w") as f:
            for c in uniq:
                f.write(json.dumps(c) + "\n")
        t3 = os.path.join(d, "trace_sparse.ndjson")
        s3 = C.run_harness(hb, ["isolated", "CONTAINER", cases3, t3, scratch, prop], timeout=6000,
                           env_extra={"VERIF_ISOLATED_TIMEOUT": "240" if tier == "thorough" else "60"})
        v3 = C.validate_trace("trace/Trace_Container.tla", "trace/Trace_Container.cfg", prop + "_trace_sparse", t3, timeout=3000, heap="8g")
        run.add_tlc(v3)
        collect(v3.fails, "sparse", uniq)
        run.traces += s3["cases"]
        run.evaluations += s3["cases"]
        case_list = case_list + uniq
    nt = [c for c in case_list if nontrivial_case(c)]
    run.nontrivial = len({json.dumps(c, sort_keys=True) for c in nt})
    run.samples = nt[:2] + s2.get("samples", [])[:2]
    run.exhaustive = mc is not None
    run.rule = ("TLC enumerates every assignment of {absent, 999-byte payload, 1000-byte payload} to the coordinate universe of the "
                ".cfg (level 0, level-1/3 borders, both sides of the 256-block grid at level 9, zoom gaps) x container formats x "
                "(tile format, compression) pairs" + (" x every layout choice of the independent encoders" if origin == "indep" else "")
                + "; each case is materialised, decoded independently, opened by the real reader and judged by TLC; random: "
                "tile sets of 40..20000 tiles in windows of up to 330x330 tiles on levels 0..31 with payload sizes around the de-dup threshold; "
                "sparse (C01, C16): 7 tile sets of 2-3 tiles far apart on levels 12..31 x formats, each in its own process under a 6 GiB "
                "address-space limit and a time limit. "
                "non-trivial = enumerated case with >= 2 tiles and (duplicate payloads or more blocks than levels or a zoom gap). "
                + extra_rule)
    run.extra = {"enumerated_cases": s1["cases"], "random_cases": s2["cases"], "random_tiles": s2.get("tiles", 0),
                 "sparse_cases": s3["cases"], "sparse_not_completed": s3["not_completed"]}
    run.assumptions = ["flate2/brotli/rusqlite crates are trusted codecs for the independent decoder",
                       "payload identity is byte equality with the generated payload of that id"]
    return run.finish() if finish else run
