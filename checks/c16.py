"""C16 — real readers on containers produced by the independent encoders with layout freedoms; plus the PMTiles addressing
primitives (tile id <-> coordinate, directory search with run lengths and leaf pointers) against spec/Layout_PMTiles.tla."""
import json
import os

from . import common as C
from . import containers


def pmtiles_addressing_stage(run, tier, replay):
    d = C.outdir("C16_pm")
    hb = C.build_harness()
    cases = os.path.join(d, "cases.ndjson")
    if replay:
        rec = json.load(open(replay))
        with open(cases, "w") as f:
            for fl in rec["failures"]:
                if fl.get("replay_case") and fl["replay_case"].get("k") in ("level", "dir"):
                    f.write(json.dumps(fl["replay_case"]) + "\n")
    else:
        # TLC: Hilbert bijection / adjacency on levels 0..MaxZ, find_tile = the published covering rule on EVERY directory
        mc = C.run_tlc("mc/MC_PMTiles.tla", "mc/MC_PMTiles_%s.cfg" % tier, "C16_mc_pmtiles", workers=8, replay_out=cases, timeout=2400, heap="16g")
        C.require_clean(mc, "MC_PMTiles (theorems of Layout_PMTiles.tla)")
        run.add_tlc(mc)
    uniq = []
    seen = set()
    for c in C.read_ndjson(cases):
        k = json.dumps(c, sort_keys=True)
        if k not in seen:
            seen.add(k)
            uniq.append(c)
    with open(cases, "w") as f:
        for c in uniq:
            f.write(json.dumps(c) + "\n")
    if not uniq:
        return run
    t = os.path.join(d, "trace.ndjson")
    s = C.run_harness(hb, ["replay", "PMTILES", cases, t], timeout=1200)
    v = C.validate_trace("trace/Trace_PMTiles.tla", "trace/Trace_PMTiles.cfg", "C16_trace_pmtiles", t, timeout=1800)
    run.add_tlc(v)
    for (line, fl) in v.fails:
        for cl in fl["clauses"]:
            rec = {"clause": cl, "source": "pmtiles_addressing", "fmt": "pmtiles", "case": fl["case"]}
            if line - 1 < len(uniq):
                rec["replay_case"] = uniq[line - 1]
            run.failure(rec)
    run.traces += s["cases"]
    run.evaluations += s["cases"]
    run.nontrivial += len([c for c in uniq if c["k"] == "dir" and len(c["entries"]) >= 2])
    run.extra.update({"pmtiles_levels": s["levels"], "pmtiles_directories": s["dirs"]})
    run.rule += (" || PMTiles addressing (hook H4): every coordinate and id of levels 0..MaxZ through the real tile-id functions, every "
                 "directory over a small id space (run lengths 0..3, 0 = leaf pointer) through the real find_tile, judged with "
                 "Layout_PMTiles.tla (transcriptions proved bijective / equal to the published covering rule by TLC)")
    return run


def http_range_stage(run):
    """Beyond the listed properties (observations only, never a verdict or a tool error): range reads over HTTP against an
    untrusted server (spec/HttpRange.tla): an error or exactly the requested bytes."""
    try:
        d = C.outdir("C16_http")
        cases = os.path.join(d, "cases.ndjson")
        mc = C.run_tlc("mc/MC_HttpRange.tla", "mc/MC_HttpRange.cfg", "C16_mc_httprange", workers=2, replay_out=cases, timeout=600)
        C.require_clean(mc, "MC_HttpRange (ThmClientSafe, WitnessBodyLengthUnchecked)")
        t = os.path.join(d, "trace.ndjson")
        s = C.run_harness(C.build_harness(), ["replay", "HTTPRANGE", cases, t, C.scratch_dir("C16http")], timeout=1200)
        v = C.validate_trace("trace/Trace_HttpRange.tla", "trace/Trace_HttpRange.cfg", "C16_trace_httprange", t, timeout=600)
        by = {}
        for (_, fl) in v.fails:
            for cl in fl["clauses"]:
                by.setdefault((cl, fl["case"]["mode"]), []).append(fl["case"])
        for (cl, mode), cs in sorted(by.items()):
            run.observation(cl, {"server_behaviour": mode, "count": len(cs), "first": {k: cs[0].get(k) for k in ("off", "len", "ok", "bytes", "err")}})
        run.extra.update({"http_range_calls (beyond the property)": s["cases"], "http_range_observations": {"%s/%s" % k: len(v) for k, v in by.items()}})
    except Exception as e:                      # noqa: BLE001
        run.observation("http_range_stage_error", {"what": str(e)[:300]})


def run(tier, seed, replay):
    run = C.Run("C16", tier, seed, "model_checking")
    containers.run_family("C16", tier, seed, replay, origin="indep", mc_cfg="mc/MC_C16_%s.cfg" % tier, run=run, finish=False)
    pmtiles_addressing_stage(run, tier, replay)
    if not replay:
        http_range_stage(run)
    return run.finish()
