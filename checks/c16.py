"""C16 — real readers on containers produced by the independent encoders with layout freedoms."""
from . import containers


def run(tier, seed, replay):
    return containers.run_family("C16", tier, seed, replay, origin="indep", mc_cfg="mc/MC_C16_%s.cfg" % tier)
