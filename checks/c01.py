"""C01 — container round trip (writer origin)."""
from . import containers


def run(tier, seed, replay):
    return containers.run_family("C01", tier, seed, replay)
