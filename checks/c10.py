"""C10 — from_vectortiles_merged."""
from . import vtiles


def run(tier, seed, replay):
    def nontrivial(c):
        ex = [t for t in c["tiles"] if t["exists"] == 1]
        names = [set(l["name"] for l in t["tile"]) for t in ex]
        return len(ex) >= 2 and any(names[i] & names[j] for i in range(len(names)) for j in range(i + 1, len(names)))
    rule = ("TLC enumerates lists of source tiles (or no tile) with layers a/b present or not, features from a pool with different key/value "
            "sets, ids none/7/2^64-1, x extent variant x key/value-table encoding variants (minimal; duplicates + unused entries + alternative "
            "integer wire types); sources are stored none/gzip; the real from_vectortiles_merged is built from VPL; lookup and stream results "
            "are decoded independently and judged by TLC against Merged(). non-trivial = >= 2 sources have a tile and share a layer name")
    return vtiles.run_vt("C10", tier, seed, replay, ("merge_",), rule, nontrivial)
