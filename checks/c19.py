"""C19 — decoders report malformed input as an error (spec/Decode.tla, mc/MC_C19, trace/Trace_C19)."""
import json
import os
import re

from . import common as C


def site_of(msg):
    """structural identification of a panic site: source file + kind of failure (never a line number)"""
    m = re.search(r"([a-z_]+/src/[a-z_/]+\.rs)", msg or "")
    return m.group(1) if m else ""


def run(tier, seed, replay):
    run = C.Run("C19", tier, seed, "exploration")
    d = C.outdir("C19")
    hb = C.build_harness()
    cases = os.path.join(d, "cases.ndjson")
    mc = None
    if replay:
        rec = json.load(open(replay))
        with open(cases, "w") as f:
            for fl in rec["failures"]:
                if fl.get("case"):
                    f.write(json.dumps(fl["case"]) + "\n")
    else:
        mc = C.run_tlc("mc/MC_C19.tla", "mc/MC_C19_%s.cfg" % tier, "C19_mc", workers=8, replay_out=cases, timeout=2400)
        C.require_clean(mc, "MC_C19")
        run.add_tlc(mc)
    case_list = C.read_ndjson(cases)
    t = os.path.join(d, "trace.ndjson")
    s = C.run_harness(hb, ["decode", "C19", cases, t, C.scratch_dir("C19")], timeout=6000, env_extra={"VERIF_PANIC_VERBOSE": "0"})
    v = C.validate_trace("trace/Trace_C19.tla", "trace/Trace_C19.cfg", "C19_trace", t, timeout=3000, heap="12g")
    run.add_tlc(v)
    for (line, fl) in v.fails:
        c = fl["case"]
        msg = fl.get("msg", "")
        rec = {"outcome": fl["clauses"][0], "kind": c["k"], "dec": c.get("dec", c.get("fmt", "")), "field": c.get("field", ""),
               "class": c.get("class", ""), "msg": msg[:200], "case": c}
        run.failure(rec)
    run.traces += 1
    run.evaluations += s["cases"]
    nt = [c for c in case_list if c["k"] != "text" or any(b in (195, 169, 255, 92) for b in c["bytes"])]
    run.nontrivial = len(nt)
    run.samples = [c for c in case_list if c["k"] == "bin"][:2] + [c for c in case_list if c["k"] == "text" and len(c["bytes"]) > 5][:2]
    run.rule = ("TLC enumerates (1) every sequence of up to MaxLen representative bytes appended to every lexer-state context of the JSON, VPL "
                "and CSV decoders, (2) a multi-byte character at every distance 0..Win before/after an error site (error-message ring buffer), "
                "(3) every (field, corruption class) pair of the versatiles / PMTiles / MBTiles / tar / MVT layouts applied to a valid encoding "
                "from the independent encoders (9 classes incl. 'plausible' = 2^32), (4) nesting depths 16/64/256, (5) runs of multi-byte characters at every alignment around "
                "error sites, (6) CSV tables by shape (header x 1..4 rows of 0..4 fields); each case runs in a child process with a 8 GiB address-space limit "
                "and a 15 s watchdog; outcome must be value or error. non-trivial = binary corruption, nesting, ring-buffer case, or text with a "
                "non-ASCII / invalid / escape byte")
    run.exhaustive = False
    run.extra = {"cases": s["cases"], "outcomes": s["outcomes"], "child_restarts": s["child_restarts"]}
    run.assumptions = ["exploration: systematic over lexer states x byte classes and over fields x corruption classes, not over all byte strings",
                       "allocation out of proportion: the harness's counting allocator logs the largest single request per case (Rust allocations only, not SQLite's) and Decode.tla AllocOK bounds it by 256 MiB + 1 KiB per input byte; beyond 8 GiB the address-space limit aborts the child"]
    return run.finish()
