"""Shared machinery of the /verif checks (python3 stdlib only).

One check run = build harness from /repo's working tree -> TLC on the bounded model
(spec-level theorems + enumerated cases/behaviours) -> harness executes the cases on
the real code and records observations -> TLC validates the recorded trace against
the specification -> evidence + exit code.
"""
import hashlib
import json
import os
import re
import shutil
import subprocess
import sys
import time

VERIF = os.path.dirname(os.path.dirname(os.path.abspath(__file__)))
REPO = os.environ.get("VERIF_REPO", "/repo")
OUT = os.path.join(VERIF, "out")
BUILD = os.path.join(VERIF, ".build")
SPEC = os.path.join(VERIF, "spec")
TLA_CP = "/opt/veriftools/tla/tla2tools.jar:/opt/veriftools/tla/CommunityModules-deps.jar"

EXIT_OK, EXIT_VIOLATION, EXIT_TOOL = 0, 1, 2


class ToolError(Exception):
    pass


def log(*a):
    print("[check]", *a, file=sys.stderr, flush=True)


def env_offline():
    e = dict(os.environ)
    e.update({"CARGO_NET_OFFLINE": "true", "GOPROXY": "off", "PIP_NO_INDEX": "1"})
    return e


# --------------------------------------------------------------------------- build
def build_harness():
    """cargo build of /verif/harness against /repo's current working tree (cfg versatiles_verif)."""
    t = time.time()
    hdir = os.path.join(VERIF, "harness")
    lock = os.path.join(hdir, "Cargo.lock")
    if not os.path.exists(lock):
        shutil.copy(os.path.join(REPO, "Cargo.lock"), lock)
    p = subprocess.run(["cargo", "build", "--offline", "--quiet"], cwd=hdir, env=env_offline(),
                       stdout=subprocess.PIPE, stderr=subprocess.STDOUT, text=True)
    if p.returncode != 0:
        sys.stderr.write(p.stdout[-6000:])
        raise ToolError("harness build failed (does /repo still compile?)")
    log("harness built in %.1fs" % (time.time() - t))
    return os.path.join(BUILD, "harness", "debug", "vharness")


def build_binary():
    """cargo build of the real `versatiles` binary from /repo's working tree into /verif/.build/bin."""
    t = time.time()
    tdir = os.path.join(BUILD, "bin")
    e = env_offline()      # the production configuration: hooks (cfg versatiles_verif) are OFF in the served binary
    p = subprocess.run(["cargo", "build", "--offline", "--quiet", "-p", "versatiles", "--bin", "versatiles",
                        "--target-dir", tdir], cwd=REPO, env=e,
                       stdout=subprocess.PIPE, stderr=subprocess.STDOUT, text=True)
    if p.returncode != 0:
        sys.stderr.write(p.stdout[-6000:])
        raise ToolError("versatiles binary build failed")
    log("versatiles binary built in %.1fs" % (time.time() - t))
    return os.path.join(tdir, "debug", "versatiles")


def run_harness(binary, args, timeout=3600, env_extra=None, check=True, prefix=None):
    e = env_offline()
    if env_extra:
        e.update(env_extra)
    cmd = (prefix or []) + [binary] + args
    t = time.time()
    p = subprocess.run(cmd, env=e, stdout=subprocess.PIPE, stderr=subprocess.PIPE, text=True, timeout=timeout)
    if check and p.returncode != 0:
        sys.stderr.write(p.stderr[-4000:])
        raise ToolError("harness %s failed with exit %d" % (" ".join(args[:2]), p.returncode))
    summary = {}
    for line in p.stdout.splitlines():
        if line.startswith("SUMMARY "):
            summary = json.loads(line[8:])
    log("harness %s: %.1fs %s" % (" ".join(args[:2]), time.time() - t,
                                   json.dumps({k: v for k, v in summary.items() if not isinstance(v, (list, dict))})))
    return summary


# --------------------------------------------------------------------------- TLC
_TLA_STR = re.compile(r'"((?:[^"\\]|\\.)*)"')


def _unescape_tla(s):
    # TLC prints strings with \" \\ \n \t \r \f escapes
    out, i = [], 0
    while i < len(s):
        c = s[i]
        if c == "\\" and i + 1 < len(s):
            n = s[i + 1]
            out.append({"n": "\n", "t": "\t", "r": "\r", "f": "\f"}.get(n, n))
            i += 2
        else:
            out.append(c)
            i += 1
    return "".join(out)


class TlcResult:
    def __init__(self):
        self.generated = 0
        self.distinct = 0
        self.depth = 0
        self.errors = []       # spec-level errors (invariant violated, parse error, ...)
        self.fails = []        # parsed FAIL records from trace specs: (line_no, dict)
        self.replay_file = None
        self.replay_count = 0
        self.tagged = {}       # other tagged PrintT tuples: tag -> list of raw strings
        self.wall = 0.0
        self.log = None
        self.coverage = {}     # action name -> (distinct, total) when -coverage was on


def run_tlc(module, cfg, name, workers=4, timeout=1800, env_extra=None, replay_out=None, heap="8g",
            simulate=None, depth=None, coverage=False, dfs=False, extra_args=None):
    """Run TLC on spec/<module>.tla with spec/<cfg>. REPLAY lines are written (unescaped) to replay_out."""
    os.makedirs(os.path.join(OUT, "tlc"), exist_ok=True)
    meta = os.path.join(OUT, "tlc", name)
    shutil.rmtree(meta, ignore_errors=True)
    logf = os.path.join(OUT, "tlc", name + ".log")
    mod_path = os.path.join(SPEC, module)
    jtmp = os.path.join(OUT, "tlc", "jtmp")       # nothing of a run lives under /tmp
    os.makedirs(jtmp, exist_ok=True)
    java = ["java", "-XX:+UseParallelGC", "-Xmx" + heap, "-Xss1g", "-Djava.io.tmpdir=" + jtmp, "-DTLA-Library=" + SPEC + ":" + os.path.join(SPEC, "mc") + ":" + os.path.join(SPEC, "trace")]
    if dfs:
        java.append("-Dtlc2.tool.queue.IStateQueue=StateDeque")
    cmd = ["timeout", str(timeout)] + java + ["-cp", TLA_CP, "tlc2.TLC", "-workers", str(workers), "-metadir", meta,
                                              "-cleanup", "-noGenerateSpecTE", "-config", os.path.join(SPEC, cfg)]
    if simulate:
        cmd += ["-simulate", "num=%d" % simulate]
    if depth:
        cmd += ["-depth", str(depth)]
    if coverage:
        cmd += ["-coverage", "1"]
    if extra_args:
        cmd += extra_args
    cmd.append(mod_path)
    e = env_offline()
    e.pop("JAVA_TOOL_OPTIONS", None)
    if env_extra:
        e.update(env_extra)
    res = TlcResult()
    res.log = logf
    t = time.time()
    rep = open(replay_out, "w") if replay_out else None
    with open(logf, "w") as lf:
        p = subprocess.Popen(cmd, cwd=os.path.dirname(mod_path), env=e, stdout=subprocess.PIPE,
                             stderr=subprocess.STDOUT, text=True, errors="replace")
        in_error = False
        for line in p.stdout:
            if line.startswith('<<"REPLAY", "'):
                body = line.rstrip("\n")[len('<<"REPLAY", "'):-len('">>')]
                if rep:
                    rep.write(_unescape_tla(body) + "\n")
                res.replay_count += 1
                continue
            if line.startswith('<<"FAIL", '):
                m = re.match(r'<<"FAIL", (-?\d+), "(.*)">>\s*$', line)
                if m:
                    res.fails.append((int(m.group(1)), json.loads(_unescape_tla(m.group(2)))))
                else:
                    res.errors.append("unparsable FAIL line: " + line.strip()[:300])
                lf.write(line)
                continue
            m = re.match(r'<<"([A-Z_]+)", (.*)>>\s*$', line)
            if m:
                res.tagged.setdefault(m.group(1), []).append(m.group(2))
            lf.write(line)
            m = re.match(r"(\d+) states generated, (\d+) distinct states found", line)
            if m:
                res.generated, res.distinct = int(m.group(1)), int(m.group(2))
            m = re.match(r"The depth of the complete state graph search is (\d+)", line)
            if m:
                res.depth = int(m.group(1))
            m = re.match(r"The number of states generated: (\d+)", line)
            if m and simulate:
                res.generated = res.distinct = int(m.group(1))
            if line.startswith("Error:") or "is violated" in line or "Fatal error" in line \
                    or "*** Errors" in line or "java.lang." in line and "Exception" in line:
                res.errors.append(line.strip()[:500])
        p.wait()
        rc = p.returncode
    if rep:
        rep.close()
        res.replay_file = replay_out
    res.wall = time.time() - t
    if rc == 124:
        raise ToolError("TLC timed out after %ds on %s (log %s)" % (timeout, module, logf))
    if rc != 0 and not res.errors:
        res.errors.append("TLC exit code %d" % rc)
    log("TLC %s: %d generated, %d distinct, %d REPLAY, %d FAIL, %d errors, %.1fs"
        % (name, res.generated, res.distinct, res.replay_count, len(res.fails), len(res.errors), res.wall))
    return res


def validate_trace(module, cfg, name, trace_file, timeout=1800, heap="8g", env_extra=None, allow_reject=False):
    """TLC on a trace spec; the trace file is passed through IOEnv.TRACE.
    allow_reject: for trace specs that ACCEPT BY POSTCONDITION (a record no step of the specification explains ends the
    behaviour): a false postcondition is then a verdict (res.rejected_at = number of records consumed, res.rejected_event),
    not a tool error."""
    env = {"TRACE": trace_file}
    if env_extra:
        env.update(env_extra)
    res = run_tlc(module, cfg, name, workers=1, timeout=timeout, env_extra=env, heap=heap, dfs=True)
    res.rejected_at = None
    if allow_reject and res.errors and all("Postcondition AllConsumed" in e or "behavior up to this point" in e for e in res.errors):
        for line in open(res.log, errors="replace"):
            m = re.match(r'<<"NOT_CONSUMED", (\d+), (\d+)(?:, "(.*)")?>>', line.strip())
            if m:
                res.rejected_at = int(m.group(1))
                res.rejected_event = (m.group(3) or "").replace('\\"', '"')
        if res.rejected_at is not None:
            res.errors = []
            return res
    if res.errors:
        # NOT_CONSUMED or evaluation errors inside the trace spec are tool/model errors, never silently ignored
        raise ToolError("trace validation %s did not complete: %s (log %s)" % (name, res.errors[:3], res.log))
    return res


def run_apalache(module_path, args, name, timeout=900):
    """apalache-mc check on a module (absolute path). Returns (ok, violated, log): ok = outcome NoError,
    violated = an invariant violation was reported."""
    od = os.path.join(OUT, "apalache", name)
    shutil.rmtree(od, ignore_errors=True)
    os.makedirs(od, exist_ok=True)
    t = time.time()
    p = subprocess.run(["timeout", str(timeout), "apalache-mc", "check", "--out-dir=" + od] + args + [module_path],
                       cwd=os.path.dirname(module_path), env=env_offline(), stdout=subprocess.PIPE, stderr=subprocess.STDOUT, text=True)
    logf = os.path.join(od, "stdout.log")
    open(logf, "w").write(p.stdout)
    ok = "The outcome is: NoError" in p.stdout
    violated = "invariant" in p.stdout and "violated" in p.stdout
    if p.returncode == 124:
        raise ToolError("apalache timed out on %s (%s)" % (module_path, logf))
    if not ok and not violated:
        raise ToolError("apalache failed on %s: %s (%s)" % (module_path, p.stdout[-400:], logf))
    log("apalache %s %s: %s, %.1fs" % (name, " ".join(args), "NoError" if ok else "invariant violated", time.time() - t))
    return ok, violated, logf


def require_clean(res, what):
    if res.errors:
        raise ToolError("%s: TLC reported %s (log %s)" % (what, res.errors[:3], res.log))


# --------------------------------------------------------------------------- known findings
def load_known():
    p = os.path.join(VERIF, "known_findings.json")
    if not os.path.exists(p):
        return {"findings": [], "fixed": []}
    return json.load(open(p))


def _get(rec, path):
    cur = rec
    for part in path.split("."):
        if isinstance(cur, dict) and part in cur:
            cur = cur[part]
        elif isinstance(cur, list) and part.isdigit() and int(part) < len(cur):
            cur = cur[int(part)]
        else:
            return None
    return cur


def _match_value(actual, want):
    if isinstance(want, dict) and len(want) == 1:
        (op, arg), = want.items()
        if op == "in":
            return actual in arg
        if op == "contains":
            return isinstance(actual, (list, str)) and arg in actual
        if op == "regex":
            return isinstance(actual, str) and re.search(arg, actual) is not None
        if op == "ge":
            return isinstance(actual, (int, float)) and actual >= arg
        if op == "le":
            return isinstance(actual, (int, float)) and actual <= arg
        if op == "subset_of":
            return isinstance(actual, list) and set(actual) <= set(arg)
    return actual == want


def match_known(prop, failure, known):
    for f in known.get("findings", []):
        if f.get("property") != prop:
            continue
        if all(_match_value(_get(failure, k), v) for k, v in f["match"].items()):
            return f
    return None


# --------------------------------------------------------------------------- result / evidence
class Run:
    """Collects counts for one check run and produces evidence + exit code."""

    def __init__(self, prop, tier, seed, level):
        self.prop, self.tier, self.seed, self.level = prop, tier, seed, level
        self.t0 = time.time()
        self.states = 0
        self.transitions = 0
        self.traces = 0
        self.evaluations = 0
        self.nontrivial = 0
        self.samples = []
        self.rule = ""
        self.exhaustive = False
        self.extra = {}
        self.assumptions = []
        self.failures = []   # unlisted violations
        self.known_hits = {}  # finding id -> count
        self.known = load_known()
        self.observations = {}  # clause -> [count, first record]: system behaviour BEYOND the listed properties

    def add_tlc(self, res):
        self.states += res.distinct
        self.transitions += res.generated

    def failure(self, rec):
        """Classify one failing record (dict). Known findings are counted, others are violations."""
        # r2d2 (the SQLite connection pool of the MBTiles reader / writer) gives up after 30 s of waiting for a connection: that
        # is the load of this machine, never a property of the code under test -> a tool error, not a verdict
        try:
            if "timed out waiting for connection" in json.dumps(rec)[:20000]:
                raise ToolError("environment: an SQLite connection pool timed out (machine overloaded); not a verdict")
        except (TypeError, ValueError):
            pass
        f = match_known(self.prop, rec, self.known)
        if f:
            k = f["id"]
            if k not in self.known_hits:
                self.known_hits[k] = [0, f, rec]
            self.known_hits[k][0] += 1
        else:
            self.failures.append(rec)

    def observation(self, clause, rec):
        """A clause of the specification that belongs to no listed property failed: reported, never an alarm."""
        o = self.observations.setdefault(clause, [0, rec])
        o[0] += 1

    def finish(self):
        wall = time.time() - self.t0
        cov = {
            "states": self.states, "transitions": self.transitions,
            "traces_validated_against_impl": self.traces,
            "evaluations": self.evaluations, "distinct_nontrivial": self.nontrivial,
            "rule": self.rule, "samples": self.samples[:8], "exhaustive": self.exhaustive,
            "known_findings_hit": {k: v[0] for k, v in self.known_hits.items()},
        }
        cov.update(self.extra)
        if self.observations:
            cov["observations_beyond_the_properties"] = {k: {"count": v[0], "first": v[1]} for k, v in self.observations.items()}
        ev = {"property_id": self.prop, "tier": self.tier, "seed": self.seed, "level": self.level,
              "coverage": cov, "assumptions": self.assumptions, "wall_s": round(wall, 2),
              "violations": len(self.failures)}
        # seed runs (bin/seed-run applies a defect to /repo) must not overwrite the evidence of the real tree
        evdir = os.environ.get("VERIF_EVIDENCE_DIR") or os.path.join(VERIF, "evidence")
        os.makedirs(evdir, exist_ok=True)
        with open(os.path.join(evdir, self.prop + ".json"), "w") as f:
            json.dump(ev, f, indent=1, sort_keys=True)
            f.write("\n")
        for k, (n, rec) in sorted(self.observations.items()):
            print("OBSERVATION (beyond the listed properties): clause=%s occurrences=%d first=%s" % (k, n, json.dumps(rec)[:400]))
        for k, (n, f, rec) in sorted(self.known_hits.items()):
            print("KNOWN-FINDING: property=%s %s [%s, %d occurrence(s) in this run]" % (self.prop, f["what"], k, n))
        if self.failures:
            os.makedirs(os.path.join(OUT, "replays"), exist_ok=True)
            path = os.path.join(OUT, "replays", "%s-%s-%d.json" % (self.prop, self.tier, self.seed))
            with open(path, "w") as f:
                json.dump({"property": self.prop, "tier": self.tier, "seed": self.seed,
                           "count": len(self.failures), "failures": self.failures[:50]}, f, indent=1)
            first = self.failures[0]
            print("first failing case: " + json.dumps(first)[:1500])
            print("VIOLATION property=%s replay=%s" % (self.prop, path))
            return EXIT_VIOLATION
        print("OK property=%s tier=%s states=%d transitions=%d traces=%d evaluations=%d nontrivial=%d wall=%.1fs"
              % (self.prop, self.tier, self.states, self.transitions, self.traces, self.evaluations,
                 self.nontrivial, wall))
        return EXIT_OK


def outdir(prop):
    d = os.path.join(OUT, prop)
    os.makedirs(d, exist_ok=True)
    return d


def scratch_dir(prop):
    """per-run scratch directory for container files: tmpfs when available (SQLite fsyncs dominate otherwise)"""
    import atexit
    base = "/dev/shm" if os.path.isdir("/dev/shm") and os.access("/dev/shm", os.W_OK) else OUT
    d = os.path.join(base, "verif_scratch_%s_%d" % (prop, os.getpid()))
    os.makedirs(d, exist_ok=True)
    atexit.register(lambda: shutil.rmtree(d, ignore_errors=True))
    return d


def read_ndjson(path):
    with open(path) as f:
        return [json.loads(l) for l in f if l.strip()]


def canon_hash(obj):
    return hashlib.sha1(json.dumps(obj, sort_keys=True).encode()).hexdigest()
