"""C05 — HTTP tile endpoint under content negotiation (real binary over raw TCP)."""
from . import servers


def run(tier, seed, replay):
    def nontrivial(c):
        return len(c["accept"]) >= 1 and (c["z"]["kind"] != "num" or c["x"]["kind"] != "num" or c["y"]["kind"] != "num"
                                          or c["flags"]["flip"] == 1 or c["src"]["tc"] != "none")
    rule = ("TLC enumerates 4 server instances (best/fast x flip/swap flags) x 15 sources (pbf stored none/gzip/brotli, png/jpg/webp stored none and gzip/brotli, mbtiles, "
            "pmtiles, tar; named as [id]path, path[id], path#id or plain path; three ids that need percent-encoding) x 29 coordinate classes (present, absent, x/y beyond the level, level 31 corner, z 40/255/256, non-numeric, "
            "extensions, non-ASCII digits) x all 32 Accept-Encoding subsets x header renderings; every request is sent over raw TCP to the "
            "real binary and the exchange is judged by TLC with the response relation. non-trivial = request with a non-empty "
            "Accept-Encoding and (compressed source, transform flag, or non-plain coordinate)")
    return servers.run_server("C05", "TILES", tier, seed, replay, rule, nontrivial)
